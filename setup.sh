#!/bin/bash
# Offline set-up: build every check binary once (incremental afterwards; ./check rebuilds what it needs anyway).
set -u
ROOT="$(cd "$(dirname "$0")" && pwd)"
export CARGO_NET_OFFLINE=true
cd "$ROOT/harness" || exit 1
cp /repo/Cargo.lock .repo.lock; cp /repo/Cargo.lock Cargo.lock
mkdir -p "$ROOT/evidence" "$ROOT/replays" target
if ! cargo build --profile verif --offline --bins >target/setup.log 2>&1; then
  # one broken binary must not keep the others from being built
  for f in src/bin/c*.rs; do
    b="$(basename "$f" .rs)"
    cargo build --profile verif --offline --bin "$b" >>target/setup.log 2>&1 || echo "setup: $b does not build (see harness/target/setup.log)"
  done
fi
tail -2 target/setup.log
exit 0
