#!/bin/bash
# Offline set-up: build every check binary once (incremental afterwards).
set -eu
ROOT="$(cd "$(dirname "$0")" && pwd)"
export CARGO_NET_OFFLINE=true
cd "$ROOT/harness"
cp /repo/Cargo.lock .repo.lock; cp /repo/Cargo.lock Cargo.lock
cargo build --profile verif --offline --bins 2>&1 | tail -3
mkdir -p "$ROOT/evidence" "$ROOT/replays"
