#!/bin/bash
# Offline set-up: build every check binary once (incremental afterwards; ./check rebuilds what it needs anyway).
set -u
ROOT="$(cd "$(dirname "$0")" && pwd)"
export CARGO_NET_OFFLINE=true
cd "$ROOT/harness" || exit 1
cp /repo/Cargo.lock .repo.lock; cp /repo/Cargo.lock Cargo.lock
mkdir -p "$ROOT/evidence" "$ROOT/replays" target
if ! cargo build --profile verif --offline --bins >target/setup.log 2>&1; then
  # one broken binary must not keep the others from being built
  for f in src/bin/c*.rs; do
    b="$(basename "$f" .rs)"
    cargo build --profile verif --offline --bin "$b" >>target/setup.log 2>&1 || echo "setup: $b does not build (see harness/target/setup.log)"
  done
fi
# second build variant of C04 / C14 (no debug assertions, as shipped binaries are built)
cargo build --profile verif-nodebug --offline --bin c04 --bin c14 >>target/setup.log 2>&1 || echo "setup: the nodebug variant of c04 / c14 does not build (see harness/target/setup.log)"
tail -2 target/setup.log
exit 0
