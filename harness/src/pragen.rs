//! G1: seeded generator of *valid* pragmatic problems (as `serde_json::Value`) with explicit routing matrices.
//!
//! All numbers are integral (metric Manhattan-style distances on an integer grid, integral durations and window
//! bounds), locations are index references used densely (0..n), times are offsets from `timeutil::T0`.
//! Nothing here calls into /repo: the documents are plain JSON assembled from the documentation.

use crate::rng::Rng;
use crate::timeutil::fmt_off;
use serde_json::{Map, Value, json};
use std::collections::BTreeSet;

#[derive(Clone, Debug)]
pub struct GenCfg {
    pub min_jobs: usize,
    pub max_jobs: usize,
    /// Probability multipliers per feature (0 disables).
    pub p_multi_dim: f64,
    pub p_time_windows: f64,
    pub p_multi_places: f64,
    pub p_skills: f64,
    pub p_groups: f64,
    pub p_compat: f64,
    pub p_order: f64,
    pub p_values: f64,
    pub p_limits: f64,
    pub p_breaks: f64,
    pub p_required_breaks: f64,
    pub p_reloads: f64,
    pub p_resources: f64,
    pub p_recharge: f64,
    pub p_clustering: f64,
    pub p_open_end: f64,
    pub p_scale: f64,
    pub p_asymmetric: f64,
    pub p_unreachable: f64,
    pub p_objectives: f64,
    pub p_two_profiles: f64,
    pub p_multi_shift: f64,
    pub p_multi_jobs: f64,
    pub p_time_matrices: f64,
    /// Probability that a two-place optional break mixes a place with and a place without location.
    pub p_break_mixed_places: f64,
    /// Share of "unreachable" problems that flag a single isolated directed pair instead of a whole location.
    pub p_unreachable_pair: f64,
    /// Always put unique tags on places of multi-task jobs and multi-place tasks (needed by init-solution reader / checker).
    pub always_tag: bool,
    /// chance of a tag on a place which is not forced to have one
    pub p_place_tag: f64,
    /// tag the places of multi-place tasks of single-task jobs sparsely (an untagged place may precede a tagged one)
    pub sparse_place_tags: bool,
}

impl Default for GenCfg {
    fn default() -> Self {
        GenCfg {
            min_jobs: 4,
            max_jobs: 30,
            p_multi_dim: 0.3,
            p_time_windows: 0.7,
            p_multi_places: 0.25,
            p_skills: 0.3,
            p_groups: 0.2,
            p_compat: 0.2,
            p_order: 0.2,
            p_values: 0.2,
            p_limits: 0.35,
            p_breaks: 0.3,
            p_required_breaks: 0.0,
            p_reloads: 0.3,
            p_resources: 0.3,
            p_recharge: 0.0,
            p_clustering: 0.0,
            p_open_end: 0.3,
            p_scale: 0.15,
            p_asymmetric: 0.3,
            p_unreachable: 0.1,
            p_objectives: 0.5,
            p_two_profiles: 0.3,
            p_multi_shift: 0.2,
            p_multi_jobs: 0.6,
            p_time_matrices: 0.0,
            p_break_mixed_places: 0.0,
            p_unreachable_pair: 0.0,
            always_tag: true,
            p_place_tag: 0.2,
            sparse_place_tags: false,
        }
    }
}

#[derive(Clone, Debug)]
pub struct PragProblem {
    pub problem: Value,
    pub matrices: Vec<Value>,
    /// Feature tags switched on in this document (for evidence tables and oracle bounds).
    pub features: BTreeSet<String>,
    pub jobs: usize,
    pub vehicles: usize,
    pub locations: usize,
}

impl PragProblem {
    /// The same problem with geo coordinates instead of index references and WITHOUT matrices (the reader then builds
    /// its approximation): one grid unit is about one metre, profile speed 1 m/s so that times stay comparable.
    pub fn to_coordinates(&self, grid: &[(i64, i64)]) -> Option<PragProblem> {
        if grid.is_empty() {
            return None;
        }
        fn walk(v: &mut Value, grid: &[(i64, i64)]) {
            match v {
                Value::Object(m) => {
                    if let Some(i) = m.get("index").and_then(|i| i.as_u64()) {
                        if m.len() == 1 {
                            let (x, y) = grid[i as usize];
                            // six decimals: parsed identically by every JSON reader
                            let lat = ((52.0 + y as f64 * 9.0e-6) * 1e6).round() / 1e6;
                            let lng = ((13.0 + x as f64 * 1.46e-5) * 1e6).round() / 1e6;
                            m.clear();
                            m.insert("lat".into(), json!(lat));
                            m.insert("lng".into(), json!(lng));
                            return;
                        }
                    }
                    m.values_mut().for_each(|x| walk(x, grid));
                }
                Value::Array(a) => a.iter_mut().for_each(|x| walk(x, grid)),
                _ => {}
            }
        }
        // distinct grid points may collapse to one coordinate after rounding: then index semantics would change
        let mut seen = std::collections::HashSet::new();
        for (x, y) in grid.iter() {
            let key = (((52.0 + *y as f64 * 9.0e-6) * 1e6).round() as i64, ((13.0 + *x as f64 * 1.46e-5) * 1e6).round() as i64);
            seen.insert(key);
        }
        let distinct_points: std::collections::HashSet<_> = grid.iter().collect();
        if seen.len() != distinct_points.len() {
            return None;
        }
        let mut problem = self.problem.clone();
        walk(&mut problem, grid);
        for p in problem["fleet"]["profiles"].as_array_mut().into_iter().flatten() {
            p["speed"] = json!(1.0);
        }
        let mut features = self.features.clone();
        for f in ["asymmetric", "unreachable", "unreachable-outgoing-only", "unreachable-pair"] {
            features.remove(f);
        }
        features.insert("coordinates".into());
        Some(PragProblem { problem, matrices: vec![], features, ..self.clone() })
    }

    pub fn problem_text(&self) -> String {
        serde_json::to_string(&self.problem).unwrap()
    }

    pub fn matrix_texts(&self) -> Vec<String> {
        self.matrices.iter().map(|m| serde_json::to_string(m).unwrap()).collect()
    }

    pub fn has(&self, feature: &str) -> bool {
        self.features.contains(feature)
    }

    /// A compact description: `jobs=12 veh=3 loc=17 [breaks,reloads,...]`.
    pub fn shape(&self) -> String {
        format!(
            "jobs={} veh={} loc={} [{}]",
            self.jobs,
            self.vehicles,
            self.locations,
            self.features.iter().cloned().collect::<Vec<_>>().join(",")
        )
    }
}

struct Geo {
    pts: Vec<(i64, i64)>,
    /// Maps a raw point id to its dense location index (assigned on first use).
    dense: Vec<Option<usize>>,
    used: Vec<usize>,
}

impl Geo {
    fn new(rng: &mut Rng, n: usize, span: i64, clustered: bool) -> Self {
        let mut pts = Vec::with_capacity(n);
        let centers: Vec<(i64, i64)> = (0..3).map(|_| (rng.range_i64(0, span), rng.range_i64(0, span))).collect();
        for _ in 0..n {
            if clustered && rng.chance(0.7) {
                let c = *rng.pick(&centers);
                pts.push(((c.0 + rng.range_i64(-4, 4)).clamp(0, span), (c.1 + rng.range_i64(-4, 4)).clamp(0, span)));
            } else {
                pts.push((rng.range_i64(0, span), rng.range_i64(0, span)));
            }
        }
        Geo { pts, dense: vec![None; n], used: vec![] }
    }

    fn loc(&mut self, raw: usize) -> usize {
        if let Some(i) = self.dense[raw] {
            return i;
        }
        let i = self.used.len();
        self.used.push(raw);
        self.dense[raw] = Some(i);
        i
    }

    fn any(&mut self, rng: &mut Rng) -> usize {
        let raw = rng.usize_below(self.pts.len());
        self.loc(raw)
    }

    fn near(&mut self, rng: &mut Rng, dense_idx: usize) -> usize {
        // a raw point close to the given one (for alternative places / reloads)
        let (x, y) = self.pts[self.used[dense_idx]];
        let mut best = (i64::MAX, 0usize);
        for _ in 0..6 {
            let raw = rng.usize_below(self.pts.len());
            let d = (self.pts[raw].0 - x).abs() + (self.pts[raw].1 - y).abs();
            if d < best.0 {
                best = (d, raw);
            }
        }
        self.loc(best.1)
    }
}

fn loc_json(idx: usize) -> Value {
    json!({"index": idx})
}

/// Generates a valid problem. The generator never emits something the documentation calls invalid;
/// the C10 reference validator is additionally applied by the callers that need a guarantee.
pub fn generate(rng: &mut Rng, cfg: &GenCfg) -> PragProblem {
    generate_with_grid(rng, cfg).0
}

/// As `generate`, additionally returning the grid point of every dense location index (for `to_coordinates`).
pub fn generate_with_grid(rng: &mut Rng, cfg: &GenCfg) -> (PragProblem, Vec<(i64, i64)>) {
    let mut features = BTreeSet::new();
    let n_jobs = rng.range_usize(cfg.min_jobs, cfg.max_jobs.max(cfg.min_jobs));
    let dims = if rng.chance(cfg.p_multi_dim) { rng.range_usize(2, 3) } else { 1 };
    if dims > 1 {
        features.insert("multi-dim".to_string());
    }
    let span = *rng.pick(&[10i64, 20, 40, 60]);
    let horizon: i64 = *rng.pick(&[600i64, 1500, 3000, 6000]);
    let clustered = rng.chance(0.4);
    let mut geo = Geo::new(rng, n_jobs * 2 + 8, span, clustered);

    let has_tw = rng.chance(cfg.p_time_windows);
    let has_skills = rng.chance(cfg.p_skills);
    let has_groups = rng.chance(cfg.p_groups) && n_jobs >= 6;
    let has_compat = rng.chance(cfg.p_compat);
    let has_order = rng.chance(cfg.p_order);
    let has_values = rng.chance(cfg.p_values);
    let has_multi_places = rng.chance(cfg.p_multi_places);
    let tight = rng.chance(0.5);
    let skills_pool = ["s1", "s2", "s3"];

    // ------------------------------------------------------------------ jobs
    let mut jobs = Vec::new();
    let demand_max: i64 = *rng.pick(&[1i64, 3, 5, 10]);
    let gen_demand = |rng: &mut Rng| -> Vec<i64> {
        let mut d: Vec<i64> = (0..dims).map(|_| if rng.chance(0.8) { rng.range_i64(1, demand_max) } else { 0 }).collect();
        if d.iter().all(|v| *v == 0) {
            d[0] = 1;
        }
        d
    };
    let mut tag_counter = 0usize;
    let mut any_order = false;
    let mut any_value = false;
    for j in 0..n_jobs {
        let id = format!("job{j}");
        let kind = {
            let w = [4.0, 2.5, if cfg.p_multi_jobs > 0. { 3.0 * cfg.p_multi_jobs } else { 0. }, 1.0, 0.7, 0.5 * cfg.p_multi_jobs];
            rng.weighted(&w)
        };
        let mut job = Map::new();
        job.insert("id".into(), json!(id));
        let mut mk_place = |rng: &mut Rng, geo: &mut Geo, base: Option<usize>, force_tag: bool, tag_counter: &mut usize| -> (Value, usize) {
            let loc = match base {
                Some(b) => geo.near(rng, b),
                None => geo.any(rng),
            };
            let mut p = Map::new();
            p.insert("location".into(), loc_json(loc));
            p.insert("duration".into(), json!(*rng.pick(&[0i64, 1, 5, 10, 20, 30]) as f64));
            if has_tw && rng.chance(0.75) {
                let nw = if rng.chance(0.2) { rng.range_usize(2, 3) } else { 1 };
                let mut times = Vec::new();
                let mut cursor = rng.range_i64(0, horizon / 3);
                for _ in 0..nw {
                    let len = if tight { rng.range_i64(20, horizon / 8 + 20) } else { rng.range_i64(horizon / 6, horizon / 2) };
                    let start = cursor;
                    let end = start + len.max(1);
                    times.push(json!([fmt_off(start), fmt_off(end)]));
                    cursor = end + rng.range_i64(1, horizon / 6 + 1);
                }
                p.insert("times".into(), Value::Array(times));
            }
            if force_tag || rng.chance(cfg.p_place_tag) {
                p.insert("tag".into(), json!(format!("t{}", *tag_counter)));
                *tag_counter += 1;
            }
            (Value::Object(p), loc)
        };
        let mut mk_task = |rng: &mut Rng, geo: &mut Geo, demand: Option<Vec<i64>>, multi: bool, tag_counter: &mut usize| -> Value {
            let n_places = if has_multi_places && rng.chance(0.3) { rng.range_usize(2, 3) } else { 1 };
            let force_tag = cfg.always_tag && (multi || n_places > 1);
            let mut places = Vec::new();
            let mut base = None;
            // sparse mode: the places of a multi-place task of a SINGLE-task job are tagged with probability one half each
            // (tasks of multi-task jobs keep their tags: the replayer identifies their activities by them)
            let sparse = cfg.sparse_place_tags && !multi && n_places > 1;
            for _ in 0..n_places {
                let force_tag = if sparse { rng.chance(0.5) } else { force_tag };
                let (p, loc) = mk_place(rng, geo, base, force_tag, tag_counter);
                base = Some(loc);
                places.push(p);
            }
            let mut t = Map::new();
            t.insert("places".into(), Value::Array(places));
            if let Some(d) = demand {
                t.insert("demand".into(), json!(d));
            }
            if has_order && rng.chance(0.4) {
                t.insert("order".into(), json!(rng.range_i64(1, 3)));
                any_order = true;
            }
            Value::Object(t)
        };
        match kind {
            0 => {
                let d = gen_demand(rng);
                job.insert("deliveries".into(), json!([mk_task(rng, &mut geo, Some(d), false, &mut tag_counter)]));
                features.insert("delivery".into());
            }
            1 => {
                let d = gen_demand(rng);
                job.insert("pickups".into(), json!([mk_task(rng, &mut geo, Some(d), false, &mut tag_counter)]));
                features.insert("pickup".into());
            }
            2 => {
                // pickup(s) and delivery(ies) with equal demand sums
                let shape = rng.usize_below(4);
                let (np, nd) = match shape {
                    0 | 1 => (1, 1),
                    2 => (2, 1),
                    _ => (1, 2),
                };
                let parts: Vec<Vec<i64>> = (0..np.max(nd)).map(|_| gen_demand(rng)).collect();
                let total: Vec<i64> = (0..dims).map(|k| parts.iter().map(|p| p[k]).sum()).collect();
                let (pd, dd): (Vec<Vec<i64>>, Vec<Vec<i64>>) = if np >= nd {
                    (parts.clone(), if nd == np { parts.clone() } else { vec![total.clone()] })
                } else {
                    (vec![total.clone()], parts.clone())
                };
                let ps: Vec<Value> = pd.into_iter().map(|d| mk_task(rng, &mut geo, Some(d), true, &mut tag_counter)).collect();
                let ds: Vec<Value> = dd.into_iter().map(|d| mk_task(rng, &mut geo, Some(d), true, &mut tag_counter)).collect();
                job.insert("pickups".into(), Value::Array(ps));
                job.insert("deliveries".into(), Value::Array(ds));
                features.insert("pickup-delivery".into());
            }
            3 => {
                job.insert("services".into(), json!([mk_task(rng, &mut geo, None, false, &mut tag_counter)]));
                features.insert("service".into());
            }
            4 => {
                let d = gen_demand(rng);
                job.insert("replacements".into(), json!([mk_task(rng, &mut geo, Some(d), false, &mut tag_counter)]));
                features.insert("replacement".into());
            }
            _ => {
                // mixed job: two deliveries, or delivery + service, or pickup + service
                match rng.usize_below(3) {
                    0 => {
                        let (d1, d2) = (gen_demand(rng), gen_demand(rng));
                        let t1 = mk_task(rng, &mut geo, Some(d1), true, &mut tag_counter);
                        let t2 = mk_task(rng, &mut geo, Some(d2), true, &mut tag_counter);
                        job.insert("deliveries".into(), json!([t1, t2]));
                    }
                    1 => {
                        let d = gen_demand(rng);
                        let t1 = mk_task(rng, &mut geo, Some(d), true, &mut tag_counter);
                        let t2 = mk_task(rng, &mut geo, None, true, &mut tag_counter);
                        job.insert("deliveries".into(), json!([t1]));
                        job.insert("services".into(), json!([t2]));
                    }
                    _ => {
                        let d = gen_demand(rng);
                        let t1 = mk_task(rng, &mut geo, Some(d), true, &mut tag_counter);
                        let t2 = mk_task(rng, &mut geo, None, true, &mut tag_counter);
                        job.insert("pickups".into(), json!([t1]));
                        job.insert("services".into(), json!([t2]));
                    }
                }
                features.insert("mixed-job".into());
            }
        }
        if has_skills && rng.chance(0.35) {
            let mut sk = Map::new();
            match rng.usize_below(6) {
                // exclusion lists of different length (one a strict superset of the other) within one problem
                4 => {
                    let first = rng.usize_below(skills_pool.len());
                    let second = (first + rng.range_usize(1, skills_pool.len() - 1)) % skills_pool.len();
                    sk.insert("noneOf".into(), json!([skills_pool[first], skills_pool[second]]));
                }
                5 => {
                    sk.insert("allOf".into(), json!([skills_pool[0]]));
                    sk.insert("noneOf".into(), json!([skills_pool[1], skills_pool[2]]));
                }
                0 => {
                    sk.insert("allOf".into(), json!([*rng.pick(&skills_pool)]));
                }
                1 => {
                    sk.insert("oneOf".into(), json!([skills_pool[0], skills_pool[rng.range_usize(1, 2)]]));
                }
                2 => {
                    sk.insert("noneOf".into(), json!([*rng.pick(&skills_pool)]));
                }
                _ => {
                    sk.insert("allOf".into(), json!([skills_pool[0]]));
                    sk.insert("noneOf".into(), json!([skills_pool[2]]));
                }
            }
            job.insert("skills".into(), Value::Object(sk));
            features.insert("skills".into());
        }
        if has_values && rng.chance(0.5) {
            job.insert("value".into(), json!(rng.range_i64(1, 50) as f64));
            any_value = true;
        }
        jobs.push(job);
    }
    if has_groups {
        let n_groups = rng.range_usize(1, 2);
        for g in 0..n_groups {
            let size = rng.range_usize(2, 4);
            for _ in 0..size {
                let j = rng.usize_below(n_jobs);
                if !jobs[j].contains_key("group") {
                    jobs[j].insert("group".into(), json!(format!("g{g}")));
                }
            }
        }
        features.insert("groups".into());
    }
    if has_compat {
        for job in jobs.iter_mut() {
            if rng.chance(0.4) {
                job.insert("compatibility".into(), json!(*rng.pick(&["A", "B", "C"])));
            }
        }
        features.insert("compatibility".into());
    }
    if any_order {
        features.insert("order".into());
    }
    if any_value {
        features.insert("value".into());
    }
    if has_tw {
        features.insert("time-windows".into());
    }
    if has_multi_places {
        features.insert("multi-places".into());
    }
    // a task whose places are tagged sparsely: an untagged place listed in front of a tagged one
    let sparse = jobs.iter().any(|job: &serde_json::Map<String, Value>| {
        ["deliveries", "pickups", "services", "replacements"].iter().any(|kind| {
            job.get(*kind).and_then(|t| t.as_array()).into_iter().flatten().any(|task| {
                let places = task["places"].as_array().cloned().unwrap_or_default();
                places.iter().position(|p| p.get("tag").is_none()).is_some_and(|first_untagged| places.iter().skip(first_untagged + 1).any(|p| p.get("tag").is_some()))
            })
        })
    });
    if sparse {
        features.insert("sparse-place-tags".into());
    }

    // ------------------------------------------------------------------ fleet
    let two_profiles = rng.chance(cfg.p_two_profiles);
    let profiles: Vec<&str> = if two_profiles { vec!["car", "truck"] } else { vec!["car"] };
    if two_profiles {
        features.insert("two-profiles".into());
    }
    let n_types = rng.range_usize(1, 3);
    let mut vehicles = Vec::new();
    let mut n_vehicles = 0;
    let has_limits = rng.chance(cfg.p_limits);
    let has_breaks = rng.chance(cfg.p_breaks);
    let has_req_breaks = rng.chance(cfg.p_required_breaks);
    let has_reloads = rng.chance(cfg.p_reloads);
    let has_resources = has_reloads && rng.chance(cfg.p_resources);
    let has_recharge = rng.chance(cfg.p_recharge);
    let cap_level = *rng.pick(&[1i64, 2, 4, 8]);
    let mut resource_ids: Vec<String> = vec![];
    let mut depot: Option<usize> = None;
    for t in 0..n_types {
        let n_ids = rng.range_usize(1, 3);
        let ids: Vec<String> = (0..n_ids).map(|k| format!("v{t}_{k}")).collect();
        n_vehicles += n_ids;
        let mut profile = Map::new();
        profile.insert("matrix".into(), json!(*rng.pick(&profiles)));
        if rng.chance(cfg.p_scale) {
            profile.insert("scale".into(), json!(*rng.pick(&[0.5f64, 1.5, 2.0, 1.25])));
            features.insert("scale".into());
        }
        let mut costs = Map::new();
        if rng.chance(0.7) {
            costs.insert("fixed".into(), json!(*rng.pick(&[0f64, 10., 25., 100.])));
        }
        let (cd, ct) = match rng.usize_below(4) {
            0 => (1.0, 0.0),
            1 => (0.0, 1.0),
            2 => (1.0, 1.0),
            _ => (*rng.pick(&[0.5f64, 2.0, 0.1]), *rng.pick(&[0.5f64, 2.0, 0.1])),
        };
        costs.insert("distance".into(), json!(cd));
        costs.insert("time".into(), json!(ct));
        let n_shifts = if rng.chance(cfg.p_multi_shift) { 2 } else { 1 };
        if n_shifts > 1 {
            features.insert("multi-shift".into());
        }
        let mut shifts = Vec::new();
        let mut cursor = rng.range_i64(0, horizon / 10);
        let home = if rng.chance(0.6) {
            if depot.is_none() {
                depot = Some(geo.any(rng));
            }
            depot.unwrap()
        } else {
            geo.any(rng)
        };
        for _ in 0..n_shifts {
            let s_start = cursor;
            let s_len = rng.range_i64(horizon / 2, horizon) / n_shifts as i64;
            let s_end = s_start + s_len.max(60);
            cursor = s_end + rng.range_i64(10, 100);
            let mut start = Map::new();
            start.insert("earliest".into(), json!(fmt_off(s_start)));
            let offset_breaks = (has_breaks || has_req_breaks) && rng.chance(0.4);
            if offset_breaks {
                start.insert("latest".into(), json!(fmt_off(s_start)));
            } else if rng.chance(0.4) {
                let latest = if rng.chance(0.3) { s_start } else { s_start + rng.range_i64(0, s_len / 3) };
                start.insert("latest".into(), json!(fmt_off(latest)));
                features.insert("start-latest".into());
            }
            start.insert("location".into(), loc_json(home));
            let mut shift = Map::new();
            shift.insert("start".into(), Value::Object(start));
            if !rng.chance(cfg.p_open_end) {
                let end_loc = if rng.chance(0.8) { home } else { geo.any(rng) };
                shift.insert("end".into(), json!({"latest": fmt_off(s_end), "location": loc_json(end_loc)}));
            } else {
                features.insert("open-end".into());
            }
            let mut breaks = Vec::new();
            if has_breaks && rng.chance(0.7) {
                let b_start = s_start + s_len / 3 + rng.range_i64(0, s_len / 6);
                let b_end = (b_start + rng.range_i64(30, s_len / 4 + 30)).min(s_end - 1);
                let time = if offset_breaks && rng.chance(0.6) {
                    features.insert("break-offset".into());
                    json!([(b_start - s_start) as f64, (b_end - s_start) as f64])
                } else {
                    json!([fmt_off(b_start), fmt_off(b_end)])
                };
                let n_places = rng.range_usize(1, 2);
                // all places of one break either have a location or none has (mixing them makes the solver
                // assert "break with multiple places is not supported"; probed separately as a recorded finding)
                let with_location = rng.chance(0.35);
                let mixed = cfg.p_break_mixed_places > 0. && rng.chance(cfg.p_break_mixed_places);
                let places: Vec<Value> = (0..n_places)
                    .map(|k| {
                        let mut p = Map::new();
                        p.insert("duration".into(), json!(*rng.pick(&[5i64, 10, 30, 60]) as f64));
                        if (with_location && !mixed) || (mixed && k == 0) {
                            p.insert("location".into(), loc_json(geo.any(rng)));
                            features.insert("break-location".into());
                        }
                        if n_places > 1 || rng.chance(0.3) {
                            p.insert("tag".into(), json!(format!("b{k}")));
                        }
                        Value::Object(p)
                    })
                    .collect();
                let mut b = Map::new();
                b.insert("time".into(), time);
                b.insert("places".into(), Value::Array(places));
                if rng.chance(0.5) {
                    b.insert("policy".into(), json!(*rng.pick(&["skip-if-no-intersection", "skip-if-arrival-before-end"])));
                }
                breaks.push(Value::Object(b));
                features.insert("breaks".into());
            }
            if has_req_breaks && rng.chance(0.7) {
                // placed in the last third so that it cannot intersect the optional one
                let e = s_start + 2 * s_len / 3 + rng.range_i64(5, s_len / 12 + 5);
                let l = e + rng.range_i64(0, s_len / 12);
                let dur = *rng.pick(&[5i64, 10, 20]);
                let time = if offset_breaks && rng.chance(0.5) {
                    json!({"earliest": (e - s_start) as f64, "latest": (l - s_start) as f64})
                } else {
                    json!({"earliest": fmt_off(e), "latest": fmt_off(l)})
                };
                if l + dur < s_end {
                    breaks.push(json!({"time": time, "duration": dur as f64}));
                    features.insert("required-breaks".into());
                }
            }
            // either kind may be listed first (break job ids are numbered per shift and kind)
            if breaks.len() == 2 && rng.chance(0.5) {
                breaks.swap(0, 1);
                features.insert("required-break-listed-first".into());
            }
            if !breaks.is_empty() {
                shift.insert("breaks".into(), Value::Array(breaks));
            }
            if has_reloads && rng.chance(0.7) {
                let n_rel = rng.range_usize(1, 2);
                let mut reloads = Vec::new();
                for k in 0..n_rel {
                    let mut r = Map::new();
                    let loc = if rng.chance(0.5) { home } else { geo.any(rng) };
                    r.insert("location".into(), loc_json(loc));
                    r.insert("duration".into(), json!(*rng.pick(&[0i64, 5, 20]) as f64));
                    if rng.chance(0.25) {
                        let rs = s_start + rng.range_i64(0, s_len / 3);
                        r.insert("times".into(), json!([[fmt_off(rs), fmt_off((rs + s_len / 2).min(s_end))]]));
                    }
                    if n_rel > 1 || rng.chance(0.4) {
                        r.insert("tag".into(), json!(format!("r{k}")));
                    }
                    if has_resources && rng.chance(0.7) {
                        let rid = format!("res{}", rng.usize_below(2));
                        if !resource_ids.contains(&rid) {
                            resource_ids.push(rid.clone());
                        }
                        r.insert("resourceId".into(), json!(rid));
                        features.insert("reload-resource".into());
                    }
                    reloads.push(Value::Object(r));
                }
                shift.insert("reloads".into(), Value::Array(reloads));
                features.insert("reloads".into());
            }
            if has_recharge && rng.chance(0.7) {
                let n_st = rng.range_usize(1, 2);
                let stations: Vec<Value> =
                    (0..n_st).map(|_| json!({"location": loc_json(geo.any(rng)), "duration": *rng.pick(&[0i64, 10, 30]) as f64})).collect();
                shift.insert("recharges".into(), json!({"maxDistance": (span * rng.range_i64(2, 6)) as f64, "stations": stations}));
                features.insert("recharge".into());
            }
            shifts.push(Value::Object(shift));
        }
        let capacity: Vec<i64> = (0..dims).map(|_| (demand_max * cap_level + rng.range_i64(0, demand_max)).max(1)).collect();
        let mut v = Map::new();
        v.insert("typeId".into(), json!(format!("type{t}")));
        v.insert("vehicleIds".into(), json!(ids));
        v.insert("profile".into(), Value::Object(profile));
        v.insert("costs".into(), Value::Object(costs));
        v.insert("shifts".into(), Value::Array(shifts));
        v.insert("capacity".into(), json!(capacity));
        if has_skills && rng.chance(0.7) {
            let n = rng.range_usize(0, 3);
            let mut s: Vec<&str> = skills_pool.to_vec();
            rng.shuffle(&mut s);
            s.truncate(n);
            v.insert("skills".into(), json!(s));
        }
        if has_limits && rng.chance(0.8) {
            let mut l = Map::new();
            if rng.chance(0.5) {
                l.insert("maxDistance".into(), json!((span * rng.range_i64(2, 8)) as f64));
                features.insert("limit-distance".into());
            }
            if rng.chance(0.5) {
                l.insert("maxDuration".into(), json!(rng.range_i64(horizon / 6, horizon / 2) as f64));
                features.insert("limit-duration".into());
            }
            if rng.chance(0.5) {
                l.insert("tourSize".into(), json!(rng.range_i64(1, 8)));
                features.insert("limit-size".into());
            }
            if !l.is_empty() {
                v.insert("limits".into(), Value::Object(l));
            }
        }
        vehicles.push(Value::Object(v));
    }
    // every declared profile must exist; every used profile is declared
    let mut fleet = Map::new();
    fleet.insert("vehicles".into(), Value::Array(vehicles));
    fleet.insert("profiles".into(), Value::Array(profiles.iter().map(|p| json!({"name": p})).collect()));
    if !resource_ids.is_empty() {
        let res: Vec<Value> = resource_ids
            .iter()
            .map(|id| {
                let cap: Vec<i64> = (0..dims).map(|_| demand_max * rng.range_i64(1, 6)).collect();
                json!({"type": "reload", "id": id, "capacity": cap})
            })
            .collect();
        fleet.insert("resources".into(), Value::Array(res));
    }

    // ------------------------------------------------------------------ objectives
    let mut problem = Map::new();
    let mut plan = Map::new();
    if rng.chance(cfg.p_clustering) {
        let serving = match rng.usize_below(3) {
            0 => json!({"type": "original", "parking": *rng.pick(&[0f64, 5., 20.])}),
            1 => json!({"type": "multiplier", "value": 0.5, "parking": *rng.pick(&[0f64, 5., 20.])}),
            _ => json!({"type": "fixed", "value": 5.0, "parking": *rng.pick(&[0f64, 5., 20.])}),
        };
        let mut clustering = json!({
            "type": "vicinity",
            "profile": {"matrix": profiles[0]},
            "threshold": {"duration": (span / 2) as f64 * 2., "distance": (span / 2) as f64, "minSharedTime": 10.0, "maxJobsPerCluster": rng.range_i64(2, 5)},
            "visiting": *rng.pick(&["continue", "return"]),
            "serving": serving,
        });
        if rng.chance(0.5) {
            // explicit filtering policy: some (possibly zero) jobs must not be clustered
            let n = rng.usize_below(4).min(jobs.len());
            let ids: Vec<Value> = (0..n).filter_map(|_| jobs[rng.usize_below(jobs.len())].get("id").cloned()).collect();
            clustering["filtering"] = json!({"excludeJobIds": ids});
            features.insert("clustering-filtering".into());
        }
        // clusters keep the skills of their centre job only: neighbouring jobs get exclusion lists of different length (one a strict
        // superset of the other), and the first vehicle type owns the skill which only the longer list excludes
        if rng.chance(0.5) {
            let first = rng.usize_below(skills_pool.len());
            let (a, b) = (skills_pool[first], skills_pool[(first + 1) % skills_pool.len()]);
            let mut touched = 0;
            for job in jobs.iter_mut() {
                let simple = ["deliveries", "pickups", "services", "replacements"].iter().filter_map(|k| job.get(*k).and_then(|t| t.as_array()).map(|t| t.len())).sum::<usize>() == 1;
                if simple && !job.contains_key("skills") && rng.chance(0.6) {
                    let none_of = if rng.chance(0.5) { json!([a]) } else { json!([a, b]) };
                    job.insert("skills".into(), json!({"noneOf": none_of}));
                    touched += 1;
                }
            }
            if touched > 0 {
                if let Some(v0) = fleet.get_mut("vehicles").and_then(|v| v.as_array_mut()).and_then(|v| v.first_mut()) {
                    v0["skills"] = json!([b]);
                }
                features.insert("skills".into());
                features.insert("clustering-nested-none-of".into());
            }
        }
        plan.insert("clustering".into(), clustering);
        features.insert("clustering".into());
    }
    plan.insert("jobs".into(), Value::Array(jobs.into_iter().map(Value::Object).collect()));
    problem.insert("plan".into(), Value::Object(plan));
    problem.insert("fleet".into(), Value::Object(fleet));
    let custom_objectives = rng.chance(cfg.p_objectives) || any_value;
    if custom_objectives {
        let objs = gen_objectives(rng, any_value, any_order, &mut features);
        problem.insert("objectives".into(), Value::Array(objs));
    }

    // ------------------------------------------------------------------ matrices
    let n_loc = geo.used.len();
    let mut fleet_locs: BTreeSet<usize> = BTreeSet::new();
    collect_indices(&problem["fleet"], &mut fleet_locs);
    let asym = rng.chance(cfg.p_asymmetric);
    if asym {
        features.insert("asymmetric".into());
    }
    let unreachable = rng.chance(cfg.p_unreachable) && n_loc > 6;
    let mut matrices = Vec::new();
    for (pi, p) in profiles.iter().enumerate() {
        let tf: i64 = if pi == 0 { *rng.pick(&[1i64, 2]) } else { *rng.pick(&[2i64, 3]) };
        let mut dist = Vec::with_capacity(n_loc * n_loc);
        let mut time = Vec::with_capacity(n_loc * n_loc);
        for a in 0..n_loc {
            for b in 0..n_loc {
                let (ax, ay) = geo.pts[geo.used[a]];
                let (bx, by) = geo.pts[geo.used[b]];
                let mut d = (ax - bx).abs() + (ay - by).abs();
                if asym {
                    d += (bx - ax).max(0); // one-way surcharge "uphill": still satisfies the triangle inequality
                }
                dist.push(d);
                time.push(d * tf);
            }
        }
        let mut m = Map::new();
        m.insert("profile".into(), json!(p));
        m.insert("travelTimes".into(), json!(time));
        m.insert("distances".into(), json!(dist));
        if unreachable {
            // realistic unreachability: a whole job-only location cannot be reached in this profile (row and column
            // flagged, as a routing engine reports it); `p_unreachable_pair` instead flags one isolated directed pair
            let mut codes = vec![0i64; n_loc * n_loc];
            let mut any = false;
            if cfg.p_unreachable_pair > 0. && rng.chance(cfg.p_unreachable_pair) {
                let a = rng.usize_below(n_loc);
                let b = rng.usize_below(n_loc);
                if a != b {
                    codes[a * n_loc + b] = 1;
                    any = true;
                    features.insert("unreachable-pair".into());
                }
            } else {
                let candidates: Vec<usize> = (0..n_loc).filter(|l| !fleet_locs.contains(l)).collect();
                if !candidates.is_empty() && (pi == 0 || rng.chance(0.5)) {
                    let l = *rng.pick(&candidates);
                    // two shapes: the location is cut off in both directions, or it can be reached but not left (a job there
                    // can only end an open tour) - the onward leg of an insertion has to be looked at as well as the inbound one
                    let no_way_out_only = rng.chance(0.4);
                    for x in 0..n_loc {
                        if x != l {
                            if !no_way_out_only {
                                codes[x * n_loc + l] = 1;
                            }
                            codes[l * n_loc + x] = 1;
                        }
                    }
                    any = true;
                    features.insert(if no_way_out_only { "unreachable-outgoing-only" } else { "unreachable" }.into());
                }
            }
            if any {
                m.insert("errorCodes".into(), json!(codes));
            }
        }
        matrices.push(Value::Object(m));
    }

    let grid: Vec<(i64, i64)> = geo.used.iter().map(|raw| geo.pts[*raw]).collect();
    (PragProblem { problem: Value::Object(problem), matrices, features, jobs: n_jobs, vehicles: n_vehicles, locations: n_loc }, grid)
}

fn collect_indices(v: &Value, out: &mut BTreeSet<usize>) {
    match v {
        Value::Object(m) => {
            if let Some(i) = m.get("index").and_then(|i| i.as_u64()) {
                out.insert(i as usize);
            }
            m.values().for_each(|x| collect_indices(x, out));
        }
        Value::Array(a) => a.iter().for_each(|x| collect_indices(x, out)),
        _ => {}
    }
}

fn gen_objectives(rng: &mut Rng, any_value: bool, any_order: bool, features: &mut BTreeSet<String>) -> Vec<Value> {
    // lexicographic list obeying E1600-E1607: exactly one cost objective, no duplicates,
    // maximize-value iff jobs have values, tour-order only when some task has an order
    let mut objs: Vec<Value> = Vec::new();
    let cost = match rng.usize_below(3) {
        0 => json!({"type": "minimize-cost"}),
        1 => json!({"type": "minimize-distance"}),
        _ => json!({"type": "minimize-duration"}),
    };
    let mut extras: Vec<Value> = Vec::new();
    if rng.chance(0.85) {
        if rng.chance(0.3) {
            extras.push(json!({"type": "minimize-unassigned", "breaks": *rng.pick(&[0.5f64, 1., 2.])}));
        } else {
            extras.push(json!({"type": "minimize-unassigned"}));
        }
    }
    if any_value {
        extras.push(json!({"type": "maximize-value"}));
    }
    if any_order && rng.chance(0.5) {
        extras.push(json!({"type": "tour-order"}));
        features.insert("soft-order".into());
    }
    if rng.chance(0.5) {
        extras.push(if rng.chance(0.8) { json!({"type": "minimize-tours"}) } else { json!({"type": "maximize-tours"}) });
    }
    let balance = ["balance-max-load", "balance-activities", "balance-distance", "balance-duration"];
    if rng.chance(0.3) {
        extras.push(json!({"type": *rng.pick(&balance)}));
        features.insert("balance".into());
    }
    if rng.chance(0.1) {
        extras.push(json!({"type": "minimize-arrival-time"}));
    }
    if rng.chance(0.1) {
        extras.push(json!({"type": "compact-tour", "job_radius": rng.range_i64(1, 4)}));
    }
    if rng.chance(0.1) {
        extras.push(json!({"type": "fast-service"}));
    }
    // order: keep minimize-unassigned/value first with high probability, rest shuffled
    let mut tail: Vec<Value> = Vec::new();
    for e in extras {
        let t = e["type"].as_str().unwrap().to_string();
        if t == "maximize-value" || (t == "minimize-unassigned" && rng.chance(0.85)) {
            objs.push(e);
        } else {
            tail.push(e);
        }
    }
    tail.push(cost);
    rng.shuffle(&mut tail);
    // optionally fold two tail objectives into one multi-objective layer
    // a list holding only one multi-objective layer is rejected by the reader ("no objectives specified in the goal",
    // recorded C10 finding), so a layer is only folded when another top-level objective remains
    if tail.len() >= 2 && (tail.len() >= 3 || !objs.is_empty()) && rng.chance(0.25) {
        let a = tail.remove(0);
        let b = tail.remove(0);
        let strategy = if rng.chance(0.5) { json!({"name": "sum"}) } else { json!({"name": "weighted-sum", "weights": [0.7, 0.3]}) };
        tail.insert(0, json!({"type": "multi-objective", "strategy": strategy, "objectives": [a, b]}));
        features.insert("multi-objective".into());
    }
    objs.extend(tail);
    features.insert("custom-objectives".into());
    objs
}
