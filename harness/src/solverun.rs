//! G2 (solver configurations as the CLI's JSON config) and helpers which run the real solver end-to-end
//! through the same path as `vrp-cli solve … --config` (`read_config` → `get_solution_serialized`).

use crate::pragen::PragProblem;
use crate::rng::Rng;
use crate::run::{PanicInfo, guard};
use serde_json::{Value, json};
use std::io::BufReader;
use std::sync::Arc;
use vrp_cli::extensions::solve::config::read_config;
use vrp_core::models::Problem;
use vrp_pragmatic::format::problem::PragmaticProblem;

pub enum ReadOutcome {
    Ok(Arc<Problem>),
    /// Validation / format errors (codes) and their rendered text.
    Err(Vec<String>, String),
    Panic(PanicInfo),
}

/// Reads the documents through the public reader under the panic monitor.
pub fn read_problem_texts(problem: &str, matrices: &[String]) -> ReadOutcome {
    let p = problem.to_string();
    let m = matrices.to_vec();
    match guard(move || if m.is_empty() { p.read_pragmatic() } else { (p, m).read_pragmatic() }) {
        Ok(Ok(problem)) => ReadOutcome::Ok(Arc::new(problem)),
        Ok(Err(errs)) => ReadOutcome::Err(errs.errors.iter().map(|e| e.code.clone()).collect(), errs.to_string()),
        Err(p) => ReadOutcome::Panic(p),
    }
}

pub fn read_problem(p: &PragProblem) -> ReadOutcome {
    read_problem_texts(&p.problem_text(), &p.matrix_texts())
}

#[derive(Clone, Debug, Default)]
pub struct ConfigShape {
    pub population: String,
    pub hyper: String,
    pub parallelism: String,
    pub initial: String,
    pub termination: String,
    pub operators: Vec<String>,
}

impl ConfigShape {
    pub fn key(&self) -> String {
        format!("{}|{}|{}|{}|{}", self.population, self.hyper, self.parallelism, self.initial, self.termination)
    }
}

fn noise(rng: &mut Rng) -> Value {
    json!({"probability": *rng.pick(&[0.05f64, 0.5, 1.0]), "min": *rng.pick(&[-0.1f64, 0.5, 0.9]), "max": *rng.pick(&[1.0f64, 1.1, 1.5])})
}

fn recreate_method(rng: &mut Rng, shape: &mut ConfigShape) -> Value {
    let w = rng.range_usize(1, 10);
    let names = ["cheapest", "skip-best", "blinks", "gaps", "nearest", "skip-random", "slice", "farthest", "perturbation", "regret"];
    let name = *rng.pick(&names);
    shape.operators.push(format!("recreate:{name}"));
    match name {
        "skip-best" => json!({"type": name, "weight": w, "start": 1, "end": rng.range_usize(2, 4)}),
        "gaps" => json!({"type": name, "weight": w, "min": 2, "max": rng.range_usize(3, 20)}),
        "perturbation" => json!({"type": name, "weight": w, "probability": 0.33, "min": -0.2, "max": 0.2}),
        "regret" => json!({"type": name, "weight": w, "start": 2, "end": rng.range_usize(3, 5)}),
        _ => json!({"type": name, "weight": w}),
    }
}

fn ruin_method(rng: &mut Rng, shape: &mut ConfigShape) -> Value {
    let names = ["adjusted-string", "neighbour", "random-job", "random-route", "close-route", "worst-route", "worst-job", "cluster"];
    let name = *rng.pick(&names);
    shape.operators.push(format!("ruin:{name}"));
    let p = *rng.pick(&[1.0f64, 0.5, 0.1]);
    let (min, max) = (rng.range_usize(1, 4), rng.range_usize(5, 20));
    match name {
        "adjusted-string" => {
            // keep 4*cavg/(1+lmax) - 1 >= 0: smaller cavg makes AdjustedStringRemoval::calculate_limits assert (recorded finding, probed separately)
            let lmax = rng.range_usize(2, 30);
            let cavg = (lmax + 1).div_ceil(4) + rng.range_usize(0, 8);
            json!({"type": name, "probability": p, "lmax": lmax, "cavg": cavg, "alpha": 0.01})
        }
        "neighbour" | "random-job" | "cluster" => json!({"type": name, "probability": p, "min": min, "max": max}),
        "random-route" => json!({"type": name, "probability": p, "min": 1, "max": rng.range_usize(2, 4)}),
        "worst-job" => json!({"type": name, "probability": p, "min": min, "max": max, "skip": rng.range_usize(1, 4)}),
        _ => json!({"type": name, "probability": p}),
    }
}

fn local_operator(rng: &mut Rng, shape: &mut ConfigShape) -> Value {
    let names = ["swap-star", "inter-route-best", "inter-route-random", "intra-route-random", "sequence"];
    let name = *rng.pick(&names);
    shape.operators.push(format!("local:{name}"));
    let w = rng.range_usize(1, 100);
    match name {
        "swap-star" | "sequence" => json!({"type": name, "weight": w}),
        _ => json!({"type": name, "weight": w, "noise": noise(rng)}),
    }
}

fn probability(rng: &mut Rng) -> Value {
    if rng.chance(0.7) {
        json!({"scalar": *rng.pick(&[1.0f64, 0.5, 0.2])})
    } else {
        json!({"threshold": {"jobs": rng.range_usize(1, 30), "routes": rng.range_usize(1, 4)},
               "phases": [{"type": "initial", "chance": 1.0}, {"type": "exploration", "chance": 0.5}, {"type": "exploitation", "chance": 0.5}]})
    }
}

/// G2: a random solver configuration (CLI JSON config). `max_gens` bounds termination.
pub fn gen_config(rng: &mut Rng, max_gens: usize, parallelism: Option<(usize, usize)>) -> (Value, ConfigShape) {
    let mut shape = ConfigShape::default();
    let mut cfg = serde_json::Map::new();

    // evolution
    let mut evolution = serde_json::Map::new();
    if rng.chance(0.5) {
        let method = recreate_method(rng, &mut shape);
        let n_alt = rng.range_usize(0, 3);
        let alts: Vec<Value> = (0..n_alt).map(|_| recreate_method(rng, &mut shape)).collect();
        evolution.insert(
            "initial".into(),
            json!({"method": method, "alternatives": {"methods": alts, "maxSize": rng.range_usize(1, 4), "quota": *rng.pick(&[0.05f64, 0.5, 1.0])}}),
        );
        shape.initial = format!("custom+{n_alt}");
    } else {
        shape.initial = "default".into();
    }
    match rng.usize_below(5) {
        0 => {
            evolution.insert("population".into(), json!({"type": "greedy", "selectionSize": rng.range_usize(1, 4)}));
            shape.population = "greedy".into();
        }
        1 => {
            evolution.insert("population".into(), json!({"type": "elitism", "maxSize": rng.range_usize(1, 6), "selectionSize": rng.range_usize(1, 4)}));
            shape.population = "elitism".into();
        }
        2 | 3 => {
            evolution.insert(
                "population".into(),
                json!({"type": "rosomaxa", "selectionSize": rng.range_usize(2, 6), "maxEliteSize": rng.range_usize(1, 4), "maxNodeSize": rng.range_usize(1, 4),
                       "spreadFactor": *rng.pick(&[0.25f64, 0.75, 0.9]), "distributionFactor": *rng.pick(&[0.1f64, 0.25, 0.75]),
                       "rebalanceMemory": rng.range_usize(2, 200), "explorationRatio": *rng.pick(&[0.1f64, 0.9, 0.5])}),
            );
            shape.population = "rosomaxa".into();
        }
        _ => shape.population = "default".into(),
    }
    if !evolution.is_empty() {
        cfg.insert("evolution".into(), Value::Object(evolution));
    }

    // hyper
    match rng.usize_below(4) {
        0 => {
            cfg.insert("hyper".into(), json!({"type": "dynamic-selective"}));
            shape.hyper = "dynamic".into();
        }
        1 => {
            cfg.insert("hyper".into(), json!({"type": "static-selective"}));
            shape.hyper = "static-default".into();
        }
        2 => {
            let mut ops = Vec::new();
            let n_ops = rng.range_usize(1, 4);
            for _ in 0..n_ops {
                match rng.usize_below(4) {
                    0 => {
                        shape.operators.push("search:decomposition".into());
                        ops.push(json!({"type": "decomposition", "routes": {"min": 2, "max": rng.range_usize(2, 4)}, "repeat": rng.range_usize(1, 3), "probability": probability(rng)}));
                    }
                    1 => {
                        let n = rng.range_usize(1, 3);
                        let inner: Vec<Value> = (0..n).map(|_| local_operator(rng, &mut shape)).collect();
                        shape.operators.push("search:local-search".into());
                        ops.push(json!({"type": "local-search", "probability": probability(rng), "times": {"min": 1, "max": rng.range_usize(1, 4)}, "operators": inner}));
                    }
                    _ => {
                        let n_groups = rng.range_usize(1, 3);
                        let groups: Vec<Value> = (0..n_groups)
                            .map(|_| {
                                let n = rng.range_usize(1, 3);
                                let methods: Vec<Value> = (0..n).map(|_| ruin_method(rng, &mut shape)).collect();
                                json!({"methods": methods, "weight": rng.range_usize(1, 10)})
                            })
                            .collect();
                        let n_rec = rng.range_usize(1, 3);
                        let recreates: Vec<Value> = (0..n_rec).map(|_| recreate_method(rng, &mut shape)).collect();
                        shape.operators.push("search:ruin-recreate".into());
                        ops.push(json!({"type": "ruin-recreate", "probability": probability(rng), "ruins": groups, "recreates": recreates}));
                    }
                }
            }
            cfg.insert("hyper".into(), json!({"type": "static-selective", "operators": ops}));
            shape.hyper = "static-custom".into();
        }
        _ => shape.hyper = "default".into(),
    }

    // termination: logical (generations) so that runs are bounded independent of machine load
    let gens = rng.range_usize(1, max_gens.max(1));
    let mut term = serde_json::Map::new();
    term.insert("maxGenerations".into(), json!(gens));
    shape.termination = "max-gen".into();
    if rng.chance(0.15) {
        term.insert("variation".into(), json!({"intervalType": "sample", "value": rng.range_usize(5, 50), "cv": *rng.pick(&[0.01f64, 0.1, 1.0]), "isGlobal": rng.chance(0.5)}));
        shape.termination = "max-gen+variation".into();
    }
    if rng.chance(0.1) {
        term.insert("maxTime".into(), json!(rng.range_usize(1, 3)));
        shape.termination.push_str("+max-time");
    }
    cfg.insert("termination".into(), Value::Object(term));

    // environment
    let (pools, threads) = parallelism.unwrap_or_else(|| *rng.pick(&[(1usize, 1usize), (1, 2), (2, 2), (4, 1), (3, 3), (8, 2), (2, 4), (1, 8)]));
    shape.parallelism = format!("{pools}x{threads}");
    cfg.insert(
        "environment".into(),
        json!({"parallelism": {"numThreadPools": pools, "threadsPerPool": threads}, "logging": {"enabled": false}, "isExperimental": rng.chance(0.2)}),
    );
    if rng.chance(0.3) {
        cfg.insert("telemetry".into(), json!({"metrics": {"enabled": true, "trackPopulation": rng.range_usize(1, 10)}}));
    }
    shape.operators.sort();
    shape.operators.dedup();
    (Value::Object(cfg), shape)
}

pub enum SolveOutcome {
    Ok(String),
    Err(String),
    Panic(PanicInfo),
}

/// Runs the solver through the CLI's JSON-config path and returns the serialized pragmatic solution.
pub fn solve_with_config(problem: Arc<Problem>, config: &Value) -> SolveOutcome {
    let text = serde_json::to_string(config).unwrap();
    let cfg = match read_config(BufReader::new(text.as_bytes())) {
        Ok(c) => c,
        Err(e) => return SolveOutcome::Err(format!("config rejected: {e}")),
    };
    match guard(move || vrp_cli::get_solution_serialized(problem, cfg)) {
        Ok(Ok(s)) => SolveOutcome::Ok(s),
        Ok(Err(e)) => SolveOutcome::Err(e.to_string()),
        Err(p) => SolveOutcome::Panic(p),
    }
}

/// The same path with an initial solution (as `vrp-cli solve --init-solution` does): the solution document is read with the public
/// `read_init_solution`, turned into an `InsertionContext` and handed to `create_builder_from_config`.
/// An `Err` starting with "init-solution:" means the document was not accepted as initial solution (C11's subject).
pub fn solve_with_config_and_init(problem: Arc<Problem>, config: &Value, init_solution: &Value) -> SolveOutcome {
    use vrp_cli::extensions::solve::config::create_builder_from_config;
    use vrp_core::construction::heuristics::InsertionContext;
    use vrp_core::rosomaxa::prelude::{DefaultRandom, Environment};
    use vrp_core::solver::Solver;
    use vrp_pragmatic::format::solution::{PragmaticOutputType, read_init_solution, write_pragmatic};
    let text = serde_json::to_string(config).unwrap();
    let cfg = match read_config(BufReader::new(text.as_bytes())) {
        Ok(c) => c,
        Err(e) => return SolveOutcome::Err(format!("config rejected: {e}")),
    };
    let init_text = serde_json::to_string(init_solution).unwrap();
    let p2 = problem.clone();
    let init = match guard(move || read_init_solution(BufReader::new(init_text.as_bytes()), p2, Arc::new(DefaultRandom::default()))) {
        Ok(Ok(s)) => s,
        Ok(Err(e)) => return SolveOutcome::Err(format!("init-solution: {e}")),
        Err(p) => return SolveOutcome::Err(format!("init-solution: reader panicked: {} at {}", p.message, p.location)),
    };
    match guard(move || {
        let ctx = InsertionContext::new_from_solution(problem.clone(), (init, None), Arc::new(Environment::default()));
        let solution = create_builder_from_config(problem.clone(), vec![ctx], &cfg)
            .and_then(|builder| builder.build())
            .map(|config| Solver::new(problem.clone(), config))
            .and_then(|solver| solver.solve())
            .map_err(|e| e.to_string())?;
        let mut writer = std::io::BufWriter::new(Vec::new());
        write_pragmatic(problem.as_ref(), &solution, PragmaticOutputType::default(), &mut writer).map_err(|e| e.to_string())?;
        let bytes = writer.into_inner().map_err(|e| e.to_string())?;
        String::from_utf8(bytes).map_err(|e| e.to_string())
    }) {
        Ok(Ok(s)) => SolveOutcome::Ok(s),
        Ok(Err(e)) => SolveOutcome::Err(e),
        Err(p) => SolveOutcome::Panic(p),
    }
}

/// Library path of a warm start: a first solve with `first_config` whose core `Solution` (with its detailed unassignment reasons,
/// registry and all) is handed to `InsertionContext::new_from_solution` and, as initial solution, to a second solve with `config`.
/// Returns the serialized solutions of both solves; the caller judges the first one before it trusts the second.
pub fn solve_twice_through_core_solution(problem: Arc<Problem>, first_config: &Value, config: &Value) -> (SolveOutcome, Option<SolveOutcome>) {
    use vrp_cli::extensions::solve::config::create_builder_from_config;
    use vrp_core::construction::heuristics::InsertionContext;
    use vrp_core::models::Solution;
    use vrp_core::rosomaxa::prelude::Environment;
    use vrp_core::solver::Solver;
    use vrp_pragmatic::format::solution::{PragmaticOutputType, write_pragmatic};
    fn run(problem: Arc<Problem>, config: &Value, init: Vec<InsertionContext>) -> Result<Result<(Solution, String), String>, PanicInfo> {
        let text = serde_json::to_string(config).unwrap();
        let cfg = match read_config(BufReader::new(text.as_bytes())) {
            Ok(c) => c,
            Err(e) => return Ok(Err(format!("config rejected: {e}"))),
        };
        guard(move || {
            let solution = create_builder_from_config(problem.clone(), init, &cfg)
                .and_then(|builder| builder.build())
                .map(|config| Solver::new(problem.clone(), config))
                .and_then(|solver| solver.solve())
                .map_err(|e| e.to_string())?;
            let mut writer = std::io::BufWriter::new(Vec::new());
            write_pragmatic(problem.as_ref(), &solution, PragmaticOutputType::default(), &mut writer).map_err(|e| e.to_string())?;
            let bytes = writer.into_inner().map_err(|e| e.to_string())?;
            Ok((solution, String::from_utf8(bytes).map_err(|e| e.to_string())?))
        })
    }
    let (first, first_text) = match run(problem.clone(), first_config, vec![]) {
        Ok(Ok(v)) => v,
        Ok(Err(e)) => return (SolveOutcome::Err(e), None),
        Err(p) => return (SolveOutcome::Panic(p), None),
    };
    let p2 = problem.clone();
    let ctx = match guard(move || InsertionContext::new_from_solution(p2, (first, None), Arc::new(Environment::default()))) {
        Ok(ctx) => ctx,
        Err(p) => return (SolveOutcome::Ok(first_text), Some(SolveOutcome::Panic(p))),
    };
    let second = match run(problem, config, vec![ctx]) {
        Ok(Ok((_, text))) => SolveOutcome::Ok(text),
        Ok(Err(e)) => SolveOutcome::Err(e),
        Err(p) => SolveOutcome::Panic(p),
    };
    (SolveOutcome::Ok(first_text), Some(second))
}

/// A small default config with `gens` generations.
pub fn simple_config(gens: usize, pools: usize, threads: usize) -> Value {
    json!({
        "termination": {"maxGenerations": gens},
        "environment": {"parallelism": {"numThreadPools": pools, "threadsPerPool": threads}, "logging": {"enabled": false}}
    })
}
