//! G4 + O3 of DESIGN.md.
//!
//! * **G4**: core micro-problems (one to three vehicles, a handful of jobs, tours of 0..8 activities) described by a
//!   plain, serialisable [`MicroSpec`] and materialised only through vrp-core's *public* builders
//!   (`ProblemBuilder`, `SingleBuilder`, `MultiBuilder`, `JobPlaceBuilder`, `VehicleBuilder`, `VehicleDetailBuilder`,
//!   `SimpleTransportCost`, `TransportFeatureBuilder`, `CapacityFeatureBuilder`, `MinimizeUnassignedBuilder`,
//!   `create_minimize_tours_feature`, `create_maximize_total_job_value_feature`, `GoalContextBuilder`).
//!   All numbers are small integers (stored as f64), so every sum the solver and the oracle form is exact and equality
//!   at a window end is a meaningful boundary and not a rounding accident. Routing is metric (line / Manhattan /
//!   ceil-Euclid on an integer grid), see D10.
//! * **O3**: [`simulate`], an independent forward simulation of one tour. It shares no code with vrp-core and reads
//!   nothing from vrp-core's state: it sees only the spec.

use crate::Rng;
use serde::{Deserialize, Serialize};
use std::sync::Arc;
use vrp_core::construction::features::{
    CapacityFeatureBuilder, JobReadValueFn, MinimizeUnassignedBuilder, TransportFeatureBuilder,
    create_activity_limit_feature, create_maximize_total_job_value_feature, create_maximize_tours_feature, create_minimize_tours_feature,
    create_travel_limit_feature,
};
use vrp_core::construction::heuristics::{InsertionContext, InsertionSuccess, UnassignmentInfo};
use vrp_core::models::common::{Demand, Schedule, SingleDimLoad, TimeWindow};
use vrp_core::models::problem::{
    Actor, Job, JobIdDimension, JobPlaceBuilder, MatrixData, MultiBuilder, SimpleActivityCost, Single, SingleBuilder, TransportCost, VehicleBuilder, create_matrix_transport_cost,
    VehicleDetailBuilder, VehicleIdDimension,
};
use vrp_core::models::solution::{Activity, Place as ActivityPlace};
use vrp_core::models::{Feature, GoalContextBuilder, Problem, ProblemBuilder, ViolationCode};
use vrp_core::rosomaxa::prelude::{DefaultRandom, Environment};
use vrp_core::rosomaxa::utils::Parallelism;

/// Violation code given to the transport (time) feature.
pub const CODE_TIME: i32 = 1;
/// Violation code given to the capacity feature.
pub const CODE_CAPACITY: i32 = 2;
/// Violation codes given to the tour limit features.
pub const CODE_MAX_DISTANCE: i32 = 3;
pub const CODE_MAX_DURATION: i32 = 4;
pub const CODE_TOUR_SIZE: i32 = 5;

// ---------------------------------------------------------------------------------------------
// spec (plain data, no vrp-core types)

#[derive(Clone, Copy, Debug, PartialEq, Eq, Serialize, Deserialize)]
pub enum Metric {
    /// |x1 - x2| (y is ignored)
    Line,
    Manhattan,
    /// ceil of the Euclidean distance: integer valued and still a metric
    CeilEuclid,
}

impl Metric {
    pub fn between(&self, a: (i64, i64), b: (i64, i64)) -> f64 {
        let (dx, dy) = ((a.0 - b.0).abs(), (a.1 - b.1).abs());
        match self {
            Metric::Line => dx as f64,
            Metric::Manhattan => (dx + dy) as f64,
            Metric::CeilEuclid => {
                let sq = dx * dx + dy * dy;
                let mut r = (sq as f64).sqrt().floor() as i64;
                while r * r < sq {
                    r += 1;
                }
                while r > 0 && (r - 1) * (r - 1) >= sq {
                    r -= 1;
                }
                r as f64
            }
        }
    }
}

/// Locations on an integer grid; distance and duration may use different metrics (both metric, time-independent).
#[derive(Clone, Debug, Serialize, Deserialize)]
pub struct Geo {
    pub coords: Vec<(i64, i64)>,
    pub dist: Metric,
    pub dur: Metric,
    pub dur_scale: i64,
    /// asymmetric durations ("downhill is faster"): `duration(a, b) = metric + h(b) - h(a)` with the potential
    /// `h = x / 2`; still integer, non-negative and satisfying the triangle inequality, but `d(a,b) != d(b,a)`
    #[serde(default)]
    pub tilt: bool,
}

impl Geo {
    pub fn distance(&self, a: usize, b: usize) -> f64 {
        let base = self.dist.between(self.coords[a], self.coords[b]);
        // (one-way streets: the same tilt as for durations, with the other sign)
        if self.tilt { base + (self.coords[a].0 / 2 - self.coords[b].0 / 2) as f64 } else { base }
    }

    pub fn duration(&self, a: usize, b: usize) -> f64 {
        let base = self.dur.between(self.coords[a], self.coords[b]) * self.dur_scale as f64;
        if self.tilt { base + (self.coords[b].0 / 2 - self.coords[a].0 / 2) as f64 } else { base }
    }

    pub fn size(&self) -> usize {
        self.coords.len()
    }
}

#[derive(Clone, Copy, Debug, PartialEq, Eq, Hash, Serialize, Deserialize)]
pub enum Kind {
    /// no demand at all
    None,
    /// static delivery: on board from the tour's start
    Delivery,
    /// static pickup: stays on board until the tour's end
    Pickup,
    /// dynamic pickup (first task of a pickup-delivery job)
    DynPickup,
    /// dynamic delivery (second task of a pickup-delivery job)
    DynDelivery,
    /// static delivery of `size` AND static pickup of the given amount at one activity (the pragmatic "replacement" task,
    /// or a delivery merged with a pickup): `size` is on board from the start, the pickup stays to the end
    Exchange(i32),
}

impl Kind {
    pub fn name(&self) -> &'static str {
        match self {
            Kind::None => "none",
            Kind::Delivery => "delivery",
            Kind::Pickup => "pickup",
            Kind::DynPickup => "dyn-pickup",
            Kind::DynDelivery => "dyn-delivery",
            Kind::Exchange(_) => "exchange",
        }
    }
}

/// `(start, end)`; `end = None` is an unbounded window (`f64::MAX` inside vrp-core).
pub type Win = (f64, Option<f64>);

#[derive(Clone, Debug, Serialize, Deserialize)]
pub struct PlaceSpec {
    pub loc: usize,
    pub dur: f64,
    pub windows: Vec<Win>,
}

#[derive(Clone, Debug, Serialize, Deserialize)]
pub struct TaskSpec {
    pub places: Vec<PlaceSpec>,
    pub kind: Kind,
    pub size: i32,
}

/// One task = `Single` job; two tasks = `Multi` job (pickup then delivery, fixed order).
#[derive(Clone, Debug, Serialize, Deserialize)]
pub struct JobSpec {
    pub tasks: Vec<TaskSpec>,
    pub value: f64,
}

impl JobSpec {
    pub fn is_multi(&self) -> bool {
        self.tasks.len() > 1
    }
}

/// Latest departure always equals `start_time` (`VehicleDetailBuilder::set_start_time`): no departure shift possible.
/// An open vehicle (`end_loc = None`) has no shift end in vrp-core (the actor's time end is taken from the end place).
#[derive(Clone, Debug, Serialize, Deserialize)]
pub struct VehicleSpec {
    pub start_loc: usize,
    pub start_time: f64,
    pub end_loc: Option<usize>,
    pub end_time: Option<f64>,
    pub capacity: i32,
    pub fixed: f64,
    pub per_distance: f64,
    /// one price for driving, serving and waiting time
    pub per_time: f64,
    /// tour limits (the pragmatic `limits`): total distance, total duration (end of tour - departure), job activities
    #[serde(default)]
    pub max_distance: Option<f64>,
    #[serde(default)]
    pub max_duration: Option<f64>,
    #[serde(default)]
    pub tour_size: Option<usize>,
}

impl VehicleSpec {
    pub fn has_limits(&self) -> bool {
        self.max_distance.is_some() || self.max_duration.is_some() || self.tour_size.is_some()
    }
}

/// One activity of a tour: which task of which job, served at which place within which of its windows.
#[derive(Clone, Copy, Debug, PartialEq, Eq, Serialize, Deserialize)]
pub struct Visit {
    pub job: usize,
    pub task: usize,
    pub place: usize,
    pub window: usize,
}

#[derive(Clone, Debug, Serialize, Deserialize)]
pub struct RouteSpec {
    pub vehicle: usize,
    pub visits: Vec<Visit>,
}

#[derive(Clone, Copy, Debug, PartialEq, Eq, Hash, Serialize, Deserialize)]
pub enum Layer {
    Unassigned,
    Tours,
    Distance,
    Cost,
    Value,
    /// the rarely used opposite of `Tours`: fitness = -(number of tours)
    MaxTours,
    /// second instances of three layers under other names: goals with more than six layers (one quote component each)
    Unassigned2,
    Tours2,
    Value2,
}

impl Layer {
    pub fn name(&self) -> &'static str {
        match self {
            Layer::Unassigned => "minimize-unassigned",
            Layer::Tours => "minimize-tours",
            Layer::Distance => "minimize-distance",
            Layer::Cost => "minimize-cost",
            Layer::Value => "maximize-value",
            Layer::MaxTours => "maximize-tours",
            Layer::Unassigned2 => "minimize-unassigned-2",
            Layer::Tours2 => "minimize-tours-2",
            Layer::Value2 => "maximize-value-2",
        }
    }
}

#[derive(Clone, Debug, Serialize, Deserialize)]
pub struct MicroSpec {
    pub geo: Geo,
    pub vehicles: Vec<VehicleSpec>,
    pub jobs: Vec<JobSpec>,
    /// lexicographic goal, one single-objective layer each; exactly one of `Distance` / `Cost` must be present
    /// (it carries the transport constraint and the schedule state)
    pub layers: Vec<Layer>,
    /// position of the (objective-less) capacity feature in the feature list: before or after all others
    pub capacity_first: bool,
}

/// A complete case: the problem, the tours already built and the jobs waiting for insertion.
#[derive(Clone, Debug, Serialize, Deserialize)]
pub struct Case {
    pub spec: MicroSpec,
    pub routes: Vec<RouteSpec>,
    pub candidates: Vec<usize>,
}

impl Case {
    /// The same case with only the jobs of the tours and the pending job `candidate` (indices re-numbered):
    /// the literal input written to violation artefacts.
    pub fn reduced_to(&self, candidate: usize) -> Case {
        let mut keep: Vec<usize> = self.routes.iter().flat_map(|r| r.visits.iter().map(|v| v.job)).collect();
        keep.push(candidate);
        keep.sort();
        keep.dedup();
        let renumber = |j: usize| keep.iter().position(|k| *k == j).unwrap();
        let mut spec = self.spec.clone();
        spec.jobs = keep.iter().map(|j| self.spec.jobs[*j].clone()).collect();
        let routes = self
            .routes
            .iter()
            .map(|r| RouteSpec { vehicle: r.vehicle, visits: r.visits.iter().map(|v| Visit { job: renumber(v.job), ..*v }).collect() })
            .collect();
        Case { spec, routes, candidates: vec![renumber(candidate)] }
    }
}

// ---------------------------------------------------------------------------------------------
// O3: independent forward simulation

#[derive(Clone, Debug, Serialize)]
pub struct SimStop {
    pub loc: usize,
    pub win: Win,
    pub dur: f64,
    pub kind: Kind,
    pub size: i32,
    /// links a dynamic pickup with its delivery (the job index)
    pub pair: usize,
}

#[derive(Clone, Debug, PartialEq)]
pub enum SimFail {
    /// arrival after the end of the activity's window (`by` time units)
    Late { at: usize, by: f64 },
    /// closed tour: arrival at the end location after the shift end (`by` time units)
    ShiftEnd { by: f64 },
    /// load above capacity after the activity (`at = None`: already at departure)
    Overload { at: Option<usize> },
    /// load below zero after the activity
    Underload { at: usize },
    /// dynamic delivery before (or without) its pickup
    PairOrder { at: usize },
    /// dynamic pickup whose delivery is not in the tour
    Unpaired,
    /// total distance of the tour above the vehicle's distance limit
    MaxDistance { by: f64 },
    /// duration of the tour (end - departure) above the vehicle's duration limit
    MaxDuration { by: f64 },
    /// more job activities than the vehicle's tour size limit
    TourSize { by: usize },
}

impl SimFail {
    pub fn class(&self) -> &'static str {
        match self {
            SimFail::Late { .. } => "time-window",
            SimFail::ShiftEnd { .. } => "shift-end",
            SimFail::Overload { .. } | SimFail::Underload { .. } => "capacity",
            SimFail::PairOrder { .. } | SimFail::Unpaired => "pair-order",
            SimFail::MaxDistance { .. } => "max-distance",
            SimFail::MaxDuration { .. } => "max-duration",
            SimFail::TourSize { .. } => "tour-size",
        }
    }
}

#[derive(Clone, Debug, Default)]
pub struct SimReport {
    pub arrivals: Vec<f64>,
    pub departs: Vec<f64>,
    /// load after each activity
    pub loads: Vec<i32>,
    pub start_load: i32,
    pub peak_load: i32,
    /// arrival at the end location (closed tours)
    pub end_arrival: Option<f64>,
    pub waiting: f64,
    pub distance: f64,
    /// end of tour (return for closed tours, last departure for open ones) minus departure
    pub duration: f64,
    pub service: f64,
}

/// Simulates the tour `stops` of vehicle `veh` from its departure time. Rules (all taken from the property text / docs):
/// arrival = previous departure + travel duration; service starts at max(arrival, window start); infeasible when the
/// arrival is after the window end; a closed tour must be back not later than the shift end; static deliveries are on
/// board from the start, static pickups stay to the end, a dynamic pickup adds and its delivery (later in the tour)
/// removes; the load is within [0, capacity] all the time; with tour limits: total distance, duration (end of the tour minus
/// departure) and number of job activities stay within them.
pub fn simulate(geo: &Geo, veh: &VehicleSpec, stops: &[SimStop]) -> Result<SimReport, SimFail> {
    let mut rep = SimReport::default();
    let mut load: i32 = stops.iter().filter(|s| matches!(s.kind, Kind::Delivery | Kind::Exchange(_))).map(|s| s.size).sum();
    rep.start_load = load;
    rep.peak_load = load;
    if load > veh.capacity {
        return Err(SimFail::Overload { at: None });
    }
    // amount picked up and not yet delivered, per multi job (a job may have several pickups or several deliveries)
    let mut open_pairs: std::collections::BTreeMap<usize, i32> = Default::default();
    let (mut loc, mut time) = (veh.start_loc, veh.start_time);
    for (at, stop) in stops.iter().enumerate() {
        let arrival = time + geo.duration(loc, stop.loc);
        if let Some(end) = stop.win.1.filter(|end| arrival > *end) {
            return Err(SimFail::Late { at, by: arrival - end });
        }
        let start = if arrival < stop.win.0 { stop.win.0 } else { arrival };
        rep.waiting += start - arrival;
        rep.service += stop.dur;
        rep.distance += geo.distance(loc, stop.loc);
        match stop.kind {
            Kind::None => {}
            Kind::Delivery => load -= stop.size,
            Kind::Pickup => load += stop.size,
            Kind::Exchange(pickup) => load += pickup - stop.size,
            Kind::DynPickup => {
                load += stop.size;
                *open_pairs.entry(stop.pair).or_default() += stop.size;
            }
            Kind::DynDelivery => {
                match open_pairs.get_mut(&stop.pair) {
                    Some(open) if *open >= stop.size => *open -= stop.size,
                    _ => return Err(SimFail::PairOrder { at }),
                };
                open_pairs.retain(|_, open| *open != 0);
                load -= stop.size;
            }
        }
        if load > veh.capacity {
            return Err(SimFail::Overload { at: Some(at) });
        }
        if load < 0 {
            return Err(SimFail::Underload { at });
        }
        rep.peak_load = rep.peak_load.max(load);
        time = start + stop.dur;
        loc = stop.loc;
        rep.arrivals.push(arrival);
        rep.departs.push(time);
        rep.loads.push(load);
    }
    if !open_pairs.is_empty() {
        return Err(SimFail::Unpaired);
    }
    if let Some(end_loc) = veh.end_loc {
        let arrival = time + geo.duration(loc, end_loc);
        if let Some(end) = veh.end_time.filter(|end| arrival > *end) {
            return Err(SimFail::ShiftEnd { by: arrival - end });
        }
        rep.distance += geo.distance(loc, end_loc);
        rep.end_arrival = Some(arrival);
        time = arrival;
    }
    rep.duration = time - veh.start_time;
    if let Some(limit) = veh.tour_size.filter(|limit| stops.len() > *limit) {
        return Err(SimFail::TourSize { by: stops.len() - limit });
    }
    if let Some(limit) = veh.max_distance.filter(|limit| rep.distance > *limit) {
        return Err(SimFail::MaxDistance { by: rep.distance - limit });
    }
    if let Some(limit) = veh.max_duration.filter(|limit| rep.duration > *limit) {
        return Err(SimFail::MaxDuration { by: rep.duration - limit });
    }
    Ok(rep)
}

impl MicroSpec {
    pub fn stop(&self, v: &Visit) -> SimStop {
        let task = &self.jobs[v.job].tasks[v.task];
        let place = &task.places[v.place];
        SimStop { loc: place.loc, win: place.windows[v.window], dur: place.dur, kind: task.kind, size: task.size, pair: v.job }
    }

    pub fn stops(&self, visits: &[Visit]) -> Vec<SimStop> {
        visits.iter().map(|v| self.stop(v)).collect()
    }

    pub fn simulate(&self, route: &RouteSpec) -> Result<SimReport, SimFail> {
        simulate(&self.geo, &self.vehicles[route.vehicle], &self.stops(&route.visits))
    }

    /// All `(position, place, window)` at which the single-task job `job` can be inserted into `route` according to O3.
    pub fn feasible_single_insertions(&self, route: &RouteSpec, job: usize) -> Vec<(usize, usize, usize)> {
        let mut found = Vec::new();
        let task = &self.jobs[job].tasks[0];
        for pos in 0..=route.visits.len() {
            for (place, p) in task.places.iter().enumerate() {
                for window in 0..p.windows.len() {
                    let mut visits = route.visits.clone();
                    visits.insert(pos, Visit { job, task: 0, place, window });
                    if simulate(&self.geo, &self.vehicles[route.vehicle], &self.stops(&visits)).is_ok() {
                        found.push((pos, place, window));
                    }
                }
            }
        }
        found
    }
}

// ---------------------------------------------------------------------------------------------
// G4: materialisation through the public builders

struct JobValueKey;

fn win_to_tw(w: &Win) -> TimeWindow {
    TimeWindow::new(w.0, w.1.unwrap_or(f64::MAX))
}

pub struct Micro {
    pub spec: MicroSpec,
    pub problem: Arc<Problem>,
    pub jobs: Vec<Job>,
    /// per job, its `Single`s in task order (as referenced by tour activities)
    pub singles: Vec<Vec<Arc<Single>>>,
    /// actors in vehicle order
    pub actors: Vec<Arc<Actor>>,
}

fn err<E: std::fmt::Display>(e: E) -> String {
    e.to_string()
}

fn build_single(idx: usize, task_idx: Option<usize>, task: &TaskSpec, value: Option<f64>) -> Result<Single, String> {
    let mut b = SingleBuilder::default();
    b = match task_idx {
        None => b.id(&format!("j{idx}")),
        Some(t) => b.id(&format!("j{idx}t{t}")),
    };
    for place in task.places.iter() {
        let p = JobPlaceBuilder::default()
            .location(Some(place.loc))
            .duration(place.dur)
            .times(place.windows.iter().map(win_to_tw).collect())
            .build()
            .map_err(err)?;
        b = b.add_place(p);
    }
    b = match task.kind {
        Kind::None => b,
        Kind::Delivery => b.demand(Demand::delivery(task.size)),
        Kind::Pickup => b.demand(Demand::pickup(task.size)),
        Kind::DynPickup => b.demand(Demand::pudo_pickup(task.size)),
        Kind::DynDelivery => b.demand(Demand::pudo_delivery(task.size)),
        Kind::Exchange(pickup) => b.demand(Demand { pickup: Demand::pickup(pickup).pickup, delivery: Demand::delivery(task.size).delivery }),
    };
    if let Some(value) = value {
        b = b.dimension(|d| d.set_value::<JobValueKey, f64>(value));
    }
    b.build().map_err(err)
}

/// Weight of an unassigned job under `Layer::Unassigned2` (by the job's index in the spec).
pub fn unassigned_weight(job_idx: usize) -> f64 {
    [0.5, 1.0, 2.0][job_idx % 3]
}

fn build_goal(spec: &MicroSpec, transport: Arc<dyn TransportCost>) -> Result<vrp_core::models::GoalContext, String> {
    let transports = spec.layers.iter().filter(|l| matches!(l, Layer::Distance | Layer::Cost)).count();
    if transports != 1 {
        return Err("exactly one of the layers Distance / Cost is required".into());
    }
    let capacity = CapacityFeatureBuilder::<SingleDimLoad>::new("capacity")
        .set_violation_code(ViolationCode(CODE_CAPACITY))
        .build()
        .map_err(err)?;
    let mut features: Vec<Feature> = Vec::new();
    if spec.capacity_first {
        features.push(capacity.clone());
    }
    for layer in spec.layers.iter() {
        let tfb = || {
            TransportFeatureBuilder::new(layer.name())
                .set_violation_code(ViolationCode(CODE_TIME))
                .set_transport_cost(transport.clone())
        };
        let feature = match layer {
            Layer::Unassigned => MinimizeUnassignedBuilder::new(layer.name()).build(),
            // the second instance weighs jobs differently (as the pragmatic `breaks` weight does): 0.5, 1 or 2 by job index
            Layer::Unassigned2 => MinimizeUnassignedBuilder::new(layer.name())
                .set_job_estimator(|_, job| {
                    let id = job.dimens().get_job_id().cloned().unwrap_or_default();
                    unassigned_weight(id.trim_start_matches('j').parse::<usize>().unwrap_or(0))
                })
                .build(),
            Layer::Tours | Layer::Tours2 => create_minimize_tours_feature(layer.name()),
            Layer::MaxTours => create_maximize_tours_feature(layer.name()),
            Layer::Distance => tfb().build_minimize_distance(),
            Layer::Cost => tfb().build_minimize_cost(),
            Layer::Value | Layer::Value2 => create_maximize_total_job_value_feature(
                layer.name(),
                JobReadValueFn::Left(Arc::new(|job: &Job| job.dimens().get_value::<JobValueKey, f64>().copied().unwrap_or(0.))),
                Arc::new(|job, _| job),
                ViolationCode(9),
            ),
        }
        .map_err(err)?;
        features.push(feature);
    }
    if !spec.capacity_first {
        features.push(capacity);
    }
    // tour limits of the vehicles (hard constraints without an objective), as the pragmatic reader sets them up
    let index_of = |actor: &Actor| actor.vehicle.dimens.get_vehicle_id().and_then(|id| id[1..].parse::<usize>().ok());
    if spec.vehicles.iter().any(|v| v.max_distance.is_some() || v.max_duration.is_some()) {
        let distances: Vec<Option<f64>> = spec.vehicles.iter().map(|v| v.max_distance).collect();
        let durations: Vec<Option<f64>> = spec.vehicles.iter().map(|v| v.max_duration).collect();
        features.push(
            create_travel_limit_feature(
                "tour_limits",
                transport.clone(),
                Arc::new(SimpleActivityCost::default()),
                ViolationCode(CODE_MAX_DISTANCE),
                ViolationCode(CODE_MAX_DURATION),
                Arc::new(move |actor: &Actor| index_of(actor).and_then(|idx| distances.get(idx).copied().flatten())),
                Arc::new(move |actor: &Actor| index_of(actor).and_then(|idx| durations.get(idx).copied().flatten())),
            )
            .map_err(err)?,
        );
    }
    if spec.vehicles.iter().any(|v| v.tour_size.is_some()) {
        let sizes: Vec<Option<usize>> = spec.vehicles.iter().map(|v| v.tour_size).collect();
        features.push(
            create_activity_limit_feature(
                "tour_size",
                ViolationCode(CODE_TOUR_SIZE),
                Arc::new(move |actor: &Actor| index_of(actor).and_then(|idx| sizes.get(idx).copied().flatten())),
            )
            .map_err(err)?,
        );
    }
    GoalContextBuilder::with_features(&features).map_err(err)?.build().map_err(err)
}

impl Micro {
    pub fn build(spec: &MicroSpec) -> Result<Micro, String> {
        let n = spec.geo.size();
        let mut durations = Vec::with_capacity(n * n);
        let mut distances = Vec::with_capacity(n * n);
        for a in 0..n {
            for b in 0..n {
                durations.push(spec.geo.duration(a, b));
                distances.push(spec.geo.distance(a, b));
            }
        }
        // the real matrix provider (what the formats use), not the test helper `SimpleTransportCost`
        let transport = create_matrix_transport_cost(vec![MatrixData::new(0, None, durations, distances)]).map_err(err)?;
        let goal = build_goal(spec, transport.clone())?;

        let mut jobs = Vec::new();
        let mut singles = Vec::new();
        for (idx, job) in spec.jobs.iter().enumerate() {
            if job.tasks.len() == 1 {
                let single = Arc::new(build_single(idx, None, &job.tasks[0], Some(job.value))?);
                singles.push(vec![single.clone()]);
                jobs.push(Job::Single(single));
            } else {
                let mut mb = MultiBuilder::default().id(&format!("j{idx}"));
                for (t, task) in job.tasks.iter().enumerate() {
                    mb = mb.add_job(build_single(idx, Some(t), task, None)?);
                }
                let value = job.value;
                let multi = mb.dimension(|d| d.set_value::<JobValueKey, f64>(value)).build().map_err(err)?;
                singles.push(multi.jobs.clone());
                jobs.push(Job::Multi(multi));
            }
        }

        let mut vehicles = Vec::new();
        for (idx, v) in spec.vehicles.iter().enumerate() {
            let mut detail = VehicleDetailBuilder::default().set_start_location(v.start_loc).set_start_time(v.start_time);
            if let Some(end_loc) = v.end_loc {
                detail = detail.set_end_location(end_loc);
                if let Some(end_time) = v.end_time {
                    detail = detail.set_end_time(end_time);
                }
            }
            let mut vehicle = VehicleBuilder::default()
                .id(&format!("v{idx}"))
                .add_detail(detail.build().map_err(err)?)
                .capacity(SingleDimLoad::new(v.capacity))
                .set_distance_cost(v.per_distance)
                .set_duration_cost(v.per_time)
                .build()
                .map_err(err)?;
            // the builder has no setter for the fixed cost; the field is public
            vehicle.costs.fixed = v.fixed;
            vehicles.push(vehicle);
        }

        let vehicle_index = |actor: &Actor| -> usize {
            actor.vehicle.dimens.get_vehicle_id().and_then(|id| id[1..].parse::<usize>().ok()).unwrap_or(usize::MAX)
        };
        let problem = ProblemBuilder::default()
            .add_jobs(jobs.iter().cloned())
            .add_vehicles(vehicles.into_iter())
            // every vehicle is its own group: `Registry::next` then never draws a random actor
            .with_vehicle_similarity(move |_| Box::new(vehicle_index))
            .with_goal(goal)
            .with_transport_cost(transport)
            .with_logger(Arc::new(|_| {}))
            .build()
            .map_err(err)?;

        let mut actors = Vec::new();
        for idx in 0..spec.vehicles.len() {
            let actor = problem
                .fleet
                .actors
                .iter()
                .find(|a| vehicle_index(a) == idx)
                .cloned()
                .ok_or_else(|| format!("no actor for vehicle {idx}"))?;
            actors.push(actor);
        }

        Ok(Micro { spec: spec.clone(), problem: Arc::new(problem), jobs, singles, actors })
    }

    /// One shared, silent environment (creating one costs a look-up of the available CPUs).
    pub fn environment() -> Arc<Environment> {
        static ENV: std::sync::OnceLock<Arc<Environment>> = std::sync::OnceLock::new();
        ENV.get_or_init(|| {
            Arc::new(Environment::new(Arc::new(DefaultRandom::default()), None, Parallelism::default(), Arc::new(|_| {}), false))
        })
        .clone()
    }

    pub fn activity(&self, v: &Visit) -> Activity {
        let place = &self.spec.jobs[v.job].tasks[v.task].places[v.place];
        Activity {
            place: ActivityPlace { idx: v.place, location: place.loc, duration: place.dur, time: win_to_tw(&place.windows[v.window]) },
            schedule: Schedule { arrival: 0., departure: 0. },
            job: Some(self.singles[v.job][v.task].clone()),
            commute: None,
        }
    }

    /// Builds the state under evaluation with the real machinery: a route context per tour taken from the registry,
    /// activities appended with `Tour::insert_last`, then `accept_route_state` + `accept_solution_state`.
    /// `required` jobs wait for insertion; `unassigned` jobs are listed with `UnassignmentInfo::Unknown` (finalised state).
    pub fn state(&self, env: Arc<Environment>, routes: &[RouteSpec], required: &[usize], unassigned: &[usize]) -> Result<InsertionContext, String> {
        let mut ctx = InsertionContext::new_empty(self.problem.clone(), env);
        for route in routes {
            let actor = &self.actors[route.vehicle];
            let mut route_ctx = ctx.solution.registry.get_route(actor).ok_or("vehicle used twice")?;
            for v in route.visits.iter() {
                route_ctx.route_mut().tour.insert_last(self.activity(v));
            }
            self.problem.goal.accept_route_state(&mut route_ctx);
            ctx.solution.routes.push(route_ctx);
        }
        ctx.solution.required.extend(required.iter().map(|j| self.jobs[*j].clone()));
        ctx.solution.unassigned.extend(unassigned.iter().map(|j| (self.jobs[*j].clone(), UnassignmentInfo::Unknown)));
        self.problem.goal.accept_solution_state(&mut ctx.solution);
        Ok(ctx)
    }

    /// Translates the activities of an `InsertionSuccess` for job `job` back to spec terms and inserts them into
    /// `visits` exactly as `apply_insertion_success` does (`tour.insert_at(activity, index + 1)` one after the other;
    /// tour index = visit index + 1 because of the start activity). Returns the new visit list and the visit positions
    /// used, or a description of what is structurally wrong with the result.
    pub fn apply_success(&self, visits: &[Visit], job: usize, success: &InsertionSuccess) -> Result<(Vec<Visit>, Vec<usize>), String> {
        if success.job != self.jobs[job] {
            return Err("success carries another job".into());
        }
        let tasks = &self.spec.jobs[job].tasks;
        if success.activities.len() != tasks.len() {
            return Err(format!("{} activities for a job with {} tasks", success.activities.len(), tasks.len()));
        }
        let mut seen = vec![false; tasks.len()];
        let mut visits = visits.to_vec();
        let mut positions = Vec::new();
        for (activity, index) in success.activities.iter() {
            let single = activity.job.as_ref().ok_or("activity without job")?;
            let task = self.singles[job].iter().position(|s| Arc::ptr_eq(s, single)).ok_or("activity of a foreign job")?;
            if std::mem::replace(&mut seen[task], true) {
                return Err(format!("task {task} returned twice"));
            }
            let place_idx = activity.place.idx;
            let place = tasks[task].places.get(place_idx).ok_or_else(|| format!("place index {place_idx} out of range"))?;
            if activity.place.location != place.loc || activity.place.duration != place.dur {
                return Err(format!(
                    "place {place_idx}: location/duration {}/{} differ from the job's {}/{}",
                    activity.place.location, activity.place.duration, place.loc, place.dur
                ));
            }
            let window = place
                .windows
                .iter()
                .position(|w| {
                    let tw = win_to_tw(w);
                    tw.start == activity.place.time.start && tw.end == activity.place.time.end
                })
                .ok_or_else(|| {
                    format!("window [{}, {}] is none of the place's windows", activity.place.time.start, activity.place.time.end)
                })?;
            if *index > visits.len() {
                return Err(format!("insertion index {index} beyond the tour ({} activities)", visits.len()));
            }
            visits.insert(*index, Visit { job, task, place: place_idx, window });
            positions.push(*index);
        }
        Ok((visits, positions))
    }
}

// ---------------------------------------------------------------------------------------------
// G4: seeded random cases

#[derive(Clone, Debug)]
pub struct GenCfg {
    /// maximal number of activities per generated tour
    pub max_activities: usize,
    /// number of tours with jobs (1 or 2)
    pub routes: usize,
    /// add one more vehicle that stays unused (target of new-route insertions)
    pub spare_vehicle: bool,
    pub candidates: usize,
    /// share of pickup-delivery (multi) candidates
    pub multi_share: f64,
    /// share of the multi candidates which have three tasks (two pickups + one delivery of the sum, or one pickup + two deliveries)
    pub triple_share: f64,
    pub layers: Vec<Layer>,
    /// random prices / fixed costs / job values (otherwise distance price 1, everything else 0)
    pub priced: bool,
    /// share of the tours whose vehicle gets tour limits (distance / duration / size) just above what the tour uses
    pub p_limits: f64,
}

fn gen_geo(rng: &mut Rng) -> Geo {
    let kind = rng.below(3);
    let n = rng.range_usize(3, 7);
    let (dist, span) = match kind {
        0 => (Metric::Line, 6),
        1 => (Metric::Manhattan, 3),
        _ => (Metric::CeilEuclid, 4),
    };
    let coords = (0..n).map(|_| (rng.range_i64(0, span), if dist == Metric::Line { 0 } else { rng.range_i64(0, span) })).collect();
    let dur = if dist != Metric::Line && rng.chance(0.3) {
        if dist == Metric::Manhattan { Metric::CeilEuclid } else { Metric::Manhattan }
    } else {
        dist
    };
    Geo { coords, dist, dur, dur_scale: *rng.pick(&[1, 1, 1, 2, 3]), tilt: rng.chance(0.4) }
}

fn gen_vehicle(rng: &mut Rng, geo: &Geo, priced: bool) -> VehicleSpec {
    let start_loc = rng.usize_below(geo.size());
    let end_loc = if rng.chance(0.65) { Some(if rng.chance(0.7) { start_loc } else { rng.usize_below(geo.size()) }) } else { None };
    VehicleSpec {
        start_loc,
        start_time: *rng.pick(&[0., 0., 0., 3., 10.]),
        end_loc,
        end_time: None,
        capacity: 1000,
        fixed: if priced { *rng.pick(&[0., 5., 17., 100.]) } else { 0. },
        per_distance: if priced { *rng.pick(&[1., 1., 2., 3., 0.]) } else { 1. },
        per_time: if priced { *rng.pick(&[0., 1., 2., 0.5]) } else { 0. },
        max_distance: None,
        max_duration: None,
        tour_size: None,
    }
}

fn gen_decoy_window(rng: &mut Rng, around: f64) -> Win {
    let start = (around + rng.range_i64(-8, 12) as f64).max(0.);
    (start, Some(start + rng.range_i64(0, 5) as f64))
}

/// Adds decoy windows / places around the chosen `(place, window)`; returns the indices the chosen ones got.
fn add_decoys(rng: &mut Rng, geo: &Geo, task: &mut TaskSpec, around: f64, p_window: f64, p_place: f64) -> (usize, usize) {
    let mut window = 0;
    if rng.chance(p_window) {
        let decoy = gen_decoy_window(rng, around);
        if rng.chance(0.5) {
            task.places[0].windows.insert(0, decoy);
            window = 1;
        } else {
            task.places[0].windows.push(decoy);
        }
    }
    let mut place = 0;
    if rng.chance(p_place) {
        let windows = if rng.chance(0.5) { vec![(0., None)] } else { vec![gen_decoy_window(rng, around)] };
        let decoy = PlaceSpec { loc: rng.usize_below(geo.size()), dur: *rng.pick(&[0., 1., 2., 4.]), windows };
        if rng.chance(0.5) {
            task.places.insert(0, decoy);
            place = 1;
        } else {
            task.places.push(decoy);
        }
    }
    (place, window)
}

/// Generates one tour of `n` activities for `vehicle`, feasible by construction: windows are placed around the
/// arrival times of a running forward pass (tight ends, waiting, free), the capacity is set to the peak load plus a
/// small margin and the shift end to the return time plus a small margin. Jobs are appended to `jobs`.
pub fn gen_route(rng: &mut Rng, geo: &Geo, vehicles: &mut [VehicleSpec], vehicle: usize, jobs: &mut Vec<JobSpec>, n: usize, priced: bool) -> RouteSpec {
    // which slots form pickup-delivery pairs
    let mut slot_pair: Vec<Option<(usize, bool)>> = vec![None; n]; // (pair id, is pickup)
    let mut free: Vec<usize> = (0..n).collect();
    let mut pairs = 0;
    while free.len() >= 2 && rng.chance(0.35) && pairs < 3 {
        let a = free.remove(rng.usize_below(free.len()));
        let b = free.remove(rng.usize_below(free.len()));
        let (first, second) = if a < b { (a, b) } else { (b, a) };
        slot_pair[first] = Some((pairs, true));
        slot_pair[second] = Some((pairs, false));
        pairs += 1;
    }
    let value = |rng: &mut Rng| if priced { *rng.pick(&[0., 1., 3., 10.]) } else { 0. };
    let mut pair_job: Vec<Option<usize>> = vec![None; pairs];
    let mut pair_size: Vec<i32> = (0..pairs).map(|_| rng.range_i64(1, 3) as i32).collect();
    pair_size.push(0);

    let veh = vehicles[vehicle].clone();
    let (mut loc, mut time) = (veh.start_loc, veh.start_time);
    let mut visits = Vec::new();
    for slot in 0..n {
        let at = rng.usize_below(geo.size());
        let dur = *rng.pick(&[0., 0., 1., 2., 5.]);
        let arrival = time + geo.duration(loc, at);
        let win: Win = match rng.below(10) {
            0..=2 => (0., None),
            3..=5 => ((arrival - rng.range_i64(0, 6) as f64).max(0.), Some(arrival + *rng.pick(&[0., 0., 1., 2., 5.]))),
            6..=7 => {
                let start = arrival + *rng.pick(&[1., 2., 4.]);
                (start, Some(start + *rng.pick(&[0., 1., 3.])))
            }
            8 => (0., Some(arrival + 20.)),
            _ => (arrival, Some(arrival)),
        };
        let (kind, size) = match slot_pair[slot] {
            Some((pair, true)) => (Kind::DynPickup, pair_size[pair]),
            Some((pair, false)) => (Kind::DynDelivery, pair_size[pair]),
            None => match rng.below(6) {
                0 => (Kind::None, 0),
                1 | 2 => (Kind::Delivery, rng.range_i64(1, 3) as i32),
                3 | 4 => (Kind::Pickup, rng.range_i64(1, 3) as i32),
                _ => (Kind::Exchange(rng.range_i64(1, 3) as i32), rng.range_i64(1, 3) as i32),
            },
        };
        let mut task = TaskSpec { places: vec![PlaceSpec { loc: at, dur, windows: vec![win] }], kind, size };
        let (place, window) = add_decoys(rng, geo, &mut task, arrival, 0.2, 0.12);
        let (job, task_idx) = match slot_pair[slot] {
            Some((pair, true)) => {
                jobs.push(JobSpec { tasks: vec![task], value: value(rng) });
                pair_job[pair] = Some(jobs.len() - 1);
                (jobs.len() - 1, 0)
            }
            Some((pair, false)) => {
                let job = pair_job[pair].expect("pickup slot comes first");
                jobs[job].tasks.push(task);
                (job, 1)
            }
            None => {
                jobs.push(JobSpec { tasks: vec![task], value: value(rng) });
                (jobs.len() - 1, 0)
            }
        };
        visits.push(Visit { job, task: task_idx, place, window });
        time = arrival.max(win.0) + dur;
        loc = at;
    }
    // capacity: peak + margin, shift end: return + margin (only loosened when a second tour shares the numbers)
    let spec_view = MicroSpec { geo: geo.clone(), vehicles: vehicles.to_vec(), jobs: jobs.clone(), layers: vec![], capacity_first: false };
    let stops = spec_view.stops(&visits);
    let mut big = veh.clone();
    big.capacity = i32::MAX / 4;
    big.end_time = None;
    if let Ok(rep) = simulate(geo, &big, &stops) {
        vehicles[vehicle].capacity = rep.peak_load + *rng.pick(&[0, 0, 1, 1, 2, 3, 6]);
        if vehicles[vehicle].capacity == 0 {
            vehicles[vehicle].capacity = 1;
        }
        if let Some(back) = rep.end_arrival {
            vehicles[vehicle].end_time = if rng.chance(0.75) { Some(back + *rng.pick(&[0., 0., 1., 2., 3., 5., 10., 30.])) } else { None };
        }
    }
    RouteSpec { vehicle, visits }
}

/// Generates a job to be inserted into `route`: its windows / duration / size are placed around the values that are
/// critical for one randomly chosen target position (arrival there, remaining capacity), so that the evaluator is
/// exercised near its boundaries and not only far inside or far outside the feasible region.
pub fn gen_candidate(rng: &mut Rng, spec: &MicroSpec, route: &RouteSpec, multi: bool, priced: bool) -> JobSpec {
    gen_candidate_ext(rng, spec, route, multi, priced, false)
}

/// `triple`: a multi candidate gets a third task (second pickup in front, or second delivery at the end).
pub fn gen_candidate_ext(rng: &mut Rng, spec: &MicroSpec, route: &RouteSpec, multi: bool, priced: bool, triple: bool) -> JobSpec {
    let geo = &spec.geo;
    let veh = &spec.vehicles[route.vehicle];
    let base = spec.simulate(route).ok();
    let n = route.visits.len();
    let at_position = |pos: usize, loc: usize| -> f64 {
        let (from, dep) = if pos == 0 {
            (veh.start_loc, veh.start_time)
        } else {
            let stop = spec.stop(&route.visits[pos - 1]);
            (stop.loc, base.as_ref().map(|b| b.departs[pos - 1]).unwrap_or(veh.start_time))
        };
        dep + geo.duration(from, loc)
    };
    let free_capacity = base.as_ref().map(|b| veh.capacity - b.peak_load).unwrap_or(1);
    let around_size = |rng: &mut Rng| -> i32 { (free_capacity + rng.range_i64(-1, 1) as i32).clamp(1, 4) };
    let gen_window = |rng: &mut Rng, arrival: f64| -> Win {
        match rng.below(10) {
            0 | 1 => (0., None),
            2..=6 => {
                let end = arrival + *rng.pick(&[-1., 0., 0., 1., 3.]);
                let start = (end - rng.range_i64(0, 6) as f64).max(0.);
                (start, Some(end.max(start)))
            }
            7 | 8 => {
                let start = arrival + *rng.pick(&[1., 2., 3.]);
                (start, Some(start + *rng.pick(&[0., 1., 4.])))
            }
            _ => (0., Some(arrival + 15.)),
        }
    };
    let value = if priced { *rng.pick(&[0., 1., 2., 7., 25.]) } else { 0. };
    let pos = rng.usize_below(n + 1);
    if !multi {
        let loc = rng.usize_below(geo.size());
        let arrival = at_position(pos, loc);
        let (kind, size) = match rng.below(6) {
            0 => (Kind::None, 0),
            1 | 2 => (Kind::Delivery, around_size(rng)),
            3 | 4 => (Kind::Pickup, around_size(rng)),
            // equal amounts (a replacement: net change zero) or unequal ones
            _ => {
                let size = around_size(rng);
                (Kind::Exchange(if rng.chance(0.5) { size } else { around_size(rng) }), size)
            }
        };
        let mut task = TaskSpec { places: vec![PlaceSpec { loc, dur: *rng.pick(&[0., 0., 1., 2., 3., 6.]), windows: vec![gen_window(rng, arrival)] }], kind, size };
        add_decoys(rng, geo, &mut task, arrival, 0.3, 0.25);
        JobSpec { tasks: vec![task], value }
    } else {
        let size = around_size(rng);
        let pickup_loc = rng.usize_below(geo.size());
        let arrival = at_position(pos, pickup_loc);
        let pickup_win = gen_window(rng, arrival);
        let pickup_dur = *rng.pick(&[0., 0., 1., 2., 4.]);
        let delivery_loc = rng.usize_below(geo.size());
        let later = arrival.max(pickup_win.0) + pickup_dur + geo.duration(pickup_loc, delivery_loc) + rng.range_i64(0, 8) as f64;
        let mut pickup = TaskSpec { places: vec![PlaceSpec { loc: pickup_loc, dur: pickup_dur, windows: vec![pickup_win] }], kind: Kind::DynPickup, size };
        let mut delivery = TaskSpec {
            places: vec![PlaceSpec { loc: delivery_loc, dur: *rng.pick(&[0., 0., 1., 2., 4.]), windows: vec![gen_window(rng, later)] }],
            kind: Kind::DynDelivery,
            size,
        };
        add_decoys(rng, geo, &mut pickup, arrival, 0.2, 0.15);
        add_decoys(rng, geo, &mut delivery, later, 0.2, 0.15);
        if triple {
            // the tasks keep their order (fixed permutation): pickup, pickup, delivery of both amounts / pickup of both amounts, delivery, delivery
            let extra = around_size(rng);
            let loc = rng.usize_below(geo.size());
            if rng.chance(0.5) {
                let mid = arrival.max(pickup_win.0) + pickup_dur + geo.duration(pickup_loc, loc) + rng.range_i64(0, 4) as f64;
                let second = TaskSpec { places: vec![PlaceSpec { loc, dur: *rng.pick(&[0., 1., 2., 4.]), windows: vec![gen_window(rng, mid)] }], kind: Kind::DynPickup, size: extra };
                delivery.size = size + extra;
                return JobSpec { tasks: vec![pickup, second, delivery], value };
            } else {
                let end = later + geo.duration(delivery_loc, loc) + rng.range_i64(0, 6) as f64;
                let second = TaskSpec { places: vec![PlaceSpec { loc, dur: *rng.pick(&[0., 1., 2., 4.]), windows: vec![gen_window(rng, end)] }], kind: Kind::DynDelivery, size: extra };
                pickup.size = size + extra;
                return JobSpec { tasks: vec![pickup, delivery, second], value };
            }
        }
        JobSpec { tasks: vec![pickup, delivery], value }
    }
}

/// A random case: `cfg.routes` tours (feasible by construction), optionally one unused vehicle and `cfg.candidates`
/// pending jobs aimed at the first tours in turn.
pub fn gen_case(rng: &mut Rng, cfg: &GenCfg) -> Case {
    let geo = gen_geo(rng);
    let mut vehicles: Vec<VehicleSpec> = (0..cfg.routes + cfg.spare_vehicle as usize).map(|_| gen_vehicle(rng, &geo, cfg.priced)).collect();
    let mut jobs = Vec::new();
    let mut routes = Vec::new();
    for vehicle in 0..cfg.routes {
        // size classes: mostly small (every position matters), sometimes up to the maximum
        let n = if rng.chance(0.6) { rng.range_usize(0, cfg.max_activities.min(4)) } else { rng.range_usize(0, cfg.max_activities) };
        let route = gen_route(rng, &geo, &mut vehicles, vehicle, &mut jobs, n, cfg.priced);
        if cfg.p_limits > 0. && rng.chance(cfg.p_limits) {
            // limits = what the tour uses + a small margin; mostly two or three limits together (a check of one of them must
            // not stand in for another), sometimes one alone
            let view = MicroSpec { geo: geo.clone(), vehicles: vehicles.clone(), jobs: jobs.clone(), layers: vec![], capacity_first: false };
            if let Ok(rep) = view.simulate(&route) {
                let margin = |rng: &mut Rng| *rng.pick(&[0., 0., 1., 2., 3., 5., 10., 30.]);
                let which = rng.below(8);
                let v = &mut vehicles[vehicle];
                if which != 1 && which != 2 {
                    v.max_distance = Some(rep.distance + margin(rng));
                }
                if which != 0 && which != 2 {
                    v.max_duration = Some(rep.duration + margin(rng));
                }
                if which == 2 || which >= 5 {
                    v.tour_size = Some(route.visits.len() + rng.usize_below(3));
                }
            }
        }
        routes.push(route);
    }
    if cfg.spare_vehicle {
        let last = vehicles.len() - 1;
        vehicles[last].capacity = rng.range_i64(1, 6) as i32;
        if vehicles[last].end_loc.is_some() && rng.chance(0.6) {
            vehicles[last].end_time = Some(vehicles[last].start_time + rng.range_i64(4, 40) as f64);
        }
    }
    let mut spec = MicroSpec { geo, vehicles, jobs, layers: cfg.layers.clone(), capacity_first: rng.chance(0.5) };
    let mut candidates = Vec::new();
    for c in 0..cfg.candidates {
        let route = &routes[c % routes.len()];
        let multi = rng.chance(cfg.multi_share);
        let triple = multi && cfg.triple_share > 0. && rng.chance(cfg.triple_share);
        let job = gen_candidate_ext(rng, &spec, route, multi, cfg.priced, triple);
        spec.jobs.push(job);
        candidates.push(spec.jobs.len() - 1);
    }
    Case { spec, routes, candidates }
}
