//! C09 – solution and insertion-cost comparisons obey order laws.
//!
//! Part 1: `InsertionCost` (Ord / PartialOrd / Eq / Add / Sub / Index / iter / FromIterator) on exhaustive and
//!         random pools of vectors of length 0..=9.
//! Part 2: `rosomaxa::evolution::objectives::dominance_order` on hand-made fitness vectors (reflexive, antisymmetric).
//! Part 3: `GoalContext::total_order` on pools of harvested `InsertionContext` solutions for generated pragmatic
//!         (and a few Solomon) problems × generated objective lists (+ the alternative goals).
//!
//! Oracles are written from the property text: order laws, an own lexicographic comparison in which a missing
//! trailing component counts as zero and `+0 == -0`, own element-wise add/sub, own lexicographic comparison of
//! the reported fitness vectors.

use serde_json::{Value, json};
use std::cmp::Ordering;
use std::collections::HashSet;
use std::sync::Arc;
use std::sync::atomic::{AtomicI32, AtomicU64, AtomicUsize, Ordering as AtomicOrdering};
use vrp_core::construction::heuristics::{InsertionContext, InsertionCost, MoveContext, UnassignmentInfo};
use vrp_core::models::{FeatureBuilder, FeatureObjective, GoalBuilder, GoalContext, GoalContextBuilder, Problem};
use vrp_core::rosomaxa::evolution::objectives::dominance_order;
use vrp_core::rosomaxa::population::Alternative;
use vrp_core::rosomaxa::prelude::*;
use vrp_core::solver::search::*;
use vrp_core::solver::{GreedyPopulation, RefinementContext};
use vrp_pragmatic::format::problem::PragmaticProblem;
use vrp_scientific::solomon::SolomonProblem;
use vverif::{Rng, Run, clip, mix, par_for};

const RULE: &str = "insertion-cost: exhaustive pools (alphabet {+0,-0,1,-1,2,1e-300,5e-324,1e300}, lengths 0..=3; common prefix of \
4..=8 ones + tails over {+0,-0,1,-1,2} up to length 9) and seeded random pools (16..28 vectors, lengths 0..=9, alphabet + exactly \
addable grid values, derived members sharing prefixes / padded with zeros); a pool is non-trivial when it holds >= 3 pairwise \
non-Equal vectors, at least two different lengths and one vector longer than the inline capacity 6; distinct = distinct pool contents. \
dominance_order: all pairs of vectors over {-1,-0,+0,1,2} with 0..=3 objectives + seeded random pairs. \
goal: seeded pragmatic problem (5..25 jobs, deliveries/pickups/multi jobs, windows, 2..3 vehicle types, tight capacity) or Solomon text \
x generated objective list -> pool of 15..40 solutions harvested with the 10 public recreate operators, ruin+recreate steps, ruin-only \
finalisations, deep-copy twins and the empty solution, compared under the main goal and every alternative goal; synthetic goals: the real \
GoalBuilder/Goal over objectives that report hand-made fitness vectors (exhaustive over {-1,-0,+0,1,5e-324,1e300} for 1..=3 single layers, \
mixed single/multi layouts, seeded random pools up to 7 layers); a goal case is non-trivial when its pool has >= 4 distinct fitness \
vectors and at least one pair is decided (not Equal); distinct = distinct (problem, objectives) documents resp. (layout, pool) of synthetic goals.";

// ---------------------------------------------------------------------------------------------------------------
// helpers

fn ord_i8(o: Ordering) -> i8 {
    match o {
        Ordering::Less => -1,
        Ordering::Equal => 0,
        Ordering::Greater => 1,
    }
}

fn ord_name(o: i8) -> &'static str {
    match o {
        -1 => "Less",
        0 => "Equal",
        1 => "Greater",
        _ => "?",
    }
}

fn bits_json(v: &[f64]) -> Value {
    json!({
        "bits": v.iter().map(|x| format!("{:#018x}", x.to_bits())).collect::<Vec<_>>(),
        "text": v.iter().map(|x| format!("{x:?}")).collect::<Vec<_>>(),
    })
}

fn bits_from_json(v: &Value) -> Option<Vec<f64>> {
    v.get("bits")?
        .as_array()?
        .iter()
        .map(|s| s.as_str().and_then(|s| u64::from_str_radix(s.trim_start_matches("0x"), 16).ok()).map(f64::from_bits))
        .collect()
}

fn at(v: &[f64], i: usize) -> f64 {
    v.get(i).copied().unwrap_or(0.)
}

fn is_signed_zero_pair(a: f64, b: f64) -> bool {
    a == 0. && b == 0. && a.is_sign_negative() != b.is_sign_negative()
}

/// Own oracle: lexicographic comparison, missing trailing component = zero. Returns the set of permitted answers
/// as (less, equal, greater). `+0` against `-0` at a position: the property leaves their mutual order open, so both
/// strict answers are permitted there and the comparison may also go on to the next position.
fn ic_allowed(x: &[f64], y: &[f64]) -> (bool, bool, bool) {
    let (mut less, mut greater) = (false, false);
    for i in 0..x.len().max(y.len()) {
        let (a, b) = (at(x, i), at(y, i));
        if a < b {
            return (true, false, greater);
        }
        if a > b {
            return (less, false, true);
        }
        if is_signed_zero_pair(a, b) {
            less = true;
            greater = true;
        }
    }
    (less, true, greater)
}

fn has_neg_zero(v: &[f64]) -> bool {
    v.iter().any(|x| *x == 0. && x.is_sign_negative())
}

// ---------------------------------------------------------------------------------------------------------------
// part 1: InsertionCost

const TINY: f64 = 1e-300;
const DENORMAL: f64 = 5e-324;
const HUGE: f64 = 1e300;

fn make_cost(v: &[f64], via_iter: bool) -> InsertionCost {
    if via_iter { v.iter().copied().collect() } else { InsertionCost::new(v) }
}

struct IcCtx<'a> {
    run: &'a Run,
    family: &'a str,
    case_seed: u64,
}

impl IcCtx<'_> {
    fn artefact(&self, items: &[(&str, &[f64])], extra: Value) -> Value {
        let mut m = serde_json::Map::new();
        m.insert("part".into(), json!("insertion-cost"));
        m.insert("family".into(), json!(self.family));
        m.insert("case_seed".into(), json!(self.case_seed));
        for (k, v) in items {
            m.insert((*k).into(), bits_json(v));
        }
        m.insert("observed".into(), extra);
        Value::Object(m)
    }
}

/// Construction / iteration / Index round trip.
fn ic_roundtrip(c: &IcCtx, v: &[f64]) {
    let run = c.run;
    for via_iter in [false, true] {
        let res = run.guard(|| {
            let cost = make_cost(v, via_iter);
            let it: Vec<f64> = cost.iter().collect();
            let idx: Vec<f64> = (0..v.len()).map(|i| cost[i]).collect();
            let into: Vec<f64> = cost.clone().into_iter().collect();
            (it, idx, into)
        });
        run.eval();
        match res {
            Err(p) => run.violation(
                &format!("C09|insertion-cost|panic|{}", p.file()),
                &format!("InsertionCost construction/iteration panicked: {}", clip(&p.message, 120)),
                c.artefact(&[("x", v)], p.to_json()),
            ),
            Ok((it, idx, into)) => {
                let same = |w: &[f64]| w.len() == v.len() && w.iter().zip(v).all(|(a, b)| a.to_bits() == b.to_bits());
                if !same(&it) || !same(&idx) || !same(&into) {
                    run.violation(
                        "C09|insertion-cost|roundtrip",
                        "iter()/Index/into_iter do not return the components the cost was built from",
                        c.artefact(&[("x", v), ("iter", &it), ("index", &idx), ("into_iter", &into)], json!({"via_from_iterator": via_iter})),
                    );
                }
            }
        }
    }
}

/// Order laws on a pool: returns the comparison matrix (None if the code panicked).
fn ic_order_laws(c: &IcCtx, pool: &[Vec<f64>], threads: usize) -> Option<Vec<Vec<i8>>> {
    let run = c.run;
    let n = pool.len();
    let costs: Vec<InsertionCost> = pool.iter().enumerate().map(|(i, v)| make_cost(v, i % 2 == 1)).collect();

    // comparison matrix + operator agreement
    let res = run.guard(|| {
        let mut m = vec![vec![0i8; n]; n];
        let mut disagreements: Vec<(usize, usize, &'static str)> = vec![];
        for i in 0..n {
            for j in 0..n {
                let (a, b) = (&costs[i], &costs[j]);
                let o = a.cmp(b);
                m[i][j] = ord_i8(o);
                if a.partial_cmp(b) != Some(o) {
                    disagreements.push((i, j, "partial_cmp"));
                }
                if (a == b) != (o == Ordering::Equal) {
                    disagreements.push((i, j, "eq"));
                }
                if (a != b) != (o != Ordering::Equal) {
                    disagreements.push((i, j, "ne"));
                }
                if (a < b) != (o == Ordering::Less) {
                    disagreements.push((i, j, "lt"));
                }
                if (a <= b) != (o != Ordering::Greater) {
                    disagreements.push((i, j, "le"));
                }
                if (a > b) != (o == Ordering::Greater) {
                    disagreements.push((i, j, "gt"));
                }
                if (a >= b) != (o != Ordering::Less) {
                    disagreements.push((i, j, "ge"));
                }
            }
        }
        (m, disagreements)
    });
    let (m, disagreements) = match res {
        Ok(v) => v,
        Err(p) => {
            run.eval();
            run.violation(
                &format!("C09|insertion-cost|panic|{}", p.file()),
                &format!("InsertionCost comparison panicked: {}", clip(&p.message, 120)),
                json!({"part": "insertion-cost", "family": c.family, "case_seed": c.case_seed,
                       "pool": pool.iter().map(|v| bits_json(v)).collect::<Vec<_>>(), "observed": p.to_json()}),
            );
            return None;
        }
    };
    run.eval_n((n * n) as u64 * 7);
    run.observe_n("ic.api", "cmp", (n * n) as u64);
    run.observe_n("ic.api", "partial_cmp/eq/ne/lt/le/gt/ge", (n * n) as u64);
    for (i, j, op) in disagreements {
        run.violation(
            &format!("C09|insertion-cost|operators-disagree|op={op}"),
            &format!("{op} disagrees with Ord::cmp (= {})", ord_name(m[i][j])),
            c.artefact(&[("x", &pool[i]), ("y", &pool[j])], json!({"cmp": ord_name(m[i][j]), "op": op})),
        );
    }

    // reflexivity, antisymmetry, oracle
    let mut seen_ordering = [0u64; 3];
    let mut seen_open = [0u64; 2];
    for i in 0..n {
        run.eval();
        if m[i][i] != 0 {
            run.violation(
                "C09|insertion-cost|reflexivity",
                &format!("cmp(x, x) = {}", ord_name(m[i][i])),
                c.artefact(&[("x", &pool[i])], json!({"cmp_xx": ord_name(m[i][i])})),
            );
        }
        for j in 0..n {
            run.eval_n(2);
            if m[i][j] != -m[j][i] {
                run.violation(
                    "C09|insertion-cost|antisymmetry",
                    &format!("cmp(x, y) = {} but cmp(y, x) = {}", ord_name(m[i][j]), ord_name(m[j][i])),
                    c.artefact(&[("x", &pool[i]), ("y", &pool[j])], json!({"cmp_xy": ord_name(m[i][j]), "cmp_yx": ord_name(m[j][i])})),
                );
            }
            let (l, e, g) = ic_allowed(&pool[i], &pool[j]);
            let ok = match m[i][j] {
                -1 => l,
                0 => e,
                _ => g,
            };
            let unspecified = l as u8 + e as u8 + g as u8 > 1;
            seen_open[unspecified as usize] += 1;
            seen_ordering[(m[i][j] + 1) as usize] += 1;
            if !ok {
                let lens = if pool[i].len() == pool[j].len() { "equal" } else { "differ" };
                let expected: Vec<&str> =
                    [(l, "Less"), (e, "Equal"), (g, "Greater")].iter().filter(|(b, _)| *b).map(|(_, s)| *s).collect();
                run.violation(
                    &format!("C09|insertion-cost|lex-mismatch|lens={lens}"),
                    &format!(
                        "cmp = {} but lexicographic comparison with missing trailing components as zero gives {}",
                        ord_name(m[i][j]),
                        expected.join("/")
                    ),
                    c.artefact(&[("x", &pool[i]), ("y", &pool[j])], json!({"cmp_xy": ord_name(m[i][j]), "permitted": expected})),
                );
            }
        }
    }

    run.observe_n("ic.oracle", "pair-fully-specified", seen_open[0]);
    run.observe_n("ic.oracle", "pair-with-open-zero-sign", seen_open[1]);
    for (k, name) in ["Less", "Equal", "Greater"].iter().enumerate() {
        run.observe_n("ic.ordering", name, seen_ordering[k]);
    }

    // transitivity on all ordered triples
    let m_ref = &m;
    par_for(threads, n as u64, &|| false, &|i| {
        let i = i as usize;
        for j in 0..n {
            let ij = m_ref[i][j];
            for k in 0..n {
                let (jk, ik) = (m_ref[j][k], m_ref[i][k]);
                let bad = (ij <= 0 && jk <= 0 && ik != ij.min(jk)) || (ij >= 0 && jk >= 0 && ik != ij.max(jk));
                if bad {
                    run.violation(
                        "C09|insertion-cost|transitivity",
                        &format!("cmp(x,y) = {}, cmp(y,z) = {} but cmp(x,z) = {}", ord_name(ij), ord_name(jk), ord_name(ik)),
                        c.artefact(
                            &[("x", &pool[i]), ("y", &pool[j]), ("z", &pool[k])],
                            json!({"cmp_xy": ord_name(ij), "cmp_yz": ord_name(jk), "cmp_xz": ord_name(ik)}),
                        ),
                    );
                }
            }
        }
    });
    run.eval_n((n * n * n) as u64);
    run.observe_n("ic.law", "transitivity-triples", (n * n * n) as u64);
    Some(m)
}

/// `x` against `x ++ [+0.0; k]`: Equal in both directions, and interchangeable against a third vector.
fn ic_trailing_zeros(c: &IcCtx, x: &[f64], others: &[Vec<f64>]) {
    let run = c.run;
    for k in 1..=(9usize.saturating_sub(x.len())).min(4) {
        let mut padded = x.to_vec();
        padded.extend(std::iter::repeat(0.0).take(k));
        let (a, b) = (make_cost(x, false), make_cost(&padded, k % 2 == 0));
        let res = run.guard(|| {
            let direct = (ord_i8(a.cmp(&b)), ord_i8(b.cmp(&a)), a == b);
            let subst: Vec<(i8, i8)> = others.iter().map(|o| make_cost(o, false)).map(|o| (ord_i8(a.cmp(&o)), ord_i8(b.cmp(&o)))).collect();
            (direct, subst)
        });
        run.eval();
        run.observe("ic.law", if padded.len() > 6 { "trailing-zeros(crossing inline capacity)" } else { "trailing-zeros" });
        match res {
            Err(p) => run.violation(
                &format!("C09|insertion-cost|panic|{}", p.file()),
                &format!("InsertionCost comparison panicked: {}", clip(&p.message, 120)),
                c.artefact(&[("x", x), ("y", &padded)], p.to_json()),
            ),
            Ok(((ab, ba, eq), subst)) => {
                if ab != 0 || ba != 0 || !eq {
                    run.violation(
                        "C09|insertion-cost|trailing-zero-not-equal",
                        &format!("x vs x ++ [+0.0; {k}]: cmp = {}, reverse = {}, == is {eq}", ord_name(ab), ord_name(ba)),
                        c.artefact(&[("x", x), ("y", &padded)], json!({"cmp_xy": ord_name(ab), "cmp_yx": ord_name(ba), "eq": eq})),
                    );
                }
                for (idx, (xo, po)) in subst.iter().enumerate() {
                    run.eval();
                    if xo != po {
                        run.violation(
                            "C09|insertion-cost|trailing-zero-changes-order",
                            &format!("cmp(x, z) = {} but cmp(x ++ [+0.0; {k}], z) = {}", ord_name(*xo), ord_name(*po)),
                            c.artefact(&[("x", x), ("y", &padded), ("z", &others[idx])], json!({"cmp_xz": ord_name(*xo), "cmp_yz": ord_name(*po)})),
                        );
                    }
                }
            }
        }
    }
}

fn elementwise_ok(r: &[f64], x: &[f64], y: &[f64], sub: bool) -> bool {
    (0..r.len().max(x.len()).max(y.len())).all(|i| {
        let e = if sub { at(x, i) - at(y, i) } else { at(x, i) + at(y, i) };
        at(r, i) == e
    })
}

fn same_up_to_zero_sign(r: &[f64], x: &[f64]) -> bool {
    (0..r.len().max(x.len())).all(|i| at(r, i) == at(x, i))
}

#[derive(Default)]
struct AddSubTally {
    ops: AtomicU64,
    len_max: AtomicU64,
    len_other: AtomicU64,
    inverse: AtomicU64,
}

impl AddSubTally {
    fn flush(&self, run: &Run) {
        let ops = self.ops.swap(0, AtomicOrdering::Relaxed);
        run.observe_n("ic.api", "add", ops / 2);
        run.observe_n("ic.api", "sub", ops / 2);
        run.observe_n("ic.result-length", "max(len x, len y)", self.len_max.swap(0, AtomicOrdering::Relaxed));
        let other = self.len_other.swap(0, AtomicOrdering::Relaxed);
        if other > 0 {
            run.observe_n("ic.result-length", "other", other);
        }
        run.observe_n("ic.law", "add-sub-inverse(exact operands)", self.inverse.swap(0, AtomicOrdering::Relaxed));
    }
}

/// Add / Sub: element-wise oracle for every pair; the inverse law when `exact` (every involved sum/difference is
/// exactly representable).
fn ic_add_sub(c: &IcCtx, x: &[f64], y: &[f64], exact: bool, tally: &AddSubTally) {
    let run = c.run;
    let (cx, cy) = (make_cost(x, false), make_cost(y, true));
    let res = run.guard(|| {
        let vec = |c: InsertionCost| c.iter().collect::<Vec<f64>>();
        let add = [vec(&cx + &cy), vec(&cx + cy.clone()), vec(cx.clone() + &cy), vec(cx.clone() + cy.clone())];
        let sub = [vec(&cx - &cy), vec(&cx - cy.clone()), vec(cx.clone() - &cy), vec(cx.clone() - cy.clone())];
        let add_then_sub = vec(&(&cx + &cy) - &cy);
        let sub_then_add = vec((cx.clone() - &cy) + cy.clone());
        (add, sub, add_then_sub, sub_then_add)
    });
    run.eval_n(2);
    let (add, sub, add_then_sub, sub_then_add) = match res {
        Ok(v) => v,
        Err(p) => {
            run.violation(
                &format!("C09|insertion-cost|panic|{}", p.file()),
                &format!("InsertionCost add/sub panicked: {}", clip(&p.message, 120)),
                c.artefact(&[("x", x), ("y", y)], p.to_json()),
            );
            return;
        }
    };
    const VARIANTS: [&str; 4] = ["ref-ref", "ref-val", "val-ref", "val-val"];
    for (op, results, is_sub) in [("add", &add, false), ("sub", &sub, true)] {
        tally.ops.fetch_add(1, AtomicOrdering::Relaxed);
        if !elementwise_ok(&results[0], x, y, is_sub) {
            run.violation(
                &format!("C09|insertion-cost|{op}|elementwise"),
                &format!("&x {} &y is not the element-wise result (missing components as zero)", if is_sub { "-" } else { "+" }),
                c.artefact(&[("x", x), ("y", y), ("result", &results[0])], json!({"op": op})),
            );
        }
        if results[0].len() == x.len().max(y.len()) {
            tally.len_max.fetch_add(1, AtomicOrdering::Relaxed);
        } else {
            tally.len_other.fetch_add(1, AtomicOrdering::Relaxed);
        }
        for v in 1..4 {
            run.eval();
            let same = results[v].len() == results[0].len() && results[v].iter().zip(results[0].iter()).all(|(a, b)| a == b || (a.is_nan() && b.is_nan()));
            if !same {
                run.violation(
                    &format!("C09|insertion-cost|{op}|variant-disagrees|variant={}", VARIANTS[v]),
                    &format!("{op} by {} differs from {op} by references", VARIANTS[v]),
                    c.artefact(&[("x", x), ("y", y), ("by_ref", &results[0]), ("variant", &results[v])], json!({"op": op, "variant": VARIANTS[v]})),
                );
            }
        }
    }
    if exact {
        run.eval_n(2);
        tally.inverse.fetch_add(2, AtomicOrdering::Relaxed);
        if !same_up_to_zero_sign(&add_then_sub, x) {
            run.violation(
                "C09|insertion-cost|add-sub-inverse|form=(x+y)-y",
                "(x + y) - y differs from x on exactly representable operands",
                c.artefact(&[("x", x), ("y", y), ("result", &add_then_sub)], json!({"form": "(x+y)-y"})),
            );
        }
        if !same_up_to_zero_sign(&sub_then_add, x) {
            run.violation(
                "C09|insertion-cost|add-sub-inverse|form=(x-y)+y",
                "(x - y) + y differs from x on exactly representable operands",
                c.artefact(&[("x", x), ("y", y), ("result", &sub_then_add)], json!({"form": "(x-y)+y"})),
            );
        }
    }
}

fn all_vectors(alphabet: &[f64], max_len: usize) -> Vec<Vec<f64>> {
    let mut out: Vec<Vec<f64>> = vec![vec![]];
    let mut level: Vec<Vec<f64>> = vec![vec![]];
    for _ in 0..max_len {
        let mut next = Vec::with_capacity(level.len() * alphabet.len());
        for v in &level {
            for a in alphabet {
                let mut w = v.clone();
                w.push(*a);
                next.push(w);
            }
        }
        out.extend(next.iter().cloned());
        level = next;
    }
    out
}

fn pool_key(pool: &[Vec<f64>]) -> String {
    pool.iter().map(|v| v.iter().map(|x| format!("{:x}", x.to_bits())).collect::<Vec<_>>().join(",")).collect::<Vec<_>>().join(";")
}

fn ic_pool_nontrivial(run: &Run, pool: &[Vec<f64>], m: &[Vec<i8>]) {
    let n = pool.len();
    let lens: HashSet<usize> = pool.iter().map(|v| v.len()).collect();
    let mut reps: Vec<usize> = vec![];
    for i in 0..n {
        if reps.iter().all(|r| m[*r][i] != 0) {
            reps.push(i);
        }
    }
    run.observe("ic.pool.classes", &format!("{}", reps.len().min(64)));
    if reps.len() >= 3 && lens.len() >= 2 && pool.iter().any(|v| v.len() > 6) {
        run.nontrivial(&format!("ic|{}", pool_key(pool)));
    }
}

fn ic_exhaustive(run: &Run) {
    // E1: full alphabet, lengths 0..=3
    let a8 = [0.0, -0.0, 1.0, -1.0, 2.0, TINY, DENORMAL, HUGE];
    let e1 = all_vectors(&a8, 3);
    let c = IcCtx { run, family: "exhaustive-alphabet8-len0..3", case_seed: 0 };
    for v in &e1 {
        ic_roundtrip(&c, v);
    }
    if let Some(m) = ic_order_laws(&c, &e1, 16) {
        ic_pool_nontrivial(run, &e1, &m);
    }
    let witnesses: Vec<Vec<f64>> = vec![vec![], vec![0.0], vec![-0.0], vec![1.0], vec![-1.0, 2.0], vec![DENORMAL], vec![1.0, 1.0, 1.0, 1.0, 1.0, 1.0, 1.0]];
    for v in &e1 {
        ic_trailing_zeros(&c, v, &witnesses);
    }
    run.observe_n("ic.family", c.family, e1.len() as u64);
    // Default is the empty cost: equal to [] and to [+0.0]
    let default_vs: Vec<(Vec<f64>, i8, i8)> = [vec![], vec![0.0], vec![1.0], vec![-1.0]]
        .into_iter()
        .map(|v| {
            let (d, o) = (InsertionCost::default(), make_cost(&v, false));
            (v, ord_i8(d.cmp(&o)), ord_i8(o.cmp(&d)))
        })
        .collect();
    for (v, d_o, o_d) in default_vs {
        run.eval();
        let (l, e, g) = ic_allowed(&[], &v);
        let ok = match d_o {
            -1 => l,
            0 => e,
            _ => g,
        };
        if !ok || d_o != -o_d {
            run.violation(
                "C09|insertion-cost|lex-mismatch|lens=differ",
                &format!("InsertionCost::default() against {v:?}: cmp = {}, reverse = {}", ord_name(d_o), ord_name(o_d)),
                c.artefact(&[("x", &[]), ("y", &v)], json!({"cmp_xy": ord_name(d_o), "cmp_yx": ord_name(o_d)})),
            );
        }
    }
    run.observe("ic.api", "default");

    // E2: long common prefixes crossing the inline capacity
    let a5 = [0.0, -0.0, 1.0, -1.0, 2.0];
    let tails = all_vectors(&a5, 2);
    let mut e2: Vec<Vec<f64>> = vec![];
    for p in 4..=8usize {
        for t in &tails {
            if p + t.len() <= 9 {
                let mut v = vec![1.0; p];
                v.extend(t.iter().copied());
                e2.push(v);
            }
        }
    }
    e2.push(vec![1.0; 9]);
    e2.push(InsertionCost::max_value().iter().collect());
    run.observe("ic.api", "max_value");
    let c = IcCtx { run, family: "exhaustive-prefix-ones4..8-tail-len0..2", case_seed: 0 };
    for v in &e2 {
        ic_roundtrip(&c, v);
        ic_trailing_zeros(&c, v, &witnesses);
    }
    if let Some(m) = ic_order_laws(&c, &e2, 16) {
        ic_pool_nontrivial(run, &e2, &m);
    }
    run.observe_n("ic.family", c.family, e2.len() as u64);

    // E3: add/sub on exactly addable small values, all pairs; E2 x E2 as long operands
    let tally = AddSubTally::default();
    let a_add = [0.0, -0.0, 1.0, -1.0, 2.0, 0.5, -0.25, 3.0];
    let e3 = all_vectors(&a_add, 2);
    let c = IcCtx { run, family: "exhaustive-addsub-alphabet8-len0..2", case_seed: 0 };
    for x in &e3 {
        for y in &e3 {
            ic_add_sub(&c, x, y, true, &tally);
        }
    }
    run.observe_n("ic.family", c.family, e3.len() as u64);
    let c = IcCtx { run, family: "exhaustive-addsub-long-prefix", case_seed: 0 };
    let e2_exact: Vec<&Vec<f64>> = e2.iter().filter(|v| v.iter().all(|x| x.abs() <= 4.)).collect();
    for x in &e2_exact {
        for y in &e2_exact {
            ic_add_sub(&c, x, y, true, &tally);
        }
        for y in &e3 {
            ic_add_sub(&c, x, y, true, &tally);
            ic_add_sub(&c, y, x, true, &tally);
        }
    }
    // non-exact operands: element-wise oracle, x + 0 and x - x only
    let c = IcCtx { run, family: "exhaustive-addsub-extreme", case_seed: 0 };
    for x in e1.iter().filter(|v| v.len() <= 2) {
        for y in e1.iter().filter(|v| v.len() <= 2) {
            let y_zero = y.iter().all(|v| *v == 0.);
            ic_add_sub(&c, x, y, y_zero, &tally);
        }
    }
    tally.flush(run);
    run.note(
        "ic_exhaustive",
        json!({
            "alphabet8_len0..3_vectors": e1.len(), "prefix_family_vectors": e2.len(), "addsub_small_vectors": e3.len(),
            "note": "order laws: ALL ordered pairs and ALL ordered triples of each exhaustive pool; add/sub: all ordered pairs; random pools above these sizes"
        }),
    );
}

fn grid_value(rng: &mut Rng, m: u32) -> f64 {
    // multiples of 2^-m with |k| < 2^min(40, 51 - m): sums and differences of two such values are exact
    let bits = (51 - m).min(40);
    let wide = match rng.below(4) {
        0 => bits,
        1 => bits.min(12),
        _ => bits.min(4),
    };
    let k = rng.range_i64(-((1i64 << wide) - 1), (1i64 << wide) - 1);
    if k == 0 && rng.chance(0.5) {
        return -0.0;
    }
    k as f64 / (1u64 << m) as f64
}

fn ic_random_case(run: &Run, case_seed: u64) {
    let mut rng = Rng::new(case_seed);
    let c = IcCtx { run, family: "random-pool", case_seed };
    let alphabet = [0.0, -0.0, 1.0, -1.0, 2.0, TINY, DENORMAL, -DENORMAL, HUGE, -HUGE, f64::MAX, -f64::MAX, f64::MIN_POSITIVE, 0.5, 3.0, -2.0];
    let m = if rng.chance(0.4) { 0 } else { rng.range_i64(1, 20) as u32 };
    let size = rng.range_usize(16, 28);
    let mut pool: Vec<Vec<f64>> = vec![];
    let mut is_grid: Vec<bool> = vec![];
    while pool.len() < size {
        if pool.is_empty() || rng.chance(0.45) {
            let grid = rng.chance(0.5);
            let len = if rng.chance(0.35) { rng.range_usize(6, 9) } else { rng.range_usize(0, 9) };
            let v: Vec<f64> = (0..len).map(|_| if grid { grid_value(&mut rng, m) } else { *rng.pick(&alphabet) }).collect();
            pool.push(v);
            is_grid.push(grid);
        } else {
            let src = rng.usize_below(pool.len());
            let mut v = pool[src].clone();
            let grid = is_grid[src];
            let val = |rng: &mut Rng| if grid { grid_value(rng, m) } else { *rng.pick(&alphabet) };
            match rng.below(7) {
                0 => {
                    let keep = rng.range_usize(0, v.len());
                    v.truncate(keep);
                    let add = rng.range_usize(0, 9 - v.len());
                    for _ in 0..add {
                        let x = val(&mut rng);
                        v.push(x);
                    }
                }
                1 => {
                    let k = rng.range_usize(0, (9 - v.len()).min(3));
                    v.extend(std::iter::repeat(0.0).take(k));
                }
                2 => {
                    if let Some(last) = v.last_mut() {
                        *last = val(&mut rng);
                    }
                }
                3 => {
                    while v.last().is_some_and(|x| *x == 0.) {
                        v.pop();
                    }
                }
                4 => {
                    if let Some(pos) = v.iter().position(|x| *x == 0.) {
                        v[pos] = -v[pos];
                    } else if v.len() < 9 {
                        v.push(-0.0);
                    }
                }
                5 => {
                    if !v.is_empty() {
                        let pos = rng.usize_below(v.len());
                        v[pos] = val(&mut rng);
                    }
                }
                _ => {
                    if v.len() < 9 {
                        let x = val(&mut rng);
                        v.push(x);
                    }
                }
            }
            pool.push(v);
            is_grid.push(grid);
        }
    }
    let mut lens = [0u64; 10];
    for v in &pool {
        ic_roundtrip(&c, v);
        lens[v.len()] += 1;
    }
    for (l, cnt) in lens.iter().enumerate().filter(|(_, c)| **c > 0) {
        run.observe_n("ic.length", &format!("{l}"), *cnt);
    }
    let Some(mx) = ic_order_laws(&c, &pool, 1) else { return };
    ic_pool_nontrivial(run, &pool, &mx);
    let witnesses: Vec<Vec<f64>> = (0..4).map(|_| rng.pick(&pool).clone()).collect();
    for _ in 0..4 {
        let v = rng.pick(&pool).clone();
        ic_trailing_zeros(&c, &v, &witnesses);
    }
    // add/sub: every pair gets the element-wise oracle; the inverse law where the arithmetic is exact
    let n = pool.len();
    let tally = AddSubTally::default();
    for _ in 0..48 {
        let (i, j) = (rng.usize_below(n), rng.usize_below(n));
        let y_zero = pool[j].iter().all(|v| *v == 0.);
        let exact = (is_grid[i] && is_grid[j]) || y_zero;
        ic_add_sub(&c, &pool[i], &pool[j], exact, &tally);
    }
    let grid_idx: Vec<usize> = (0..n).filter(|i| is_grid[*i]).collect();
    for &i in grid_idx.iter().take(8) {
        for &j in grid_idx.iter().take(8) {
            ic_add_sub(&c, &pool[i], &pool[j], true, &tally);
        }
    }
    tally.flush(run);
    static IC_SAMPLES: AtomicUsize = AtomicUsize::new(0);
    if IC_SAMPLES.load(AtomicOrdering::Relaxed) < 2 && mx[0].iter().take(6).any(|o| *o == 0) && IC_SAMPLES.fetch_add(1, AtomicOrdering::Relaxed) < 2 {
        run.sample(json!({"part": "insertion-cost", "case_seed": case_seed, "grid_exponent": m,
            "pool": pool.iter().take(6).map(|v| format!("{v:?}")).collect::<Vec<_>>(),
            "cmp_row0": mx[0].iter().take(6).map(|o| ord_name(*o)).collect::<Vec<_>>()}));
    }
    run.observe("ic.family", "random-pool");
    if pool.iter().any(|v| has_neg_zero(v)) {
        run.observe("ic.pool", "has-negative-zero");
    }
}

fn ic_replay(run: &Run, art: &Value) {
    let c = IcCtx { run, family: "replay", case_seed: art.get("case_seed").and_then(|v| v.as_u64()).unwrap_or(0) };
    let mut pool: Vec<Vec<f64>> = vec![];
    for k in ["x", "y", "z"] {
        if let Some(v) = art.get(k).and_then(bits_from_json) {
            pool.push(v);
        }
    }
    if let Some(list) = art.get("pool").and_then(|p| p.as_array()) {
        pool.extend(list.iter().filter_map(bits_from_json));
    }
    if pool.is_empty() {
        run.inconclusive("replay artefact holds no vectors");
        return;
    }
    println!("replaying insertion-cost oracle on {} recorded vectors", pool.len());
    for v in &pool {
        ic_roundtrip(&c, v);
        ic_trailing_zeros(&c, v, &pool);
    }
    ic_order_laws(&c, &pool, 1);
    if pool.len() >= 2 {
        let exact = art.get("observed").and_then(|o| o.get("form")).is_some();
        let tally = AddSubTally::default();
        ic_add_sub(&c, &pool[0], &pool[1], exact, &tally);
    }
}

// ---------------------------------------------------------------------------------------------------------------
// part 2: dominance_order

fn dom(a: &Vec<f64>, b: &Vec<f64>) -> Ordering {
    let n = a.len().min(b.len());
    dominance_order(a, b, (0..n).map(|idx| move |x: &Vec<f64>, y: &Vec<f64>| x[idx].total_cmp(&y[idx])))
}

fn dominance_pair(run: &Run, a: &Vec<f64>, b: &Vec<f64>) {
    let res = run.guard(|| (ord_i8(dom(a, b)), ord_i8(dom(b, a)), ord_i8(dom(a, a))));
    run.eval_n(2);
    let art = |obs: Value| json!({"part": "dominance", "x": bits_json(a), "y": bits_json(b), "observed": obs});
    match res {
        Err(p) => run.violation(
            &format!("C09|dominance-order|panic|{}", p.file()),
            &format!("dominance_order panicked: {}", clip(&p.message, 120)),
            art(p.to_json()),
        ),
        Ok((ab, ba, aa)) => {
            run.observe("dominance.ordering", ord_name(ab));
            if aa != 0 {
                run.violation("C09|dominance-order|reflexivity", &format!("dominance_order(a, a) = {}", ord_name(aa)), art(json!({"aa": ord_name(aa)})));
            }
            if ab != -ba {
                run.violation(
                    "C09|dominance-order|antisymmetry",
                    &format!("dominance_order(a, b) = {} but (b, a) = {}", ord_name(ab), ord_name(ba)),
                    art(json!({"ab": ord_name(ab), "ba": ord_name(ba)})),
                );
            }
        }
    }
}

fn dominance_checks(run: &Run) {
    let alphabet = [-1.0, -0.0, 0.0, 1.0, 2.0];
    for dims in 0..=3usize {
        let vectors: Vec<Vec<f64>> = all_vectors(&alphabet, dims).into_iter().filter(|v| v.len() == dims).collect();
        for a in &vectors {
            for b in &vectors {
                dominance_pair(run, a, b);
            }
        }
        run.observe_n("dominance.dims", &format!("{dims}"), (vectors.len() * vectors.len()) as u64);
    }
    let mut rng = Rng::new(mix(run.seed, 0xD0));
    for _ in 0..run.by_tier(2_000, 50_000) {
        let dims = rng.range_usize(1, 6);
        let a: Vec<f64> = (0..dims).map(|_| rng.range_i64(-3, 3) as f64 * 0.5).collect();
        let b: Vec<f64> = a.iter().map(|x| if rng.chance(0.5) { *x } else { rng.range_i64(-3, 3) as f64 * 0.5 }).collect();
        dominance_pair(run, &a, &b);
    }
}

// ---------------------------------------------------------------------------------------------------------------
// part 3: goal comparison on harvested solutions

#[derive(Clone)]
struct ObjSpec {
    json: Option<Value>,
    /// Top-level objective types in order (`multi-objective` for a composite layer); for the default list: as documented.
    types: Vec<String>,
    single_layer: bool,
    needs_value: bool,
    needs_order: bool,
    label: String,
}

const COSTS: [&str; 3] = ["minimize-cost", "minimize-distance", "minimize-duration"];
const BALANCES: [&str; 4] = ["balance-max-load", "balance-activities", "balance-distance", "balance-duration"];

fn obj_json(t: &str, rng: &mut Rng) -> Value {
    match t {
        "compact-tour" => json!({"type": t, "job_radius": rng.range_usize(1, 3)}),
        "hierarchical-areas" => json!({"type": t, "levels": rng.range_usize(1, 3)}),
        // (weights that are not exactly representable: the fitness is then a float sum whose value depends on the order
        // of summation, which has to be the same every time one solution is asked)
        "minimize-unassigned" if rng.chance(0.45) => json!({"type": t, "breaks": *rng.pick(&[2.0f64, 0.1, 0.7, 0.3])}),
        "maximize-value" if rng.chance(0.3) => json!({"type": t, "breaks": 50.0}),
        _ => json!({"type": t}),
    }
}

fn multi_json(members: &[&str], rng: &mut Rng) -> Value {
    let strategy = if rng.chance(0.5) {
        json!({"name": "sum"})
    } else {
        let weights: Vec<f64> = members.iter().map(|_| *rng.pick(&[0.5, 1.0, 2.0, 10.0])).collect();
        json!({"name": "weighted-sum", "weights": weights})
    };
    let objectives: Vec<Value> = members.iter().map(|t| obj_json(t, rng)).collect();
    json!({"type": "multi-objective", "strategy": strategy, "objectives": objectives})
}

fn random_single_list(rng: &mut Rng, allow_value_order: bool) -> Vec<&'static str> {
    let mut list: Vec<&'static str> = vec![];
    if rng.chance(0.8) {
        list.push("minimize-unassigned");
    }
    if rng.chance(0.6) {
        list.push(if rng.chance(0.7) { "minimize-tours" } else { "maximize-tours" });
    }
    let mut balances = BALANCES.to_vec();
    rng.shuffle(&mut balances);
    for b in balances.into_iter().take(rng.range_usize(0, 2)) {
        list.push(b);
    }
    for t in ["compact-tour", "fast-service", "minimize-arrival-time"] {
        if rng.chance(0.3) {
            list.push(t);
        }
    }
    if rng.chance(0.12) {
        list.push("hierarchical-areas");
    }
    if allow_value_order && rng.chance(0.3) {
        list.push("tour-order");
    }
    if allow_value_order && rng.chance(0.3) {
        list.push("maximize-value");
    }
    rng.shuffle(&mut list);
    let pos = rng.range_usize(0, list.len());
    list.insert(pos, *rng.pick(&COSTS));
    list
}

fn gen_objectives(rng: &mut Rng) -> ObjSpec {
    let cost = *rng.pick(&COSTS);
    let bal = *rng.pick(&BALANCES);
    let (mu, mt) = ("minimize-unassigned", "minimize-tours");
    enum L {
        S(&'static str),
        M(Vec<&'static str>),
    }
    let single = |v: Vec<&'static str>| v.into_iter().map(L::S).collect::<Vec<_>>();
    let choice = rng.below(19);
    let (label, layers): (&str, Option<Vec<L>>) = match choice {
        0 | 1 => ("default", None),
        2 => ("classic", Some(single(vec![mu, mt, "minimize-cost"]))),
        3 => ("distance", Some(single(vec![mu, "minimize-distance"]))),
        4 => ("duration", Some(single(vec![mu, "minimize-duration"]))),
        5 => ("maximize-tours", Some(single(vec![mu, "maximize-tours", cost]))),
        6 => ("maximize-value", Some(single(vec!["maximize-value", mu, mt, cost]))),
        7 => ("balance", Some(single(vec![mu, bal, cost]))),
        8 => ("tour-order", Some(single(if rng.chance(0.5) { vec![mu, "tour-order", cost] } else { vec![mu, mt, "tour-order", cost] }))),
        9 => ("compact-tour", Some(single(vec![mu, mt, "compact-tour", cost]))),
        10 => ("fast-service", Some(single(vec![mu, "fast-service", cost]))),
        11 => ("arrival-time", Some(single(vec![mu, "minimize-arrival-time", cost]))),
        12 | 13 | 14 => ("random-single", Some(single(random_single_list(rng, true)))),
        15 => ("multi-cost-balance", Some(vec![L::S(mu), L::S(mt), L::M(vec![cost, bal])])),
        16 => ("multi-weighted-no-tours", Some(vec![L::S(mu), L::M(vec![cost, "balance-activities"])])),
        17 => ("multi-first", Some(vec![L::M(vec![cost, mu]), L::S(mt)])),
        _ => {
            let list = random_single_list(rng, true);
            let groupable: Vec<usize> = (0..list.len()).filter(|i| !matches!(list[*i], "tour-order" | "maximize-value")).collect();
            // group a run of neighbouring groupable entries
            let mut layers: Vec<L> = vec![];
            let start = if groupable.len() >= 2 { Some(groupable[rng.usize_below(groupable.len() - 1)]) } else { None };
            let want = rng.range_usize(2, 3);
            let mut i = 0;
            while i < list.len() {
                if Some(i) == start {
                    let mut members = vec![];
                    while i < list.len() && members.len() < want && groupable.contains(&i) {
                        members.push(list[i]);
                        i += 1;
                    }
                    if members.len() >= 2 {
                        layers.push(L::M(members));
                    } else {
                        layers.extend(members.into_iter().map(L::S));
                    }
                } else {
                    layers.push(L::S(list[i]));
                    i += 1;
                }
            }
            ("random-multi", Some(layers))
        }
    };
    match layers {
        None => {
            let needs_value = rng.chance(0.4);
            let mut types = vec![mu.to_string(), mt.to_string(), "minimize-cost".to_string()];
            if needs_value {
                types.insert(0, "maximize-value".to_string());
            }
            ObjSpec { json: None, types, single_layer: true, needs_value, needs_order: rng.chance(0.25), label: label.to_string() }
        }
        Some(layers) => {
            let mut types = vec![];
            let mut values = vec![];
            let mut flat: Vec<&str> = vec![];
            let mut single_layer = true;
            for l in &layers {
                match l {
                    L::S(t) => {
                        types.push(t.to_string());
                        flat.push(t);
                        values.push(obj_json(t, rng));
                    }
                    L::M(members) => {
                        single_layer = false;
                        types.push("multi-objective".to_string());
                        flat.extend(members.iter().copied());
                        values.push(multi_json(members, rng));
                    }
                }
            }
            let needs_value = flat.contains(&"maximize-value");
            let has_order_objective = flat.contains(&"tour-order");
            ObjSpec {
                json: Some(Value::Array(values)),
                types,
                single_layer,
                needs_value,
                needs_order: has_order_objective || rng.chance(0.15),
                label: label.to_string(),
            }
        }
    }
}

fn fmt_time(secs: i64) -> String {
    format!("2024-03-05T{:02}:{:02}:{:02}Z", secs / 3600, (secs / 60) % 60, secs % 60)
}

fn gen_location(rng: &mut Rng, spread: f64) -> Value {
    let lat = 52.52 + rng.range_f64(-0.06, 0.06) * spread;
    let lng = 13.40 + rng.range_f64(-0.10, 0.10) * spread;
    json!({"lat": (lat * 1e5).round() / 1e5, "lng": (lng * 1e5).round() / 1e5})
}

fn gen_pragmatic(rng: &mut Rng, spec: &ObjSpec) -> Value {
    let n_jobs = rng.range_usize(5, 25);
    let dims = if rng.chance(0.25) { 2 } else { 1 };
    let tw_share = *rng.pick(&[0.0, 0.3, 0.7]);
    let (shift_start, shift_end) = (8 * 3600, rng.range_i64(14, 20) * 3600);
    let place = |rng: &mut Rng, tag: Option<String>| {
        let mut p = serde_json::Map::new();
        p.insert("location".into(), gen_location(rng, 1.0));
        p.insert("duration".into(), json!(rng.range_i64(1, 10) as f64 * 60.));
        if rng.chance(tw_share) {
            let s = shift_start + rng.range_i64(0, 6) * 1800;
            let e = s + rng.range_i64(1, 8) * 1800;
            let mut times = vec![json!([fmt_time(s), fmt_time(e)])];
            if rng.chance(0.2) {
                let s2 = e + 1800;
                times.push(json!([fmt_time(s2), fmt_time(s2 + 3600)]));
            }
            p.insert("times".into(), Value::Array(times));
        }
        if let Some(tag) = tag {
            p.insert("tag".into(), json!(tag));
        }
        Value::Object(p)
    };
    let demand = |rng: &mut Rng| (0..dims).map(|_| rng.range_i64(1, 4)).collect::<Vec<i64>>();
    let task = |place: Value, demand: Option<&Vec<i64>>, order: Option<i64>| {
        let mut t = serde_json::Map::new();
        t.insert("places".into(), json!([place]));
        if let Some(d) = demand {
            t.insert("demand".into(), json!(d));
        }
        if let Some(o) = order {
            t.insert("order".into(), json!(o));
        }
        Value::Object(t)
    };
    let mut jobs = vec![];
    let mut total_demand = 0i64;
    let mut any_value = false;
    let mut any_order = false;
    for idx in 0..n_jobs {
        let mut job = serde_json::Map::new();
        job.insert("id".into(), json!(format!("job{idx}")));
        let order = |rng: &mut Rng| if spec.needs_order && rng.chance(0.5) { Some(rng.range_i64(1, 3)) } else { None };
        match rng.below(20) {
            0..=9 => {
                let d = demand(rng);
                total_demand += d[0];
                let o = order(rng);
                any_order |= o.is_some();
                job.insert("deliveries".into(), json!([task(place(rng, None), Some(&d), o)]));
            }
            10..=13 => {
                let d = demand(rng);
                total_demand += d[0];
                let o = order(rng);
                any_order |= o.is_some();
                job.insert("pickups".into(), json!([task(place(rng, None), Some(&d), o)]));
            }
            14..=17 => {
                let d = demand(rng);
                total_demand += d[0];
                job.insert("pickups".into(), json!([task(place(rng, Some("p1".into())), Some(&d), None)]));
                job.insert("deliveries".into(), json!([task(place(rng, Some("d1".into())), Some(&d), None)]));
            }
            18 => {
                let (d1, d2) = (demand(rng), demand(rng));
                let sum: Vec<i64> = d1.iter().zip(d2.iter()).map(|(a, b)| a + b).collect();
                total_demand += sum[0];
                job.insert(
                    "pickups".into(),
                    json!([task(place(rng, Some("p1".into())), Some(&d1), None), task(place(rng, Some("p2".into())), Some(&d2), None)]),
                );
                job.insert("deliveries".into(), json!([task(place(rng, Some("d1".into())), Some(&sum), None)]));
            }
            _ => {
                let o = order(rng);
                any_order |= o.is_some();
                job.insert("services".into(), json!([task(place(rng, None), None, o)]));
            }
        }
        if spec.needs_value && rng.chance(0.6) {
            any_value = true;
            job.insert("value".into(), json!(*rng.pick(&[1.0, 2.0, 2.5, 5.0, 10.0, 7.25, 20.0])));
        }
        jobs.push(Value::Object(job));
    }
    // make sure the flags the objective list relies on really hold
    if spec.needs_value && !any_value {
        jobs[0].as_object_mut().unwrap().insert("value".into(), json!(3.0));
    }
    if spec.needs_order && !any_order {
        let job = jobs[0].as_object_mut().unwrap();
        for key in ["deliveries", "pickups", "services"] {
            if let Some(t) = job.get_mut(key).and_then(|t| t.get_mut(0)).and_then(|t| t.as_object_mut()) {
                t.insert("order".into(), json!(1));
                break;
            }
        }
    }

    let n_types = rng.range_usize(2, 3);
    let ids_per_type: Vec<usize> = (0..n_types).map(|_| rng.range_usize(1, 2)).collect();
    let n_vehicles: usize = ids_per_type.iter().sum();
    let tightness = *rng.pick(&[0.4, 0.7, 1.0, 1.5, 3.0]);
    let depot = gen_location(rng, 0.3);
    let mut vehicles = vec![];
    for (t, ids) in ids_per_type.iter().enumerate() {
        let base = ((total_demand as f64 * tightness / n_vehicles as f64).ceil() as i64).max(2);
        let cap: Vec<i64> = (0..dims).map(|_| (base + rng.range_i64(-1, 2)).max(2)).collect();
        let start_loc = if rng.chance(0.7) { depot.clone() } else { gen_location(rng, 0.5) };
        let mut shift = serde_json::Map::new();
        let mut start = serde_json::Map::new();
        start.insert("earliest".into(), json!(fmt_time(shift_start)));
        if rng.chance(0.2) {
            start.insert("latest".into(), json!(fmt_time(shift_start + 3600)));
        }
        start.insert("location".into(), start_loc.clone());
        shift.insert("start".into(), Value::Object(start));
        if rng.chance(0.75) {
            shift.insert("end".into(), json!({"latest": fmt_time(shift_end), "location": start_loc}));
        }
        let mut v = serde_json::Map::new();
        v.insert("typeId".into(), json!(format!("type{t}")));
        v.insert("vehicleIds".into(), json!((0..*ids).map(|i| format!("type{t}_v{i}")).collect::<Vec<_>>()));
        v.insert("profile".into(), json!({"matrix": "car"}));
        v.insert(
            "costs".into(),
            json!({"fixed": *rng.pick(&[0.0, 10.0, 25.0, 50.0]), "distance": *rng.pick(&[0.0005, 0.001, 0.002]), "time": *rng.pick(&[0.0, 0.002, 0.005, 0.01])}),
        );
        v.insert("shifts".into(), json!([Value::Object(shift)]));
        v.insert("capacity".into(), json!(cap));
        if rng.chance(0.2) {
            v.insert("limits".into(), json!({"tourSize": rng.range_i64(3, 7)}));
        }
        vehicles.push(Value::Object(v));
    }
    let mut doc = serde_json::Map::new();
    doc.insert("plan".into(), json!({"jobs": jobs}));
    doc.insert("fleet".into(), json!({"vehicles": vehicles, "profiles": [{"name": "car"}]}));
    if let Some(o) = &spec.json {
        doc.insert("objectives".into(), o.clone());
    }
    Value::Object(doc)
}

fn gen_solomon(rng: &mut Rng) -> String {
    let n = rng.range_usize(8, 25);
    let vehicles = rng.range_usize(2, 5);
    let capacity = rng.range_usize(30, 90);
    let horizon = 1000;
    let mut s = String::new();
    s.push_str("GEN\n\nVEHICLE\nNUMBER     CAPACITY\n");
    s.push_str(&format!("  {vehicles}         {capacity}\n\nCUSTOMER\n"));
    s.push_str("CUST NO.  XCOORD.   YCOORD.    DEMAND   READY TIME  DUE DATE   SERVICE   TIME\n\n");
    s.push_str(&format!("    0      50         50          0          0       {horizon}          0\n"));
    for i in 1..=n {
        let (x, y) = (rng.range_i64(0, 100), rng.range_i64(0, 100));
        let d = rng.range_i64(5, 30);
        let (ready, due) = if rng.chance(0.5) { (0, horizon - 100) } else {
            let r = rng.range_i64(0, 600);
            (r, r + rng.range_i64(50, 300))
        };
        s.push_str(&format!("    {i}      {x}         {y}          {d}          {ready}       {due}          10\n"));
    }
    s
}

struct ForcedRandom {
    idx: i32,
    seen_max: AtomicI32,
    inner: DefaultRandom,
}

impl Random for ForcedRandom {
    fn uniform_int(&self, min: i32, max: i32) -> i32 {
        self.seen_max.store(max, AtomicOrdering::Relaxed);
        self.idx.clamp(min, max)
    }
    fn uniform_real(&self, min: Float, max: Float) -> Float {
        self.inner.uniform_real(min, max)
    }
    fn is_head_not_tails(&self) -> bool {
        true
    }
    fn is_hit(&self, _: Float) -> bool {
        true
    }
    fn weighted(&self, _: &[usize]) -> usize {
        0
    }
    fn get_rng(&self) -> RandomGen {
        RandomGen::new_randomized()
    }
}

/// Obtains the alternative goals through the public `Alternative::maybe_new` with a forced random source.
fn alternative_goals(goal: &GoalContext) -> Vec<GoalContext> {
    let mut out = vec![];
    let mut idx = 0;
    loop {
        let random = ForcedRandom { idx, seen_max: AtomicI32::new(-1), inner: DefaultRandom::default() };
        let alt = goal.maybe_new(&random);
        let max = random.seen_max.load(AtomicOrdering::Relaxed);
        if max < 0 || idx > max || idx > 8 {
            break;
        }
        out.push(alt);
        idx += 1;
    }
    out
}

struct Sol {
    ctx: InsertionContext,
    origin: String,
    twin_of: Option<(usize, &'static str)>,
}

fn finalize_all_unassigned(ctx: &mut InsertionContext) {
    let required: Vec<_> = ctx.solution.required.drain(..).collect();
    ctx.solution.unassigned.extend(required.into_iter().map(|job| (job, UnassignmentInfo::Unknown)));
    ctx.restore();
}

fn harvest(run: &Run, rng: &mut Rng, problem: &Arc<Problem>, env: &Arc<Environment>) -> Vec<Sol> {
    let random = env.random.clone();
    let recreates: Vec<(&'static str, Arc<dyn Recreate>)> = vec![
        ("RecreateWithCheapest", Arc::new(RecreateWithCheapest::new(random.clone()))),
        ("RecreateWithRegret", Arc::new(RecreateWithRegret::new(1, 3, random.clone()))),
        ("RecreateWithGaps", Arc::new(RecreateWithGaps::new(1, 6, random.clone()))),
        ("RecreateWithBlinks", Arc::new(RecreateWithBlinks::new_with_defaults(random.clone()))),
        ("RecreateWithFarthest", Arc::new(RecreateWithFarthest::new(random.clone()))),
        ("RecreateWithNearestNeighbor", Arc::new(RecreateWithNearestNeighbor::new(random.clone()))),
        ("RecreateWithSkipBest", Arc::new(RecreateWithSkipBest::new(1, 2, random.clone()))),
        ("RecreateWithSlice", Arc::new(RecreateWithSlice::new(random.clone()))),
        ("RecreateWithPerturbation", Arc::new(RecreateWithPerturbation::new_with_defaults(random.clone()))),
        ("RecreateWithSkipRandom", Arc::new(RecreateWithSkipRandom::new(random.clone()))),
    ];
    let rctx = RefinementContext::new(
        problem.clone(),
        Box::new(GreedyPopulation::new(problem.goal.clone(), 1, None)),
        TelemetryMode::None,
        env.clone(),
    );
    let mut pool: Vec<Sol> = vec![];
    let push = |pool: &mut Vec<Sol>, res: Result<InsertionContext, vverif::PanicInfo>, origin: String| match res {
        Ok(ctx) => {
            run.observe("goal.origin", origin.split('+').next_back().unwrap_or(&origin));
            pool.push(Sol { ctx, origin, twin_of: None });
        }
        Err(p) => run.inconclusive(&format!("harvest step panicked (not a C09 verdict): {}", p.file())),
    };
    for (name, r) in &recreates {
        let res = run.guard(|| r.run(&rctx, InsertionContext::new(problem.clone(), env.clone())));
        push(&mut pool, res, name.to_string());
    }
    for _ in 0..rng.range_usize(2, 5) {
        let (name, r) = rng.pick(&recreates);
        let res = run.guard(|| r.run(&rctx, InsertionContext::new(problem.clone(), env.clone())));
        push(&mut pool, res, name.to_string());
    }
    if pool.is_empty() {
        return pool;
    }
    let jobs = problem.jobs.size();
    let make_ruin = |rng: &mut Rng| -> (String, Arc<dyn Ruin>) {
        let limits = RemovalLimits { removed_activities_range: 1..rng.range_usize(2, (jobs / 2).max(3)), affected_routes_range: 1..rng.range_usize(2, 4) };
        let (name, second): (&str, Arc<dyn Ruin>) = match rng.below(4) {
            0 => ("NeighbourRemoval", Arc::new(NeighbourRemoval::new(limits.clone()))),
            1 => ("WorstJobRemoval", Arc::new(WorstJobRemoval::new(2, limits.clone()))),
            2 => ("RandomRouteRemoval", Arc::new(RandomRouteRemoval::new(limits.clone()))),
            _ => ("AdjustedStringRemoval", Arc::new(AdjustedStringRemoval::new_with_defaults(limits.clone()))),
        };
        let ruin: Arc<dyn Ruin> = Arc::new(CompositeRuin::new(vec![(Arc::new(RandomJobRemoval::new(limits)), 1.0), (second, 0.5)]));
        (format!("RandomJobRemoval/{name}"), ruin)
    };
    for _ in 0..rng.range_usize(5, 9) {
        if pool.len() >= 34 {
            break;
        }
        let src = rng.usize_below(pool.len());
        let (ruin_name, ruin) = make_ruin(rng);
        let (rec_name, rec) = rng.pick(&recreates).clone();
        let op = RuinAndRecreate::new(ruin, rec);
        let res = run.guard(|| op.search(&rctx, &pool[src].ctx));
        let origin = format!("{}+ruin({ruin_name})+{rec_name}", clip(&pool[src].origin, 40));
        push(&mut pool, res, origin);
    }
    for _ in 0..rng.range_usize(2, 4) {
        let src = rng.usize_below(pool.len());
        let (ruin_name, ruin) = make_ruin(rng);
        let res = run.guard(|| {
            let mut ctx = ruin.run(&rctx, pool[src].ctx.deep_copy());
            finalize_all_unassigned(&mut ctx);
            ctx
        });
        let origin = format!("{}+ruin({ruin_name})+ruin-only-finalised", clip(&pool[src].origin, 40));
        push(&mut pool, res, origin);
    }
    let res = run.guard(|| {
        let mut ctx = InsertionContext::new(problem.clone(), env.clone());
        finalize_all_unassigned(&mut ctx);
        ctx
    });
    push(&mut pool, res, "empty-solution".to_string());
    let base = pool.len();
    for t in 0..4 {
        let src = rng.usize_below(base);
        let kind = if t < 2 { "deep-copy" } else { "deep-copy-restore" };
        let res = run.guard(|| {
            let mut ctx = pool[src].ctx.deep_copy();
            if kind == "deep-copy-restore" {
                ctx.restore();
            }
            ctx
        });
        if let Ok(ctx) = res {
            run.observe("goal.origin", kind);
            let origin = format!("{}+{kind}", clip(&pool[src].origin, 40));
            pool.push(Sol { ctx, origin, twin_of: Some((src, kind)) });
        }
    }
    pool
}

enum Lex {
    Decided(i8, usize),
    AllEqual,
    Undefined(usize),
}

/// Own oracle: lexicographic comparison of two reported fitness vectors, exact f64 comparison, `+0 == -0`.
fn lex_fitness(a: &[f64], b: &[f64]) -> Lex {
    if a.len() != b.len() {
        return Lex::Undefined(a.len().min(b.len()));
    }
    for i in 0..a.len() {
        if a[i].is_nan() || b[i].is_nan() {
            return Lex::Undefined(i);
        }
        if a[i] < b[i] {
            return Lex::Decided(-1, i);
        }
        if a[i] > b[i] {
            return Lex::Decided(1, i);
        }
    }
    Lex::AllEqual
}

struct CaseInfo<'a> {
    case_seed: u64,
    kind: &'a str,
    doc: &'a str,
    spec_label: &'a str,
    objectives: Value,
}

fn check_goal(run: &Run, info: &CaseInfo, class: &str, goal_name: &str, goal: &GoalContext, lexicographic: bool, types: Option<&[String]>, pool: &[Sol]) -> bool {
    let n = pool.len();
    let art = |items: &[(&str, usize)], fitness: &[Vec<f64>], obs: Value| {
        let mut m = serde_json::Map::new();
        m.insert("part".into(), json!("goal"));
        m.insert("case_seed".into(), json!(info.case_seed));
        m.insert("kind".into(), json!(info.kind));
        m.insert("objectives_label".into(), json!(info.spec_label));
        m.insert("objectives".into(), info.objectives.clone());
        m.insert("goal".into(), json!(goal_name));
        m.insert("problem".into(), json!(info.doc));
        for (k, i) in items {
            m.insert(
                (*k).into(),
                json!({"origin": pool[*i].origin, "fitness": fitness.get(*i).map(|f| bits_json(f)),
                       "routes": pool[*i].ctx.solution.routes.len(), "unassigned": pool[*i].ctx.solution.unassigned.len()}),
            );
        }
        m.insert("observed".into(), obs);
        m.insert("replay_note".into(), json!("solutions are not reproducible from a seed; --replay regenerates the case from case_seed and re-harvests"));
        Value::Object(m)
    };
    let res = run.guard(|| {
        let fitness: Vec<Vec<f64>> = pool.iter().map(|s| goal.fitness(&s.ctx).collect()).collect();
        // the fitness of one unchanged solution is a value: asked again it is the same number, bit for bit
        let again: Vec<Vec<f64>> = pool.iter().map(|s| goal.fitness(&s.ctx).collect()).collect();
        let unstable = (0..n).find(|i| fitness[*i].iter().map(|x| x.to_bits()).ne(again[*i].iter().map(|x| x.to_bits())));
        let mut m = vec![vec![0i8; n]; n];
        for i in 0..n {
            for j in 0..n {
                m[i][j] = ord_i8(goal.total_order(&pool[i].ctx, &pool[j].ctx));
            }
        }
        (fitness, m, unstable.map(|i| (i, again[i].clone())))
    });
    let (fitness, m) = match res {
        Ok((fitness, m, unstable)) => {
            if let Some((i, again)) = unstable {
                run.eval();
                run.violation(
                    &format!("C09|goal|{class}|fitness-not-repeatable"),
                    &format!("{goal_name}: fitness of one unchanged solution ({}) is {:?} and, asked again, {:?}", pool[i].origin, fitness[i], again),
                    art(&[("a", i)], &fitness, json!({"again": bits_json(&again)})),
                );
            }
            (fitness, m)
        }
        Err(p) => {
            run.eval();
            run.violation(
                &format!("C09|goal|{class}|panic|{}", p.file()),
                &format!("total_order/fitness panicked: {}", clip(&p.message, 120)),
                art(&[], &[], p.to_json()),
            );
            return false;
        }
    };
    run.observe_n("goal.api", "total_order", (n * n) as u64);
    run.observe_n("goal.api", "fitness", n as u64);
    run.observe("goal.class", class);
    // main goals of generated problems name the deciding objective; alternative and synthetic goals name the kind of mismatch
    let by_objective = matches!(class, "single-layer" | "multi-layer");
    let mut decided_any = false;
    let mut tally: std::collections::BTreeMap<(&'static str, String), u64> = Default::default();
    for i in 0..n {
        run.eval();
        if m[i][i] != 0 {
            run.violation(
                &format!("C09|goal|{class}|reflexivity"),
                &format!("total_order(a, a) = {}", ord_name(m[i][i])),
                art(&[("a", i)], &fitness, json!({"cmp_aa": ord_name(m[i][i])})),
            );
        }
        if let Some((src, kind)) = pool[i].twin_of {
            run.eval();
            run.observe("goal.law", &format!("twin={kind}"));
            if m[i][src] != 0 || m[src][i] != 0 {
                run.violation(
                    &format!("C09|goal|{class}|twin-not-equal|twin={kind}"),
                    &format!("a solution and its {kind} compare {} / {}", ord_name(m[src][i]), ord_name(m[i][src])),
                    art(&[("a", src), ("b", i)], &fitness, json!({"cmp_ab": ord_name(m[src][i]), "cmp_ba": ord_name(m[i][src])})),
                );
            }
        }
        for j in 0..n {
            run.eval();
            decided_any |= m[i][j] != 0;
            *tally.entry(("goal.ordering", ord_name(m[i][j]).to_string())).or_default() += 1;
            if m[i][j] != -m[j][i] {
                run.violation(
                    &format!("C09|goal|{class}|antisymmetry"),
                    &format!("total_order(a, b) = {} but total_order(b, a) = {}", ord_name(m[i][j]), ord_name(m[j][i])),
                    art(&[("a", i), ("b", j)], &fitness, json!({"cmp_ab": ord_name(m[i][j]), "cmp_ba": ord_name(m[j][i])})),
                );
            }
            if !lexicographic {
                continue;
            }
            run.eval();
            let name_of = |layer: usize| -> String {
                match types {
                    Some(t) if t.len() == fitness[i].len() => t[layer].clone(),
                    _ => format!("layer{layer}"),
                }
            };
            match lex_fitness(&fitness[i], &fitness[j]) {
                Lex::Undefined(layer) => {
                    run.inconclusive(&format!("fitness component is NaN or vectors differ in length (layer {layer}): lexicographic order undefined"));
                }
                Lex::AllEqual => {
                    *tally.entry(("goal.decided-by", "<all layers equal>".to_string())).or_default() += 1;
                    if m[i][j] != 0 {
                        let suffix = if by_objective { "objective=<all-equal>" } else { "kind=strict-instead-of-equal" };
                        run.violation(
                            &format!("C09|goal|{class}|lex-mismatch|{suffix}"),
                            &format!("fitness vectors are equal but total_order = {}", ord_name(m[i][j])),
                            art(&[("a", i), ("b", j)], &fitness, json!({"cmp_ab": ord_name(m[i][j]), "expected": "Equal"})),
                        );
                    }
                }
                Lex::Decided(expected, layer) => {
                    let name = name_of(layer);
                    *tally.entry(("goal.decided-by", name.clone())).or_default() += 1;
                    *tally.entry(("goal.decided-at-layer", format!("{layer}"))).or_default() += 1;
                    if m[i][j] != expected {
                        let suffix = if by_objective {
                            format!("objective={name}")
                        } else if m[i][j] == 0 {
                            "kind=equal-instead-of-strict".to_string()
                        } else {
                            "kind=reversed".to_string()
                        };
                        run.violation(
                            &format!("C09|goal|{class}|lex-mismatch|{suffix}"),
                            &format!(
                                "total_order = {} but the fitness vectors first differ at layer {layer} ({name}): {:?} vs {:?} => {}",
                                ord_name(m[i][j]),
                                fitness[i][layer],
                                fitness[j][layer],
                                ord_name(expected)
                            ),
                            art(&[("a", i), ("b", j)], &fitness, json!({"cmp_ab": ord_name(m[i][j]), "expected": ord_name(expected), "layer": layer})),
                        );
                    }
                }
            }
        }
    }
    for ((table, key), cnt) in tally {
        run.observe_n(table, &key, cnt);
    }
    if lexicographic {
        for i in 0..n {
            for j in 0..n {
                let ij = m[i][j];
                for k in 0..n {
                    let (jk, ik) = (m[j][k], m[i][k]);
                    let bad = (ij <= 0 && jk <= 0 && ik != ij.min(jk)) || (ij >= 0 && jk >= 0 && ik != ij.max(jk));
                    if bad {
                        run.violation(
                            &format!("C09|goal|{class}|transitivity"),
                            &format!("cmp(a,b) = {}, cmp(b,c) = {} but cmp(a,c) = {}", ord_name(ij), ord_name(jk), ord_name(ik)),
                            art(&[("a", i), ("b", j), ("c", k)], &fitness, json!({"cmp_ab": ord_name(ij), "cmp_bc": ord_name(jk), "cmp_ac": ord_name(ik)})),
                        );
                    }
                }
            }
        }
        run.eval_n((n * n * n) as u64);
        run.observe_n("goal.law", "transitivity-triples", (n * n * n) as u64);
    }
    for f in &fitness {
        if f.iter().any(|x| *x == 0. && x.is_sign_negative()) {
            run.observe("goal.fitness", "negative-zero-component");
        }
        if f.iter().any(|x| x.is_nan()) {
            run.observe("goal.fitness", "nan-component");
        }
    }
    if let Some(len) = fitness.first().map(|f| f.len()) {
        for layer in 0..len {
            let zeros: HashSet<bool> = fitness.iter().filter_map(|f| f.get(layer)).filter(|x| **x == 0.).map(|x| x.is_sign_negative()).collect();
            if zeros.len() == 2 {
                run.observe("goal.fitness", "layer-with-both-zero-signs-in-pool");
            }
        }
    }
    let distinct: HashSet<Vec<u64>> = fitness.iter().map(|f| f.iter().map(|x| (if *x == 0. { 0. } else { *x }).to_bits()).collect()).collect();
    run.observe("goal.distinct-fitness-vectors", &format!("{:>2}", distinct.len().min(40)));
    if by_objective && run.wants_sample() && distinct.len() >= 4 {
        run.sample(json!({"part": "goal", "case_seed": info.case_seed, "kind": info.kind, "objectives": info.objectives, "goal": goal_name,
            "pool_size": n, "distinct_fitness_vectors": distinct.len(),
            "first_three": (0..3.min(n)).map(|i| json!({"origin": pool[i].origin, "fitness": fitness[i]})).collect::<Vec<_>>(),
            "cmp_0_1": ord_name(m[0][1.min(n - 1)])}));
    }
    distinct.len() >= 4 && decided_any
}

/// Returns the generated problem document (None when the generator's document was rejected).
fn goal_case(run: &Run, case_seed: u64) -> Option<String> {
    let mut rng = Rng::new(case_seed);
    let env = Arc::new(Environment::new(Arc::new(DefaultRandom::default()), None, Default::default(), Arc::new(|_: &str| {}), false));
    let solomon = rng.chance(0.08);
    let (kind, doc, spec, problem) = if solomon {
        let text = gen_solomon(&mut rng);
        let spec = ObjSpec {
            json: None,
            types: vec!["minimize-unassigned".into(), "minimize-tours".into(), "minimize-distance".into()],
            single_layer: true,
            needs_value: false,
            needs_order: false,
            label: "solomon".into(),
        };
        let res = run.guard(|| text.clone().read_solomon(false));
        match res {
            Ok(Ok(p)) => ("solomon", text, spec, Arc::new(p)),
            Ok(Err(e)) => {
                run.inconclusive(&format!("generator rejected (solomon): {}", clip(&e.to_string(), 60)));
                return None;
            }
            Err(p) => {
                run.inconclusive(&format!("problem reader panicked (not a C09 verdict): {}", p.file()));
                return None;
            }
        }
    } else {
        let spec = gen_objectives(&mut rng);
        let mut doc_value = gen_pragmatic(&mut rng, &spec);
        let epoch_dated = rng.chance(0.35);
        if epoch_dated {
            // service times with a fraction which is no dyadic number (routing approximations are rounded to whole seconds)
            fn add_fractions(v: &mut Value, k: &mut usize) {
                match v {
                    Value::Object(m) => {
                        if let Some(d) = m.get("duration").and_then(|d| d.as_f64()) {
                            *k += 1;
                            m.insert("duration".into(), json!(d + [0.1, 0.3, 0.7, 1.1, 2.3][*k % 5]));
                        }
                        m.values_mut().for_each(|c| add_fractions(c, k));
                    }
                    Value::Array(a) => a.iter_mut().for_each(|c| add_fractions(c, k)),
                    _ => {}
                }
            }
            add_fractions(&mut doc_value["plan"]["jobs"], &mut 0);
        }
        let mut doc = doc_value.to_string();
        // travel times over coordinates are fractional, but next to timestamps of 1.7e9 s their low bits are rounded away and
        // every sum over jobs or tours is exact in any order; a third of the problems is dated 1970-01-01, where schedule
        // values keep their fraction and a fitness summed in a varying order differs in its last bits
        if epoch_dated {
            doc = doc.replace("2024-03-05T", "1970-01-01T");
            run.observe("goal.time-base", "1970-01-01 (fractional schedule values)");
        } else {
            run.observe("goal.time-base", "2024-03-05");
        }
        let res = run.guard(|| doc.clone().read_pragmatic());
        match res {
            Ok(Ok(p)) => ("pragmatic", doc, spec, Arc::new(p)),
            Ok(Err(e)) => {
                let codes: Vec<String> = e
                    .errors
                    .iter()
                    .map(|e| if e.code == "E0000" { format!("E0000 {} {}", clip(&e.cause, 60), clip(&e.action, 140)) } else { e.code.clone() })
                    .collect();
                run.inconclusive(&format!("generator rejected ({}): {}", spec.label, codes.join(",")));
                return None;
            }
            Err(p) => {
                run.inconclusive(&format!("problem reader panicked (not a C09 verdict): {}", p.file()));
                return None;
            }
        }
    };
    let pool = harvest(run, &mut rng, &problem, &env);
    if pool.len() < 8 {
        run.inconclusive("harvest produced fewer than 8 solutions");
        return None;
    }
    let objectives = spec.json.clone().unwrap_or(json!("default (no objectives property)"));
    let info = CaseInfo { case_seed, kind, doc: &doc, spec_label: &spec.label, objectives };
    let class = if spec.single_layer { "single-layer" } else { "multi-layer" };
    let nontrivial = check_goal(run, &info, class, "main", problem.goal.as_ref(), spec.single_layer, Some(&spec.types), &pool);
    // the value compared is a function of the solution, not of where it lives or of what was asked before: two solutions with
    // the same number of tours change places in memory between two questions (what sorting a population does)
    {
        let goal = problem.goal.as_ref();
        let pairs: Vec<(usize, usize)> = (0..pool.len())
            .flat_map(|i| (i + 1..pool.len()).map(move |j| (i, j)))
            .filter(|(i, j)| pool[*i].ctx.solution.routes.len() == pool[*j].ctx.solution.routes.len())
            .take(6)
            .collect();
        for (i, j) in pairs {
            let mut slots = vec![pool[i].ctx.deep_copy(), pool[j].ctx.deep_copy()];
            let fit = |c: &InsertionContext| goal.fitness(c).collect::<Vec<f64>>();
            let (f0, f1) = (fit(&slots[0]), fit(&slots[1]));
            // last question went to slot 1; now slot 1 holds the other solution
            slots.swap(0, 1);
            let (g1, g0) = (fit(&slots[1]), fit(&slots[0]));
            let ord_before = goal.total_order(&slots[1], &slots[0]);
            slots.swap(0, 1);
            let ord_after = goal.total_order(&slots[0], &slots[1]);
            run.eval();
            run.observe("goal.fitness", "asked again after two solutions changed places in memory");
            let same = |a: &[f64], b: &[f64]| a.len() == b.len() && a.iter().zip(b.iter()).all(|(x, y)| x.to_bits() == y.to_bits());
            if !same(&g1, &f0) || !same(&g0, &f1) || ord_before != ord_after {
                run.violation(
                    &format!("C09|goal|{class}|fitness-follows-the-address-not-the-solution"),
                    &format!("solutions {i} and {j} of the pool swapped in memory: fitness {f0:?} / {f1:?} before, {g1:?} / {g0:?} after; total_order {ord_before:?} before the second swap, {ord_after:?} after it"),
                    json!({"part": "goal", "case_seed": case_seed, "kind": kind, "objectives": info.objectives, "problem": doc, "pool_indices": [i, j],
                        "fitness_before": [f0, f1], "fitness_after_swap": [g1, g0], "orders": [format!("{ord_before:?}"), format!("{ord_after:?}")]}),
                );
                break;
            }
        }
    }
    let alts = alternative_goals(problem.goal.as_ref());
    run.observe("goal.alternatives-per-problem", &format!("{}", alts.len()));
    for (k, alt) in alts.iter().enumerate() {
        check_goal(run, &info, "alternative", &format!("alternative#{k}"), alt, true, None, &pool);
    }
    run.observe("goal.case", kind);
    run.observe("goal.objectives-list", &spec.label);
    for t in &spec.types {
        run.observe("goal.objective", t);
    }
    if let Some(list) = spec.json.as_ref().and_then(|j| j.as_array()) {
        for o in list.iter().filter(|o| o["type"] == "multi-objective") {
            run.observe("goal.multi-strategy", o["strategy"]["name"].as_str().unwrap_or("?"));
            for inner in o["objectives"].as_array().into_iter().flatten() {
                run.observe("goal.objective-in-multi", inner["type"].as_str().unwrap_or("?"));
            }
        }
    }
    run.observe("goal.pool-size", &format!("{:>2}", pool.len()));
    if pool.iter().any(|s| !s.ctx.solution.unassigned.is_empty() && !s.ctx.solution.routes.is_empty()) {
        run.observe("goal.pool", "has-partially-assigned-solution");
    }
    let route_counts: HashSet<usize> = pool.iter().map(|s| s.ctx.solution.routes.len()).collect();
    if route_counts.len() > 1 {
        run.observe("goal.pool", "tour-counts-differ");
    }
    if nontrivial {
        run.nontrivial(&format!("goal|{doc}"));
    }
    Some(doc)
}


// ---------------------------------------------------------------------------------------------------------------
// part 3b: synthetic goals – the real `GoalBuilder::add_single` / `Goal::total_order` over hand-made fitness values

struct SyntheticFitnessKey;

struct StateObjective {
    idx: usize,
}

impl FeatureObjective for StateObjective {
    fn fitness(&self, solution: &InsertionContext) -> f64 {
        solution.solution.state.get_value::<SyntheticFitnessKey, Vec<f64>>().and_then(|v| v.get(self.idx).copied()).unwrap_or(0.)
    }

    fn estimate(&self, _: &MoveContext<'_>) -> f64 {
        0.
    }
}

/// `layout[k] = m` means: layer k consists of m objectives (m = 1: `add_single`; m > 1: `add_multi` with the
/// dominance comparator the pragmatic reader uses for `multi-objective`).
fn synthetic_goal(layout: &[usize]) -> Option<GoalContext> {
    let total: usize = layout.iter().sum();
    let objectives: Vec<Arc<dyn FeatureObjective>> = (0..total).map(|idx| Arc::new(StateObjective { idx }) as Arc<dyn FeatureObjective>).collect();
    let features = (0..total)
        .map(|idx| FeatureBuilder::default().with_name(&format!("synthetic{idx}")).with_objective(StateObjective { idx }).build())
        .collect::<Result<Vec<_>, _>>()
        .ok()?;
    let mut builder = GoalBuilder::default();
    let mut next = 0;
    for m in layout {
        if *m == 1 {
            builder = builder.add_single(objectives[next].clone());
        } else {
            builder = builder.add_multi(
                &objectives[next..next + m],
                |os, a, b| dominance_order(a, b, os.iter().map(|o| |a, b| o.fitness(a).total_cmp(&o.fitness(b)))),
                |_, _| 0.,
            );
        }
        next += m;
    }
    GoalContextBuilder::with_features(&features).ok()?.set_main_goal(builder.build().ok()?).build().ok()
}

fn synthetic_problem() -> Option<Arc<Problem>> {
    let text = "TINY\n\nVEHICLE\nNUMBER     CAPACITY\n  2         10\n\nCUSTOMER\nCUST NO.  XCOORD.   YCOORD.    DEMAND   READY TIME  DUE DATE   SERVICE   TIME\n\n    0      0         0          0          0       1000          0\n    1      1         0          1          0       1000          1\n    2      0         1          1          0       1000          1\n";
    text.to_string().read_solomon(false).ok().map(Arc::new)
}

fn synthetic_pool(problem: &Arc<Problem>, env: &Arc<Environment>, vectors: &[Vec<f64>]) -> Vec<Sol> {
    vectors
        .iter()
        .map(|v| {
            let mut ctx = InsertionContext::new_empty(problem.clone(), env.clone());
            ctx.solution.state.set_value::<SyntheticFitnessKey, Vec<f64>>(v.clone());
            Sol { ctx, origin: format!("synthetic fitness {v:?}"), twin_of: None }
        })
        .collect()
}

fn synthetic_check(run: &Run, problem: &Arc<Problem>, env: &Arc<Environment>, layout: &[usize], vectors: &[Vec<f64>], case_seed: u64) {
    let Some(goal) = synthetic_goal(layout) else {
        run.inconclusive("cannot build synthetic goal");
        return;
    };
    let pool = synthetic_pool(problem, env, vectors);
    let single = layout.iter().all(|m| *m == 1);
    let class = if single { "synthetic-single-layer" } else { "synthetic-multi-layer" };
    let info = CaseInfo { case_seed, kind: "synthetic", doc: "", spec_label: "synthetic", objectives: json!({"layout": layout}) };
    let types: Vec<String> = (0..layout.len()).map(|k| format!("synthetic-layer{k}")).collect();
    let nontrivial = check_goal(run, &info, class, "synthetic", &goal, single, Some(&types), &pool);
    for (k, alt) in alternative_goals(&goal).iter().enumerate() {
        check_goal(run, &info, "synthetic-alternative", &format!("synthetic-alternative#{k}"), alt, true, None, &pool);
    }
    run.observe("synthetic.layout", &format!("{layout:?}"));
    if nontrivial {
        run.nontrivial(&format!("synthetic|{layout:?}|{}", pool_key(vectors)));
    }
}

/// A minimize-unassigned objective with a job estimator whose weights are not exactly representable (the pragmatic
/// `breaks` weight is such an estimator) over solutions with many unassigned jobs: the fitness is a float sum, every law
/// has to hold for it as for any other objective.
fn weighted_unassigned_goals(run: &Run) {
    use vrp_core::construction::features::MinimizeUnassignedBuilder;
    use vrp_core::models::problem::JobIdDimension;
    let env = Arc::new(Environment::new(Arc::new(DefaultRandom::default()), None, Default::default(), Arc::new(|_: &str| {}), false));
    for n in [5usize, 12, 40] {
        let mut text = String::from("WEIGHTED\n\nVEHICLE\nNUMBER     CAPACITY\n  3         50\n\nCUSTOMER\nCUST NO.  XCOORD.   YCOORD.    DEMAND   READY TIME  DUE DATE   SERVICE   TIME\n\n    0      0         0          0          0       1000          0\n");
        for i in 1..=n {
            text.push_str(&format!("    {i}      {}         {}          1          0       1000          1\n", i % 7, i % 5));
        }
        let Some(problem) = text.read_solomon(false).ok().map(Arc::new) else {
            run.inconclusive("cannot build the carrier problem for weighted unassigned goals");
            return;
        };
        let weights = [1.0, 0.1, 0.7, 0.3];
        let built = MinimizeUnassignedBuilder::new("min-unassigned-weighted")
            .set_job_estimator(move |_, job| {
                let id = job.dimens().get_job_id().cloned().unwrap_or_default();
                weights[id.bytes().map(|b| b as usize).sum::<usize>() % weights.len()]
            })
            .build()
            .ok()
            .and_then(|feature| GoalContextBuilder::with_features(&[feature]).ok()?.build().ok());
        let Some(goal) = built else {
            run.inconclusive("cannot build a goal with a weighted unassigned estimator");
            return;
        };
        // pool: nothing assigned (all jobs unassigned), and the same with the first k jobs taken out of every list
        let mut pool = Vec::new();
        for k in [0usize, 1, 2, n / 2] {
            let mut ctx = InsertionContext::new(problem.clone(), env.clone());
            let drop: Vec<_> = ctx.solution.required.iter().take(k).cloned().collect();
            ctx.solution.required.retain(|j| !drop.contains(j));
            for j in drop.iter() {
                ctx.solution.unassigned.remove(j);
            }
            let twin = ctx.deep_copy();
            pool.push(Sol { ctx, origin: format!("{} of {n} jobs unassigned", n - k), twin_of: None });
            pool.push(Sol { ctx: twin, origin: format!("deep copy: {} of {n} jobs unassigned", n - k), twin_of: Some((pool.len() - 1, "deep-copy")) });
        }
        let info = CaseInfo { case_seed: n as u64, kind: "weighted-unassigned", doc: "", spec_label: "weighted-unassigned", objectives: json!({"jobs": n, "weights": weights}) };
        for _ in 0..5 {
            check_goal(run, &info, "weighted-unassigned", "min-unassigned with weights 1/0.1/0.7/0.3", &goal, true, None, &pool);
        }
        run.observe("weighted_unassigned_goals", &format!("{n} jobs"));
    }
}

fn synthetic_goals(run: &Run) {
    weighted_unassigned_goals(run);
    let env = Arc::new(Environment::new(Arc::new(DefaultRandom::default()), None, Default::default(), Arc::new(|_: &str| {}), false));
    let Some(problem) = run.guard(synthetic_problem).ok().flatten() else {
        run.inconclusive("cannot build the carrier problem for synthetic goals");
        return;
    };
    let alphabet = [-1.0, -0.0, 0.0, 1.0, DENORMAL, HUGE];
    for layers in 1..=3usize {
        let vectors: Vec<Vec<f64>> = all_vectors(&alphabet, layers).into_iter().filter(|v| v.len() == layers).collect();
        synthetic_check(run, &problem, &env, &vec![1; layers], &vectors, 0);
    }
    let small = [-1.0, -0.0, 0.0, 1.0];
    for layout in [vec![2usize], vec![1, 2], vec![2, 1], vec![3], vec![1, 2, 1], vec![2, 2]] {
        let total: usize = layout.iter().sum();
        let vectors: Vec<Vec<f64>> = all_vectors(&small, total).into_iter().filter(|v| v.len() == total).collect();
        synthetic_check(run, &problem, &env, &layout, &vectors, 0);
    }
    run.note("synthetic_exhaustive", json!("single-objective goals with 1..=3 layers: ALL fitness vectors over {-1,-0,+0,1,5e-324,1e300}, all ordered pairs and triples; mixed layouts [2],[1,2],[2,1],[3],[1,2,1],[2,2] over {-1,-0,+0,1}: all ordered pairs"));
    let cases = run.by_tier(300u64, 6_000);
    par_for(8, cases, &|| !run.has_time_frac(0.45), &|i| {
        let case_seed = mix(run.seed ^ 0x5157, i);
        let mut rng = Rng::new(case_seed);
        let values = [-2.0, -1.0, -0.0, 0.0, 1.0, 2.0, 0.5, TINY, DENORMAL, -DENORMAL, HUGE, -HUGE];
        let layers = rng.range_usize(1, 7);
        let layout: Vec<usize> = if rng.chance(0.7) { vec![1; layers] } else { (0..layers.min(4)).map(|_| if rng.chance(0.4) { rng.range_usize(2, 3) } else { 1 }).collect() };
        let total: usize = layout.iter().sum();
        let mut vectors: Vec<Vec<f64>> = vec![];
        for _ in 0..rng.range_usize(12, 36) {
            if vectors.is_empty() || rng.chance(0.4) {
                vectors.push((0..total).map(|_| *rng.pick(&values)).collect());
            } else {
                // shares a prefix with an existing vector so that deeper layers decide
                let mut v = rng.pick(&vectors).clone();
                let from = rng.usize_below(total);
                for x in v.iter_mut().skip(from) {
                    if rng.chance(0.6) {
                        *x = *rng.pick(&values);
                    }
                }
                if rng.chance(0.3) {
                    if let Some(pos) = v.iter().position(|x| *x == 0.) {
                        v[pos] = -v[pos];
                    }
                }
                vectors.push(v);
            }
        }
        synthetic_check(run, &problem, &env, &layout, &vectors, case_seed);
    });
}

fn replay(run: &Run, path: &std::path::Path) {
    let Some(doc) = std::fs::read_to_string(path).ok().and_then(|t| serde_json::from_str::<Value>(&t).ok()) else {
        run.inconclusive("cannot read replay artefact");
        return;
    };
    let art = doc.get("artefact").cloned().unwrap_or(Value::Null);
    match art.get("part").and_then(|p| p.as_str()) {
        Some("insertion-cost") => ic_replay(run, &art),
        Some("dominance") => {
            if let (Some(a), Some(b)) = (art.get("x").and_then(bits_from_json), art.get("y").and_then(bits_from_json)) {
                dominance_pair(run, &a, &b);
            }
        }
        Some("goal") if art.get("kind").and_then(|k| k.as_str()) == Some("synthetic") => {
            let vectors: Vec<Vec<f64>> = ["a", "b", "c"].iter().filter_map(|k| art.get(*k).and_then(|s| s.get("fitness")).and_then(bits_from_json)).collect();
            let layout: Vec<usize> = art["objectives"]["layout"].as_array().map(|l| l.iter().filter_map(|x| x.as_u64()).map(|x| x as usize).collect()).unwrap_or_default();
            let env = Arc::new(Environment::new(Arc::new(DefaultRandom::default()), None, Default::default(), Arc::new(|_: &str| {}), false));
            // the recorded fitness is the one reported by the goal under test; an alternative goal reports a different layout
            let is_alt = art.get("goal").and_then(|g| g.as_str()).is_some_and(|g| g.contains("alternative"));
            match (synthetic_problem(), vectors.is_empty() || layout.is_empty() || is_alt) {
                (Some(problem), false) => {
                    println!("replaying synthetic goal {layout:?} on {} recorded fitness vectors", vectors.len());
                    synthetic_check(run, &problem, &env, &layout, &vectors, 0);
                }
                _ => {
                    println!("synthetic artefact of an alternative goal: re-running the exhaustive synthetic part");
                    synthetic_goals(run);
                }
            }
        }
        Some("goal") => {
            let seed = art.get("case_seed").and_then(|s| s.as_u64()).unwrap_or(0);
            println!("replaying goal case {seed}: the problem and goal are regenerated from the seed, solutions are re-harvested (best effort, up to 5 rounds)");
            for _ in 0..5 {
                let doc = goal_case(run, seed);
                if doc.as_deref() != art.get("problem").and_then(|p| p.as_str()) {
                    run.inconclusive("the problem regenerated from case_seed differs from the recorded one (generator changed since the artefact was written)");
                    break;
                }
                if run.violation_count() > 0 {
                    break;
                }
            }
        }
        _ => run.inconclusive("unknown artefact kind"),
    }
}

fn main() {
    let run = Run::from_args("C09", "exploration", RULE, 45, 420);
    if let Some(path) = run.replay.clone() {
        replay(&run, &path);
        run.finish();
    }
    run.assume("cost and fitness components are finite or +-MAX; NaN and infinities are outside the alphabet (a NaN fitness component makes the lexicographic oracle undefined: counted inconclusive, laws still checked)");
    run.assume("the mutual order of +0 and -0 inside InsertionCost is left open by the property: at such a position both strict answers and 'continue' are permitted; all order laws are still asserted on those values");
    run.assume("the add/sub inverse law is asserted only where every sum/difference is exactly representable (multiples of 2^-m with |k| < 2^min(40,51-m), y = 0, small integers); the element-wise oracle is asserted for all finite operands");
    run.assume("solutions are harvested by the repo's own operators and are not reproducible from the seed; the problem, the objective list and the operator sequence are");
    run.assume("no tolerance: neither goal.rs nor the pragmatic objective model at the pinned commit has an epsilon/tolerance parameter (the docs mention fast-service 'tolerance' and compact-tour 'threshold/distance', the model does not accept them), so fitness is compared exactly");

    // part 1
    ic_exhaustive(&run);
    let t_exhaustive = run.elapsed().as_secs_f64();
    let ic_cases = run.by_tier(30_000u64, 1_500_000);
    par_for(16, ic_cases, &|| !run.has_time_frac(0.25), &|i| ic_random_case(&run, mix(run.seed, i)));
    // part 2
    dominance_checks(&run);
    // part 3b
    synthetic_goals(&run);
    // part 3
    let t_part3 = run.elapsed().as_secs_f64();
    let goal_cases = run.by_tier(2_500u64, 60_000);
    par_for(4, goal_cases, &|| !run.has_time(), &|i| {
        goal_case(&run, mix(run.seed ^ 0x9E37_79B9, 1_000_000 + i));
    });

    run.note("phase_seconds", json!({"ic_exhaustive": t_exhaustive, "ic_random+dominance+synthetic": t_part3 - t_exhaustive, "goal": run.elapsed().as_secs_f64() - t_part3}));
    run.floor("evaluations", run.evaluations(), 1_000_000);
    run.floor("insertion-cost random pools", run.observed("ic.family", "random-pool"), 500);
    run.floor("insertion-cost vectors longer than inline capacity", (7..=9).map(|l| run.observed("ic.length", &format!("{l}"))).sum(), 500);
    run.floor("insertion-cost pools with negative zero", run.observed("ic.pool", "has-negative-zero"), 100);
    run.floor("insertion-cost add", run.observed("ic.api", "add"), 10_000);
    run.floor("insertion-cost sub", run.observed("ic.api", "sub"), 10_000);
    run.floor("insertion-cost inverse law", run.observed("ic.law", "add-sub-inverse(exact operands)"), 10_000);
    run.floor("insertion-cost trailing zeros across inline capacity", run.observed("ic.law", "trailing-zeros(crossing inline capacity)"), 100);
    for o in ["Less", "Equal", "Greater"] {
        run.floor(&format!("insertion-cost ordering {o}"), run.observed("ic.ordering", o), 1000);
        run.floor(&format!("dominance ordering {o}"), run.observed("dominance.ordering", o), 100);
        run.floor(&format!("goal ordering {o}"), run.observed("goal.ordering", o), 1000);
    }
    let min_cases = run.by_tier(40, 400);
    run.floor("goal cases (pragmatic)", run.observed("goal.case", "pragmatic"), min_cases);
    run.floor("goal class single-layer", run.observed("goal.class", "single-layer"), min_cases / 2);
    run.floor("goal class multi-layer", run.observed("goal.class", "multi-layer"), min_cases / 10);
    run.floor("goal class alternative", run.observed("goal.class", "alternative"), min_cases / 2);
    run.floor("goal pairs decided below the first layer", (1..12).map(|l| run.observed("goal.decided-at-layer", &format!("{l}"))).sum(), 1000);
    run.floor("goal pools with partially assigned solutions", run.observed("goal.pool", "has-partially-assigned-solution"), min_cases / 4);
    for name in [
        "RecreateWithCheapest", "RecreateWithRegret", "RecreateWithGaps", "RecreateWithBlinks", "RecreateWithFarthest",
        "RecreateWithNearestNeighbor", "RecreateWithSkipBest", "RecreateWithSlice", "RecreateWithPerturbation", "RecreateWithSkipRandom",
        "ruin-only-finalised", "empty-solution", "deep-copy", "deep-copy-restore",
    ] {
        run.floor(&format!("goal origin {name}"), run.observed("goal.origin", name), min_cases / 2);
    }
    if !run.is_quick() {
        for t in [
            "minimize-unassigned", "minimize-tours", "maximize-tours", "minimize-cost", "minimize-distance", "minimize-duration", "maximize-value",
            "balance-max-load", "balance-activities", "balance-distance", "balance-duration", "tour-order", "compact-tour", "fast-service",
            "minimize-arrival-time", "multi-objective",
        ] {
            run.floor(&format!("goal objective {t}"), run.observed("goal.objective", t), 5);
        }
        run.floor("goal multi strategy sum", run.observed("goal.multi-strategy", "sum"), 5);
        run.floor("goal multi strategy weighted-sum", run.observed("goal.multi-strategy", "weighted-sum"), 5);
        run.floor("goal cases (solomon)", run.observed("goal.case", "solomon"), 5);
    }
    run.floor("goal cases dated 1970-01-01 with fractional service times (sums depend on their order)", run.observed("goal.time-base", "1970-01-01 (fractional schedule values)"), 50);
    run.floor("synthetic single-layer goals", run.observed("goal.class", "synthetic-single-layer"), 50);
    run.floor("synthetic multi-layer goals", run.observed("goal.class", "synthetic-multi-layer"), 20);
    run.floor("synthetic pools holding both zero signs in one layer", run.observed("goal.fitness", "layer-with-both-zero-signs-in-pool"), 50);
    run.floor("distinct non-trivial cases", run.distinct_nontrivial(), 20);
    run.finish();
}
