//! C03 – reported schedule, load, distance and cost are reproducible: O1 replays each tour from
//! (visiting order, first departure) and compares every reported number (DESIGN.md §3 C03, src/solvecheck.rs).
use vverif::Run;
use vverif::solvecheck::{replay_artefact, run_end_to_end};

fn main() {
    let run = Run::from_args(
        "C03",
        "exploration",
        "case = seeded pragmatic problem (G1, biased to several activities per stop, waiting, scaled profiles, reload legs, open ends, multi-place tasks with \
         tags sharing a location) x seeded solver config (G2) solved through the CLI config path. Oracle: O1 recomputes per stop arrival/departure (+-1 s), per-stop \
         load (exact), cumulative distance (exact on integral matrices), tour distance/duration, driving/serving/waiting/break split, cost = fixed + distance*cd + \
         duration*ct, overall statistic = sum of tours, and that the reported place tag belongs to a place whose (location, duration, window) explains the reported \
         interval. Non-trivial = at least one tour and (a hard rule binding or a job unassigned); distinct by (problem shape, config shape).",
        75,
        600,
    );
    if let Some(path) = run.replay.clone() {
        replay_artefact(&run, "C03", &path);
        run.finish();
    }
    run.assume("a quarter of the cases uses geo coordinates without matrices: O1 is then given the provider's own approximation (checked independently by C16) and maps locations to indices in the documented first-appearance order");
    run.assume("integral matrices and durations; times compared within the one-unit rounding of the output format, fractional profile scale widens the per-leg split tolerance");
    run.assume("tours containing transit stops, commute or recharge are only checked for per-stop consistency (none are generated here)");
    run_end_to_end(&run, "C03");
    run.floor("solves judged by O1", run.evaluations(), run.by_tier(60, 400));
    run.floor("distinct non-trivial (problem shape, config shape) pairs", run.distinct_nontrivial(), 20);
    run.floor("tour statistics recomputed", run.observed("rule_evaluated", "tour-statistic"), 100);
    run.floor("stop loads recomputed", run.observed("rule_evaluated", "stop-load"), 100);
    for f in ["scale", "multi-places", "sparse-place-tags", "time-offsets", "open-end", "reloads", "coordinates"] {
        run.floor(&format!("feature '{f}' in workload"), run.observed("features", f), 3);
    }
    run.finish();
}
