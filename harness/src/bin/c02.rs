//! C02 – every job is accounted for exactly once: conservation checker of O1 over end-to-end solves
//! (DESIGN.md §3 C02, src/solvecheck.rs).
use vverif::Run;
use vverif::solvecheck::{replay_artefact, run_end_to_end};

fn main() {
    let run = Run::from_args(
        "C02",
        "exploration",
        "case = seeded pragmatic problem (G1, biased to multi-task jobs, reload markers, breaks, >= 8 jobs) x seeded solver config (G2, incl. decomposition, \
         LKH via dynamic heuristic, sequence exchange, swap-star) solved through the CLI config path. Oracle: O1's conservation checker: multiset of (job, task) over \
         all tours plus unassigned == plan, exactly; each job in one tour, pickups before deliveries, known vehicle/shift, one tour per shift, every tour serves a job, \
         special stops matched injectively to the definitions of that very shift, unassigned entries carry a reason. Non-trivial = at least one tour and \
         (a hard rule binding or a job unassigned); distinct by (problem shape, config shape).",
        75,
        600,
    );
    if let Some(path) = run.replay.clone() {
        replay_artefact(&run, "C02", &path);
        run.finish();
    }
    run.assume("O1 (src/replay.rs) identifies activities by job id, task type, location and tag; multi-task jobs carry unique place tags");
    run.assume("tours with vicinity clustering (commute), required breaks (transit stops) or recharge stops are judged for conservation and special-stop matching only; their times are not replayed");
    run_end_to_end(&run, "C02");
    run.floor("solves judged by O1", run.evaluations(), run.by_tier(60, 400));
    run.floor("distinct non-trivial (problem shape, config shape) pairs", run.distinct_nontrivial(), 20);
    run.floor("solutions with unassigned jobs", run.observed("rule_binding", "conservation"), 5);
    run.assume("relation phases: relations are sub-sequences of a feasible tour of the same problem solved without clustering (relation jobs are documented to stay outside clusters)");
    run.floor("relations phase (locked jobs)", run.observed("phase", "relations"), run.by_tier(5, 50));
    run.floor("relations on top of vicinity clustering", run.observed("phase", "relations+clustering"), run.by_tier(5, 50));
    for f in ["pickup-delivery", "reloads", "breaks", "mixed-job", "clustering", "clustering-filtering", "recharge", "required-breaks"] {
        run.floor(&format!("feature '{f}' in workload"), run.observed("features", f), 3);
    }
    run.finish();
}
