//! C15 – parallel evaluation results do not depend on how work is split.
//! (a) `PositionInsertionEvaluator::evaluate_all` (exhaustive legs, best-result selection) under rayon pools of different
//!     sizes, with yields/sleeps injected where rayon tasks interleave, against a plain sequential scan;
//! (b) full solves under every pools x threads layout judged by O1.
use serde_json::{Value, json};
use std::sync::atomic::{AtomicU64, Ordering};
use std::sync::{Arc, Mutex};
use vrp_core::construction::heuristics::*;
use vrp_core::models::problem::{Job, JobIdDimension, VehicleIdDimension};
use vrp_pragmatic::format::JobTypeDimension;
use vrp_core::prelude::*;
use vrp_core::rosomaxa::prelude::*;
use vrp_core::solver::search::*;
use vrp_core::solver::{GreedyPopulation, RefinementContext};
use vverif::pragen::{GenCfg, generate};
use vverif::solvecheck::{CaseOutcome, artefact, observe_report, solve_and_replay};
use vverif::solverun::{ReadOutcome, gen_config, read_problem};
use vverif::{Rng, Run, clip, mix, par_for};

/// Best-result selection + delay injection + recording of which rayon worker evaluated what.
struct DelaySelector {
    inner: BestResultSelector,
    calls: AtomicU64,
    salt: u64,
    per_thread: Mutex<Vec<u64>>,
}

impl DelaySelector {
    fn new(salt: u64) -> Self {
        Self { inner: BestResultSelector::default(), calls: AtomicU64::new(0), salt, per_thread: Mutex::new(vec![0; 65]) }
    }
}

impl ResultSelector for DelaySelector {
    fn select_insertion(&self, ctx: &InsertionContext, left: InsertionResult, right: InsertionResult) -> InsertionResult {
        let n = self.calls.fetch_add(1, Ordering::Relaxed);
        let h = mix(self.salt, n);
        if h % 8 == 0 {
            std::thread::yield_now();
        }
        if h % 97 == 0 {
            std::thread::sleep(std::time::Duration::from_micros(20 + h % 60));
        }
        let idx = rayon::current_thread_index().map_or(64, |i| i.min(63));
        self.per_thread.lock().unwrap()[idx] += 1;
        self.inner.select_insertion(ctx, left, right)
    }
}

fn job_id(job: &Job) -> String {
    job.dimens().get_job_id().cloned().unwrap_or_else(|| "?".into())
}

fn cost_vec(cost: &InsertionCost) -> Vec<f64> {
    cost.iter().collect()
}

fn evaluator_case(run: &Run, case_seed: u64) {
    let mut rng = Rng::new(case_seed);
    let mut cfg = GenCfg::default();
    cfg.min_jobs = 8;
    cfg.max_jobs = run.by_tier(30, 60);
    // bound (DESIGN D10): metric routing and objectives whose activity level estimates are >= 0: default objective list
    cfg.p_objectives = 0.0;
    cfg.p_values = 0.0;
    cfg.p_order = 0.0;
    cfg.p_unreachable = 0.0;
    // "with deterministic selection": multi-task jobs with more than one pickup or delivery are evaluated over randomly
    // sampled task permutations; only single-task jobs and pickup+delivery pairs (one fixed permutation) are offered
    let mut gp = generate(&mut rng, &cfg);
    // near ties: the first vehicle type gets three twins which differ only in the distance cost coefficient, by 2e-8
    // relative each, so that the same job is quoted with costs a few 1e-7 apart for their (empty) tours: a reducer which
    // is not an exact minimum (e.g. one comparing with a tolerance, which is not transitive) then depends on the work split
    let near_ties = rng.chance(0.4);
    if near_ties {
        if let Some(first) = gp.problem["fleet"]["vehicles"].get(0).cloned() {
            for i in 1..=3 {
                let mut twin = first.clone();
                twin["typeId"] = json!(format!("twin{i}"));
                twin["vehicleIds"] = json!([format!("twin{i}_0")]);
                let cd = twin["costs"]["distance"].as_f64().unwrap_or(1.0).max(0.5);
                twin["costs"]["distance"] = json!(cd * (1.0 + i as f64 * 2e-8));
                gp.problem["fleet"]["vehicles"].as_array_mut().unwrap().push(twin);
            }
            run.observe("evaluator_cases", "vehicle twins with near-tie cost coefficients");
        }
    } else {
        run.observe("evaluator_cases", "plain");
    }
    // a share of the cases minimises distance or duration instead of cost (G1's asymmetric matrices are metric, so the
    // activity level estimates stay >= 0, the premise of the evaluator's pruning)
    match rng.below(14) {
        0 | 1 => {
            gp.problem["objectives"] = json!([{"type": "minimize-unassigned"}, {"type": "minimize-tours"}, {"type": "minimize-distance"}]);
            run.observe("evaluator_objectives", "minimize-distance");
        }
        2 | 3 => {
            gp.problem["objectives"] = json!([{"type": "minimize-unassigned"}, {"type": "minimize-tours"}, {"type": "minimize-duration"}]);
            run.observe("evaluator_objectives", "minimize-duration");
        }
        // the rarely used opposite of minimize-tours: its estimate for a new tour is negative, but it is a route-level estimate,
        // which is what the evaluator's pruning compares with the best known alternative
        4 | 5 => {
            gp.problem["objectives"] = json!([{"type": "minimize-unassigned"}, {"type": "maximize-tours"}, {"type": "minimize-cost"}]);
            run.observe("evaluator_objectives", "maximize-tours, minimize-cost");
        }
        // goals whose first layer is not minimize-unassigned: the route-level estimate then starts with a positive term (the fixed
        // cost of an unused vehicle, +1 tour) instead of the -1 of the job, so a slip in the bound which the evaluator hands down from
        // the best alternative known so far is not hidden behind that leading component (seeded change C15j)
        6 | 7 => {
            gp.problem["objectives"] = json!([{"type": "minimize-tours"}, {"type": "minimize-cost"}]);
            run.observe("evaluator_objectives", "minimize-tours, minimize-cost (no minimize-unassigned)");
        }
        8 | 9 => {
            gp.problem["objectives"] = json!([{"type": "minimize-cost"}, {"type": "minimize-unassigned"}]);
            run.observe("evaluator_objectives", "minimize-cost, minimize-unassigned");
        }
        _ => run.observe("evaluator_objectives", "default (minimize-cost)"),
    }
    let ReadOutcome::Ok(problem) = read_problem(&gp) else {
        run.inconclusive("generated problem rejected by reader");
        return;
    };
    let env = Arc::new(Environment::new(Arc::new(DefaultRandom::default()), None, vrp_core::rosomaxa::utils::Parallelism::new(1, 2), Arc::new(|_: &str| {}), false));
    let built = vverif::guard(|| {
        let refinement_ctx = RefinementContext::new(problem.clone(), Box::new(GreedyPopulation::new(problem.goal.clone(), 1, None)), TelemetryMode::None, env.clone());
        let ctx = InsertionContext::new(problem.clone(), env.clone());
        let ctx = RecreateWithCheapest::new(env.random.clone()).run(&refinement_ctx, ctx);
        let limits = RemovalLimits { removed_activities_range: 3..12, affected_routes_range: 1..4 };
        RandomJobRemoval::new(limits).run(&refinement_ctx, ctx)
    });
    let Ok(ctx) = built else {
        run.inconclusive("state construction panicked (reported by C01/C04)");
        return;
    };
    if ctx.solution.required.is_empty() {
        run.inconclusive("ruin removed nothing");
        return;
    }
    let is_deterministic = |job: &&Job| match job {
        Job::Single(_) => true,
        Job::Multi(multi) => {
            let kinds: Vec<&str> = multi.jobs.iter().map(|s| s.dimens.get_job_type().map_or("?", |t| t.as_str())).collect();
            kinds == ["pickup", "delivery"]
        }
    };
    let jobs: Vec<&Job> = ctx.solution.required.iter().filter(is_deterministic).collect();
    if jobs.is_empty() {
        run.inconclusive("ruin removed only jobs with sampled permutations");
        return;
    }
    run.observe_n("offered_jobs", "single-task", jobs.iter().filter(|j| j.as_single().is_some()).count() as u64);
    run.observe_n("offered_jobs", "pickup+delivery pair", jobs.iter().filter(|j| j.as_multi().is_some()).count() as u64);
    let routes: Vec<&RouteContext> = ctx.solution.routes.iter().chain(ctx.solution.registry.next_route()).collect();
    let goal = &ctx.problem.goal;
    // sequential oracle: nested loops, every (job, route) evaluated on its own, lexicographic minimum of the costs
    let plain = BestResultSelector::default();
    let mut best: Option<(InsertionCost, String, String)> = None;
    let mut successes = 0u64;
    for job in jobs.iter() {
        for route_ctx in routes.iter() {
            let eval_ctx = EvaluationContext { goal, job, leg_selection: &LegSelection::Exhaustive, result_selector: &plain };
            if let InsertionResult::Success(s) = eval_job_insertion_in_route(&ctx, &eval_ctx, route_ctx, InsertionPosition::Any, InsertionResult::make_failure()) {
                successes += 1;
                if best.as_ref().is_none_or(|b| s.cost < b.0) {
                    best = Some((s.cost.clone(), job_id(&s.job), s.actor.vehicle.dimens.get_vehicle_id().cloned().unwrap_or_default()));
                }
            }
        }
    }
    run.observe("sequential_outcome", if best.is_some() { "success" } else { "failure" });
    let evaluator = PositionInsertionEvaluator::default();
    let pools = [1usize, 2, 3, 4, 7, 16];
    let reps = run.by_tier(4, 12);
    let mut partitions = std::collections::BTreeSet::new();
    for &threads in pools.iter() {
        let pool = rayon::ThreadPoolBuilder::new().num_threads(threads).build().expect("pool");
        for rep in 0..reps {
            let selector = DelaySelector::new(mix(case_seed, (threads * 1000 + rep) as u64));
            let result = vverif::guard(|| pool.install(|| evaluator.evaluate_all(&ctx, &jobs, &routes, &LegSelection::Exhaustive, &selector)));
            run.eval();
            run.observe("pool_threads", &threads.to_string());
            let part: Vec<u64> = selector.per_thread.lock().unwrap().iter().copied().filter(|c| *c > 0).collect();
            partitions.insert(format!("{threads}:{part:?}"));
            let describe = |r: &InsertionResult| match r {
                InsertionResult::Success(s) => json!({"kind": "success", "cost": cost_vec(&s.cost), "job": job_id(&s.job), "vehicle": s.actor.vehicle.dimens.get_vehicle_id()}),
                InsertionResult::Failure(f) => json!({"kind": "failure", "code": f.constraint.0}),
            };
            let art = |got: Value| {
                json!({"case_seed": case_seed, "threads": threads, "rep": rep, "shape": gp.shape(), "problem": gp.problem, "matrices": gp.matrices,
                    "sequential": best.as_ref().map(|b| json!({"cost": cost_vec(&b.0), "job": b.1, "vehicle": b.2})), "parallel": got,
                    "required": jobs.iter().map(|j| job_id(j)).collect::<Vec<_>>(), "routes": routes.len()})
            };
            match result {
                Err(p) => run.violation(&format!("C15|evaluate_all|panic|{}", p.file()), &format!("evaluate_all panicked under a {threads}-thread pool: {} at {}", p.message, p.location), art(p.to_json())),
                Ok(r) => match (&r, &best) {
                    (InsertionResult::Success(s), Some(b)) => {
                        // equal up to floating point noise: with fractional profile scales an insertion delta that is
                        // mathematically zero comes out as +-1e-14, and such a value can sit on either side of the
                        // evaluator's pruning comparison (thorough seed 13 showed -1.4e-14 vs -2.8e-14)
                        let (cv, bv) = (cost_vec(&s.cost), cost_vec(&b.0));
                        let n = cv.len().max(bv.len());
                        let same = (0..n).all(|i| {
                            let (x, y) = (cv.get(i).copied().unwrap_or(0.), bv.get(i).copied().unwrap_or(0.));
                            (x - y).abs() <= 1e-9 * x.abs().max(y.abs()).max(1.0)
                        });
                        if !same {
                            let dir = if s.cost > b.0 { "worse-than-sequential-minimum" } else { "better-than-sequential-minimum" };
                            run.violation(
                                &format!("C15|evaluate_all|cost-differs|{dir}"),
                                &format!("{threads}-thread pool chose cost {:?} (job {}), sequential minimum is {:?} (job {})", cost_vec(&s.cost), job_id(&s.job), cost_vec(&b.0), b.1),
                                art(describe(&r)),
                            );
                        }
                    }
                    (InsertionResult::Failure(_), None) => {}
                    (InsertionResult::Success(_), None) => run.violation("C15|evaluate_all|success-but-sequential-failure", &format!("{threads}-thread pool found an insertion, the sequential scan finds none"), art(describe(&r))),
                    (InsertionResult::Failure(_), Some(_)) => run.violation("C15|evaluate_all|failure-but-sequential-success", &format!("{threads}-thread pool found no insertion, the sequential scan finds {successes}"), art(describe(&r))),
                },
            }
        }
    }
    run.observe_n("distinct_thread_partitions", "total", partitions.len() as u64);
    if successes > 1 && routes.len() > 1 {
        run.nontrivial(&format!("eval|{case_seed}"));
    }
    if run.wants_sample() {
        run.sample(json!({"kind": "evaluate_all", "case_seed": case_seed, "problem_shape": gp.shape(), "required_jobs": jobs.len(), "routes_offered": routes.len(),
            "feasible_pairs": successes, "sequential_min_cost": best.as_ref().map(|b| cost_vec(&b.0)), "pools": pools, "repetitions": reps,
            "distinct_thread_partitions": partitions.len(), "partitions_sample": partitions.iter().take(4).collect::<Vec<_>>()}));
    }
}

fn solve_case(run: &Run, case_seed: u64, layout: (usize, usize)) {
    let mut rng = Rng::new(case_seed);
    let mut cfg = GenCfg::default();
    cfg.max_jobs = run.by_tier(25, 60);
    let gp = generate(&mut rng, &cfg);
    let (config, shape) = gen_config(&mut rng, run.by_tier(25, 80), Some(layout));
    let ReadOutcome::Ok(problem) = read_problem(&gp) else {
        run.inconclusive("generated problem rejected by reader");
        return;
    };
    match solve_and_replay(problem, &gp, &config) {
        CaseOutcome::Done(res) => {
            run.eval();
            observe_report(run, &res.report);
            run.observe("solve_layout", &shape.parallelism);
            // issues keep their O1 signature; the tag findings recorded under C03 are not re-reported here
            let mut seen = std::collections::BTreeSet::new();
            for is in res.report.issues.iter().filter(|i| !i.rule.starts_with("place-tag")) {
                let sig = format!("C15|solve|invalid|{}", is.signature());
                if let Some(what) = run.known_for(is.prop, &is.signature()) {
                    run.known_hit(&sig, &format!("(listed under {}) {what}", is.prop));
                    continue;
                }
                if seen.insert(sig.clone()) {
                    run.violation(&sig, &format!("layout {}: {}", shape.parallelism, clip(&is.detail, 300)), artefact(case_seed, &gp, &config, Some(&res.solution), json!({"rule": is.rule, "layout": shape.parallelism})));
                }
            }
            if res.report.tours > 0 {
                run.nontrivial(&format!("solve|{}|{}", gp.shape(), shape.key()));
            }
        }
        CaseOutcome::SolvePanic(p) => {
            run.eval();
            run.violation(&format!("C15|solve|panic|{}", p.file()), &format!("solver panicked under layout {}: {} at {}", shape.parallelism, p.message, p.location), artefact(case_seed, &gp, &config, None, p.to_json()));
        }
        CaseOutcome::SolveErr(e) => {
            run.eval();
            run.violation("C15|solve|error", &format!("solver returned an error under layout {}: {}", shape.parallelism, clip(&e, 200)), artefact(case_seed, &gp, &config, None, json!({"error": e})));
        }
        CaseOutcome::ReplayErr(e, s) => {
            run.eval();
            run.violation("C15|solve|solution-not-in-documented-format", &e, artefact(case_seed, &gp, &config, Some(&s), json!({"error": e})));
        }
        _ => {}
    }
}

fn main() {
    let run = Run::from_args(
        "C15",
        "exploration",
        "(a) case = generated problem (G1, default objectives, metric matrices) -> real recreate + random job removal -> InsertionContext with required jobs; \
         PositionInsertionEvaluator::evaluate_all (LegSelection::Exhaustive, best-result selection wrapped by a selector that yields/sleeps pseudo-randomly and records the rayon \
         worker of each evaluation) under pools of 1,2,3,4,7,16 threads x repetitions; oracle = nested sequential loop over jobs x routes calling eval_job_insertion_in_route with a \
         failure alternative and taking the lexicographic minimum: Success/Failure kind and the cost vector must agree (job/route identity may differ on ties). \
         (b) full solves under each pools x threads layout judged by O1. Non-trivial = >= 2 feasible (job, route) pairs and >= 2 routes offered (a), >= 1 tour (b); distinct by case.",
        70,
        600,
    );
    run.assume("metric routing and objective lists whose activity-level estimates are >= 0 (cost, distance, duration; minimize- and maximize-tours estimate at route level): the evaluator's pruning against the best known alternative is only claimed for those (DESIGN D10)");
    run.assume("evaluator clause: single-task jobs and pickup+delivery pairs only (jobs with several pickups or deliveries are evaluated over randomly sampled task permutations, which is not deterministic selection)");
    run.assume("cost vectors are compared component-wise within 1e-9 relative (floating point noise of mathematically zero deltas); identity of job/route is not compared because ties may resolve differently");
    if let Some(path) = run.replay.clone() {
        let doc: Value = serde_json::from_str(&std::fs::read_to_string(&path).unwrap_or_default()).unwrap_or(Value::Null);
        let a = &doc["artefact"];
        if a.get("sequential").is_some() {
            println!("replay: re-running the evaluator case of seed {}", a["case_seed"]);
            evaluator_case(&run, a["case_seed"].as_u64().unwrap_or(0));
        } else {
            vverif::solvecheck::replay_artefact(&run, "C15", &path);
        }
        run.finish();
    }
    let eval_cases = run.by_tier(2_000u64, 20_000);
    par_for(3, eval_cases, &|| !run.has_time_frac(0.55), &|i| evaluator_case(&run, mix(run.seed, i)));
    let layouts = [(1usize, 1usize), (1, 2), (2, 2), (4, 1), (3, 3), (8, 2), (2, 4), (1, 8), (16, 1), (1, 16)];
    let solve_cases = run.by_tier(500u64, 50_000);
    par_for(3, solve_cases, &|| !run.has_time(), &|i| solve_case(&run, mix(run.seed ^ 0x5151, i), layouts[(i as usize) % layouts.len()]));
    run.floor("evaluate_all runs compared", run.observed("pool_threads", "16"), 20);
    run.floor("distinct per-thread partitions observed", run.observed("distinct_thread_partitions", "total"), 50);
    run.floor("evaluator cases with near-tie costs (vehicle twins)", run.observed("evaluator_cases", "vehicle twins with near-tie cost coefficients"), 20);
    run.floor("pickup+delivery pairs offered to evaluate_all", run.observed("offered_jobs", "pickup+delivery pair"), 20);
    for o in ["minimize-distance", "minimize-duration", "maximize-tours, minimize-cost", "default (minimize-cost)"] {
        run.floor(&format!("evaluator cases under the objectives: {o}"), run.observed("evaluator_objectives", o), 20);
    }
    run.floor("sequential scans with a feasible insertion", run.observed("sequential_outcome", "success"), 10);
    for l in layouts.iter() {
        run.floor(&format!("solves under layout {}x{}", l.0, l.1), run.observed("solve_layout", &format!("{}x{}", l.0, l.1)), 2);
    }
    run.floor("distinct non-trivial cases", run.distinct_nontrivial(), 20);
    run.finish();
}
