//! C04 – every search step maps a consistent solution to a consistent one; the parent is left unchanged.
//!
//! Invariant monitor with call/return snapshots at the public trait boundary (`Ruin::run`, `Recreate::run`,
//! `LocalOperator::explore`, `HeuristicSearchOperator::search`, `HyperHeuristic::{search,search_many,diversify,diversify_many}`).
//! Workload G3 (histories.rs): a core `Problem` read from a generated pragmatic document (G1, optionally with relations
//! derived from a first solve so that locked jobs exist), s0 = random recreate on `InsertionContext::new`, then a seeded
//! history of 5-60 steps drawn from all shipped operators. Per step:
//!   (P)   dump(parent) before == dump(parent) after;
//!   Inv   (i) every job in exactly one place with multiplicities, (ii) registry vs tours, (iii) multi-part jobs whole and
//!         pickups first, (iv) pinned jobs on their vehicle in their order  [histories::check_inv, on the dump];
//!         (v) what is assigned is feasible: the child is serialised with the public pragmatic writer and replayed by O1
//!         (not after a raw `Ruin::run`, whose contract is "jobs moved to required" without a state refresh).
//! A panic of an operator on a consistent input is a violation as well.

use serde_json::{Value, json};
use std::collections::BTreeMap;
use std::sync::atomic::{AtomicBool, Ordering};
use std::sync::{Arc, Mutex};
use std::time::{Duration, Instant};
use vrp_core::construction::heuristics::InsertionContext;
use vrp_core::models::Problem;
use vrp_core::rosomaxa::prelude::*;
use vrp_core::rosomaxa::evolution::HeuristicSolutionProcessing;
use vrp_core::rosomaxa::utils::Timer;
use vrp_core::solver::processing::AdvanceDeparture;
use vverif::histories::*;
use vverif::pragen::{GenCfg, PragProblem, generate};
use vverif::replay::{PProblem, check_relation_vehicles, check_relations_have_tours, replay_parsed};
use vverif::solvecheck::{CaseOutcome, derive_relations, observe_relations, solve_and_replay};
use vverif::solverun::{ReadOutcome, read_problem, simple_config};
use vverif::{Rng, Run, clip, mix};

/// O1 rules about the tag the solution *writer* reports for a place (recorded C03 findings place-tag-sibling /
/// place-tag-missing and their variants): they say nothing about the search step.
const IGNORED_O1_RULE_PREFIX: &str = "place-tag";

fn g3_cfg(rng: &mut Rng, thorough: bool) -> GenCfg {
    let mut c = GenCfg::default();
    let (lo, hi) = if thorough { *rng.pick(&[(10usize, 40usize), (10, 40), (30, 80), (80, 150)]) } else { *rng.pick(&[(10usize, 25usize), (15, 40)]) };
    c.min_jobs = lo;
    c.max_jobs = hi;
    c.p_multi_jobs = 0.8;
    c.p_groups = 0.3;
    c.p_compat = 0.3;
    c.p_order = 0.3;
    c.p_skills = 0.35;
    c.p_limits = 0.4;
    c.p_breaks = 0.55;
    c.p_reloads = 0.45;
    c.p_resources = 0.5;
    c.p_multi_shift = 0.3;
    c.always_tag = true;
    c
}

struct Case {
    case_seed: u64,
    thorough: bool,
    gp: PragProblem,
    problem: Arc<Problem>,
    pp: PProblem,
    facts: Facts,
}

/// Generates the case deterministically from its seed; the relation phase needs one solve (C01's procedure).
fn build_case(run: &Run, case_seed: u64, thorough: bool, rng: &mut Rng) -> Option<Case> {
    let gcfg = g3_cfg(rng, thorough);
    let mut gp = generate(rng, &gcfg);
    let mut problem = match read_problem(&gp) {
        ReadOutcome::Ok(p) => p,
        ReadOutcome::Err(codes, text) => {
            let head: String = text.chars().filter(|c| !c.is_ascii_digit()).take(90).collect();
            run.inconclusive(&format!("generated problem rejected by reader: {codes:?} {}", head.trim()));
            return None;
        }
        ReadOutcome::Panic(_) => {
            run.inconclusive("reader panic (reported by C01/C10)");
            return None;
        }
    };
    let want_relations = rng.chance(0.45);
    let mut rel_rng = rng.fork();
    if want_relations {
        let cfg = simple_config(rel_rng.range_usize(5, 25), 1, 4);
        match solve_and_replay(problem.clone(), &gp, &cfg) {
            CaseOutcome::Done(res) if res.report.is_clean() => {
                if let Ok(parsed) = PProblem::parse(&gp.problem, &gp.matrices) {
                    let rels = derive_relations(&mut rel_rng, &parsed, &res.report);
                    if !rels.is_empty() {
                        let mut gp2 = gp.clone();
                        gp2.problem["plan"]["relations"] = Value::Array(rels.clone());
                        gp2.features.insert("relations".into());
                        match read_problem(&gp2) {
                            ReadOutcome::Ok(p2) => {
                                observe_relations(run, &rels);
                                gp = gp2;
                                problem = p2;
                            }
                            _ => run.observe("relation_phase", "derived relations rejected by reader"),
                        }
                    } else {
                        run.observe("relation_phase", "no relation derivable");
                    }
                }
            }
            CaseOutcome::Done(_) => run.observe("relation_phase", "first solve not clean for O1 (C01-C03 matter)"),
            _ => run.observe("relation_phase", "first solve failed (C01 matter)"),
        }
    }
    let pp = match PProblem::parse(&gp.problem, &gp.matrices) {
        Ok(p) => p,
        Err(e) => {
            run.inconclusive(&format!("O1 cannot parse the generated problem: {}", clip(&e, 80)));
            return None;
        }
    };
    let facts = match Facts::new(problem.as_ref()) {
        Ok(f) => f,
        Err(e) => {
            run.inconclusive(&format!("problem facts ambiguous: {}", clip(&e, 80)));
            return None;
        }
    };
    Some(Case { case_seed, thorough, gp, problem, pp, facts })
}

/// (v): C01 and C03 issues of O1 on the serialised child, without the recorded writer findings.
fn o1_issues(pp: &PProblem, solution: &Value) -> Result<Vec<(String, String, String)>, String> {
    let mut rep = replay_parsed(pp, solution)?;
    check_relation_vehicles(pp, solution, &mut rep);
    check_relations_have_tours(pp, solution, &mut rep);
    // where O1 itself replaced the reported place by a sibling place (place-tag issue), the per-tour statistics it derives from
    // that sibling's duration/window (serving, waiting, duration, cost) are not a statement about the search step either
    let tour_of = |detail: &str| detail.split(':').next().unwrap_or("").to_string();
    let substituted: std::collections::BTreeSet<String> = rep.issues.iter().filter(|i| i.rule.starts_with(IGNORED_O1_RULE_PREFIX)).map(|i| tour_of(&i.detail)).collect();
    const DERIVED: &[&str] = &["times-serving", "times-waiting", "times-break", "tour-duration", "tour-cost"];
    Ok(rep
        .issues
        .iter()
        .filter(|i| (i.prop == "C01" || i.prop == "C03") && !i.rule.starts_with(IGNORED_O1_RULE_PREFIX))
        .filter(|i| !(DERIVED.contains(&i.rule.as_str()) && substituted.contains(&tour_of(&i.detail))))
        .map(|i| (i.rule.clone(), i.ctx.clone(), i.detail.clone()))
        .collect())
}

/// Result of clause (v) on one context.
enum Feasibility {
    /// (rule, ctx, detail) issues and the serialised solution.
    Judged(Vec<(String, String, String)>, Value),
    Undecided(String),
    WriterPanic(vverif::PanicInfo),
}

/// (v): serialise with the public writer, replay with O1. The tour duration limit is judged on the schedule with the
/// departure advanced by the solver's own standard post-processing (`AdvanceDeparture`, public): mid-search tours keep
/// the earliest departure and the limit only promises that a departure inside the start window exists which meets it.
fn feasibility(run: &Run, pp: &PProblem, ctx: &InsertionContext) -> Feasibility {
    let solution = match to_pragmatic(ctx) {
        Ok(Ok(s)) => s,
        Ok(Err(e)) => return Feasibility::Undecided(format!("writer returned an error: {}", clip(&e, 60))),
        Err(p) => return Feasibility::WriterPanic(p),
    };
    let mut issues = match o1_issues(pp, &solution) {
        Ok(i) => i,
        Err(e) => return Feasibility::Undecided(format!("O1 cannot replay a serialised context: {}", clip(&e, 60))),
    };
    if issues.iter().any(|i| i.0 == "max-duration") {
        let copy = ctx.deep_copy();
        let advanced = run.guard(move || AdvanceDeparture::default().post_process(copy));
        let still = match advanced.map(|a| to_pragmatic(&a)) {
            Ok(Ok(Ok(s2))) => o1_issues(pp, &s2).map(|i| i.iter().any(|x| x.0 == "max-duration")).unwrap_or(true),
            _ => true,
        };
        if still {
            run.observe("max_duration_judgement", "persists with advanced departure");
        } else {
            run.observe("max_duration_judgement", "met once the departure is advanced (not counted)");
            issues.retain(|i| i.0 != "max-duration");
        }
    }
    Feasibility::Judged(issues, solution)
}

struct StepLog {
    op: String,
    params: String,
    kind: &'static str,
    children: usize,
    moved: usize,
    changed: bool,
}

fn bucket(n: usize) -> &'static str {
    match n {
        0 => "0",
        1 => "1",
        2 => "2",
        3..=4 => "3-4",
        5..=8 => "5-8",
        _ => "9+",
    }
}

#[allow(clippy::too_many_arguments)]
fn artefact(case: &Case, history: &[StepLog], plan: &[String], step: usize, op: &Op, after_ruin: &Option<String>, extra: Value) -> Value {
    json!({
        "case_seed": case.case_seed,
        "thorough": case.thorough,
        "shape": case.gp.shape(),
        "step": step,
        "operator": {"name": op.name, "params": op.params, "kind": op.kind.as_str(), "previous_raw_ruin": after_ruin},
        "history": history.iter().map(|s| json!({"op": s.op, "params": s.params, "kind": s.kind, "children": s.children, "jobs_moved": s.moved, "changed": s.changed})).collect::<Vec<_>>(),
        "plan": plan,
        "facts": serde_json::to_value(&case.facts).unwrap_or(Value::Null),
        "problem": case.gp.problem,
        "matrices": case.gp.matrices,
        "extra": extra,
    })
}

/// Judges one child. Returns true when a violation was reported.
#[allow(clippy::too_many_arguments)]
fn judge_child(run: &Run, case: &Case, op: &Op, after_ruin: &Option<String>, parent: &InsertionContext, before: &Dump, child: &InsertionContext, mk_art: &dyn Fn(Value) -> Value) -> bool {
    run.eval();
    let cd = dump(child);
    let mut fired = false;
    let findings = check_inv(&case.facts, &cd, Some(&before.locked));
    run.observe_n("inv_clauses_evaluated", "i-conservation", case.facts.jobs.len() as u64);
    run.observe_n("inv_clauses_evaluated", "ii-registry", case.facts.actors.len() as u64);
    run.observe_n("inv_clauses_evaluated", "iii-multi-jobs-in-routes", cd.routes.iter().flat_map(|r| r.acts.iter()).filter(|a| a.of > 1 && a.sub == 0).count() as u64);
    run.observe_n("inv_clauses_evaluated", "iv-locked-jobs", cd.locked.len() as u64);
    let mut seen = std::collections::BTreeSet::new();
    for f in findings.iter() {
        let sig = if f.class.is_empty() { format!("C04|{}|op={}", f.clause, op.name) } else { format!("C04|{}|op={}|{}", f.clause, op.name, f.class) };
        if seen.insert(sig.clone()) {
            fired = true;
            run.violation(
                &sig,
                &format!("after {} [{}]{}: {}", op.name, clip(&op.params, 160), after_ruin.as_ref().map(|r| format!(" (previous raw ruin: {r})")).unwrap_or_default(), clip(&f.detail, 300)),
                mk_art(json!({"findings": findings, "parent_dump": before, "child_dump": cd})),
            );
        }
    }
    if !same_problem(parent, child) {
        fired = true;
        run.violation(
            &format!("C04|child-bound-to-other-problem|op={}", op.name),
            &format!("{} handed back a solution which is bound to another Problem/goal instance than its parent (a relaxed working copy leaked)", op.name),
            mk_art(json!({"parent_dump": before, "child_dump": cd})),
        );
    }
    // (v) feasibility of what is assigned: only for steps whose contract includes a state refresh
    if op.kind != OpKind::Ruin && !fired {
        match feasibility(run, &case.pp, child) {
            Feasibility::Judged(issues, solution) => {
                run.observe("feasibility_replays", "replayed");
                let mut seen = std::collections::BTreeSet::new();
                for (rule, ctx, detail) in issues.iter() {
                    // clause (v) is signed with the operator FAMILY: an infeasibility of the generic insertion machinery shows after
                    // whatever operator happened to insert (30+ variants); the exact operator is in `what`, the artefact and a table
                    let sig = format!("C04|infeasible-after|{}|kind={}", rule, op.kind.as_str());
                    run.observe("infeasible_after_by_operator", &format!("{}|{}", op.name, rule));
                    if seen.insert(sig.clone()) {
                        fired = true;
                        run.violation(
                            &sig,
                            &format!("after {} [{}]{}: O1 {rule} ({ctx}): {}", op.name, clip(&op.params, 160), after_ruin.as_ref().map(|r| format!(" (previous raw ruin: {r})")).unwrap_or_default(), clip(detail, 300)),
                            mk_art(json!({"o1_issues": issues.iter().map(|(r, c, d)| json!({"rule": r, "ctx": c, "detail": d})).collect::<Vec<_>>(), "parent_dump": before, "child_dump": cd, "child_solution": solution})),
                        );
                    }
                }
            }
            Feasibility::Undecided(why) => run.inconclusive(&why),
            Feasibility::WriterPanic(p) => {
                fired = true;
                run.violation(
                    &format!("C04|child-not-serialisable|op={}|{}", op.name, p.file()),
                    &format!("the public writer panicked on the solution returned by {}: {} at {}", op.name, clip(&p.message, 200), p.location),
                    mk_art(json!({"panic": p.to_json(), "parent_dump": before, "child_dump": cd})),
                );
            }
        }
    }
    fired
}

type Inflight = Mutex<BTreeMap<u64, (Instant, String)>>;

/// One history. Returns the number of violations reported.
fn run_case(run: &Run, case_idx: u64, case_seed: u64, thorough: bool, inflight: &Inflight, is_replay: bool) -> usize {
    // the watchdog covers the whole case, phase by phase (the first solve for the relations runs the whole solver)
    let mark = |phase: String| {
        inflight.lock().unwrap().insert(case_idx, (Instant::now(), format!("{phase} (case_seed {case_seed})")));
    };
    mark("case set-up: generation, reading, first solve for relations".to_string());
    let n = run_case_inner(run, case_seed, thorough, &mark, is_replay);
    inflight.lock().unwrap().remove(&case_idx);
    n
}

fn run_case_inner(run: &Run, case_seed: u64, thorough: bool, mark: &dyn Fn(String), is_replay: bool) -> usize {
    let mut rng = Rng::new(case_seed);
    let Some(case) = build_case(run, case_seed, thorough, &mut rng) else { return 0 };
    mark("operator construction and initial context".to_string());
    let (pools, threads) = *rng.pick(&[(1usize, 1usize), (1, 2), (1, 4), (2, 2)]);
    let experimental = rng.chance(0.5);
    let environment = new_environment(pools, threads, experimental);
    let mut cat = match Catalogue::new(case.problem.clone(), environment.clone(), &mut rng) {
        Ok(c) => c,
        Err(p) => {
            run.eval();
            run.violation(&format!("C04|panic|op=<operator construction>|{}", p.file()), &format!("constructing the shipped operators panicked: {} at {}", clip(&p.message, 200), p.location), json!({"case_seed": case_seed, "thorough": thorough, "panic": p.to_json(), "problem": case.gp.problem, "matrices": case.gp.matrices}));
            return 1;
        }
    };
    let (mut rctx, population) = new_refinement_ctx(case.problem.clone(), environment.clone(), &mut rng);
    let steps = if rng.chance(0.2) { rng.range_usize(5, 15) } else { rng.range_usize(15, 60) };
    let plan = gen_plan(&mut rng, &cat, steps);
    let plan_names: Vec<String> = plan.iter().map(|i| cat.ops[*i].name.clone()).collect();

    // s0: InsertionContext::new + a random recreate (step 0 is judged like any other step)
    let (p0, e0) = (case.problem.clone(), environment.clone());
    let mut cur = match run.guard(move || InsertionContext::new(p0, e0)) {
        Ok(c) => c,
        Err(p) => {
            run.eval();
            run.violation(&format!("C04|panic|op=InsertionContext::new|{}", p.file()), &format!("InsertionContext::new panicked: {} at {}", clip(&p.message, 200), p.location), json!({"case_seed": case_seed, "thorough": thorough, "panic": p.to_json(), "problem": case.gp.problem, "matrices": case.gp.matrices}));
            return 1;
        }
    };
    {
        // Inv of the very first context (everything unassigned, locked jobs in their tours)
        run.eval();
        let d0 = dump(&cur);
        let f0 = check_inv(&case.facts, &d0, None);
        if let Some(f) = f0.first() {
            run.violation(&format!("C04|{}|op=InsertionContext::new|{}", f.clause, f.class), &clip(&f.detail, 300), json!({"case_seed": case_seed, "thorough": thorough, "findings": f0, "child_dump": d0, "facts": serde_json::to_value(&case.facts).unwrap_or(Value::Null), "problem": case.gp.problem, "matrices": case.gp.matrices}));
            return 1;
        }
    }
    if !cur.solution.routes.is_empty() {
        // precondition: the tours InsertionContext::new builds from the relations have to be feasible themselves
        match feasibility(run, &case.pp, &cur) {
            Feasibility::Judged(issues, _) if issues.is_empty() => run.observe("initial_context", "tours from relations: feasible"),
            Feasibility::Judged(issues, _) => {
                run.inconclusive(&format!("precondition: initial tours built from the derived relations are not feasible ({})", issues[0].0));
                return 0;
            }
            _ => {
                run.inconclusive("precondition: initial tours built from the derived relations cannot be judged");
                return 0;
            }
        }
    }
    let first_recreate = {
        let recs = cat.indices_of(OpKind::Recreate);
        recs[rng.usize_below(recs.len())]
    };
    let mut full_plan = vec![first_recreate];
    full_plan.extend(plan.iter().copied());

    let mut history: Vec<StepLog> = Vec::new();
    let mut after_ruin: Option<String> = None;
    let mut violations = 0usize;
    let mut effective_steps = 0usize;
    let mut fed_initial = 0usize;
    let horizon = *rng.pick(&[30.0f64, 100.0, 400.0]);
    for (step, &idx) in full_plan.iter().enumerate() {
        if !is_replay && !run.has_time() && step > 0 && after_ruin.is_none() {
            break;
        }
        let (name, params, kind) = (cat.ops[idx].name.clone(), cat.ops[idx].params.clone(), cat.ops[idx].kind);
        let fanout = match (kind, name.ends_with("_many")) {
            (OpKind::HyperSearch, true) => rng.range_usize(2, 4),
            (OpKind::HyperDiversify, true) => rng.range_usize(16, 40),
            (OpKind::HyperDiversify, false) => 12,
            _ => 1,
        };
        let before = dump(&cur);
        mark(format!("step {step}: {name} [{}]", clip(&params, 120)));
        let result = cat.apply(idx, &rctx, &cur, fanout);
        mark(format!("judging step {step} ({name})"));
        let after = dump(&cur);
        let op = &cat.ops[idx];
        let mk_art = |extra: Value| artefact(&case, &history, &plan_names, step, op, &after_ruin, extra);

        // (P) parent observably unchanged
        run.eval();
        run.observe("op_calls", &name);
        if let Some(d) = diff(&before, &after) {
            violations += 1;
            run.violation(&format!("C04|parent-mutated|op={name}"), &format!("{name} [{}] changed the parent handed to it: {}", clip(&params, 160), clip(&d, 300)), mk_art(json!({"difference": d, "parent_before": before, "parent_after": after})));
        }
        let children = match result {
            Ok(c) => c,
            Err(p) => {
                violations += 1;
                let telemetry = if kind == OpKind::HyperSearch { cat.dynamic_telemetry_names().into_iter().rev().take(4).collect::<Vec<_>>() } else { vec![] };
                run.violation(
                    &format!("C04|panic|op={name}|{}", p.file()),
                    &format!("{name} [{}] panicked on a consistent input{}: {} at {}", clip(&params, 160), after_ruin.as_ref().map(|r| format!(" (previous raw ruin: {r})")).unwrap_or_default(), clip(&p.message, 200), p.location),
                    mk_art(json!({"panic": p.to_json(), "parent_dump": before, "dynamic_last_operators": telemetry})),
                );
                break;
            }
        };
        if children.is_empty() {
            run.observe("op_returned_nothing", &name);
        }
        let mut fired = violations > 0;
        let mut best_moved = 0usize;
        let mut any_changed = false;
        for child in children.iter() {
            let cd = dump(child);
            let (moved, changed) = change(&before, &cd);
            best_moved = best_moved.max(moved);
            any_changed |= changed;
            run.observe("op_children", &name);
            if changed {
                run.observe_n("op_jobs_moved", &name, moved as u64);
            }
            if judge_child(run, &case, op, &after_ruin, &cur, &before, child, &mk_art) {
                fired = true;
                violations += 1;
                if kind == OpKind::HyperSearch && !op.name.starts_with("Static") {
                    println!("  dynamic hyper-heuristic, last operators picked: {:?}", cat.dynamic_telemetry_names().into_iter().rev().take(fanout.max(1)).collect::<Vec<_>>());
                }
                break;
            }
        }
        if any_changed {
            run.observe("op_effective", &name);
            effective_steps += 1;
            run.nontrivial(&format!("{case_seed}|{step}|{name}"));
            if name == "DecomposeSearch" {
                run.observe("decompose_parent_routes", bucket(before.routes.len()));
            }
        }
        history.push(StepLog { op: name.clone(), params, kind: kind.as_str(), children: children.len(), moved: best_moved, changed: any_changed });
        if fired {
            break;
        }
        // continue the history from one of the children
        if !children.is_empty() {
            let k = rng.usize_below(children.len());
            cur = children.into_iter().nth(k).unwrap();
        }
        after_ruin = if kind == OpKind::Ruin { Some(after_ruin.map(|r| format!("{r}, {name}")).unwrap_or(name.clone())) } else { None };
        // let the population see the evolving solutions (operators look at statistics, selection phase, best known)
        if after_ruin.is_none() && (fed_initial < 4 || rng.chance(0.35)) {
            let copy = cur.deep_copy();
            // logical termination estimate: slow, medium or fast progress towards the end (drives the selection phases)
            let estimate = (fed_initial as f64 / horizon).min(1.0);
            let as_initial = fed_initial < 4;
            fed_initial += 1;
            let fed = run.guard(|| {
                // the first four solutions go in as initial ones (as the solver's initial phase does), the rest as offspring
                if as_initial {
                    rctx.on_initial(copy, Timer::start());
                } else {
                    rctx.on_generation(vec![copy], estimate, Timer::start());
                }
            });
            match fed {
                Ok(()) => run.observe("selection_phase", match rctx.selection_phase() {
                    SelectionPhase::Initial => "initial",
                    SelectionPhase::Exploration => "exploration",
                    SelectionPhase::Exploitation => "exploitation",
                }),
                Err(p) => {
                    run.inconclusive(&format!("population panicked while adding a solution (C08 matter): {}", p.file()));
                    break;
                }
            }
        }
    }
    if experimental {
        for n in cat.dynamic_telemetry_names() {
            run.observe("dynamic_operator_families", n.split('+').next_back().unwrap_or(&n));
        }
    }
    for f in case.gp.features.iter() {
        run.observe("features", f);
    }
    run.observe("population", &population);
    run.observe("parallelism", &format!("{pools}x{threads}"));
    run.observe("steps_per_history", match history.len() {
        0..=5 => "1-5",
        6..=15 => "6-15",
        16..=30 => "16-30",
        31..=45 => "31-45",
        _ => "46+",
    });
    run.observe("effective_steps_per_history", bucket(effective_steps));
    run.observe("jobs_per_problem", match case.gp.jobs {
        0..=20 => "<=20",
        21..=40 => "21-40",
        41..=80 => "41-80",
        _ => "81+",
    });
    if run.wants_sample() && history.len() > 3 {
        run.sample(json!({
            "case_seed": case_seed, "problem_shape": case.gp.shape(), "population": population, "locks": case.facts.locks.len(),
            "history": history.iter().map(|s| format!("{}{}", s.op, if s.changed { format!("(moved {})", s.moved) } else { "(-)".into() })).collect::<Vec<_>>(),
            "final": {"routes": cur.solution.routes.len(), "unassigned": cur.solution.unassigned.len(), "ignored": cur.solution.ignored.len(), "locked": cur.solution.locked.len(), "unassigned_codes": unassigned_codes(&cur)},
        }));
    }
    violations
}

fn replay(run: &Run, path: &std::path::Path) {
    let Ok(text) = std::fs::read_to_string(path) else {
        println!("INCONCLUSIVE cannot read {}", path.display());
        std::process::exit(2);
    };
    let doc: Value = serde_json::from_str(&text).unwrap_or(Value::Null);
    let a = &doc["artefact"];
    let op = a["operator"]["name"].as_str().unwrap_or("?").to_string();
    let kind = a["operator"]["kind"].as_str().unwrap_or("?").to_string();
    let extra = &a["extra"];
    println!("replay: recorded signature {}", doc["signature"]);
    // 1. the deterministic oracle on the recorded dumps
    run.eval();
    if let (Ok(facts), Ok(child)) = (serde_json::from_value::<Facts>(a["facts"].clone()), serde_json::from_value::<Dump>(extra["child_dump"].clone())) {
        let parent: Option<Dump> = serde_json::from_value(extra["parent_dump"].clone()).ok();
        let findings = check_inv(&facts, &child, parent.as_ref().map(|p| p.locked.as_slice()));
        println!("replay: Inv (i)-(iv) on the recorded child dump: {} finding(s)", findings.len());
        for f in findings.iter() {
            println!("  {} [{}] {}", f.clause, f.class, clip(&f.detail, 300));
            let sig = if f.class.is_empty() { format!("C04|{}|op={op}", f.clause) } else { format!("C04|{}|op={op}|{}", f.clause, f.class) };
            run.violation(&sig, &clip(&f.detail, 300), json!({"replayed_from": path.display().to_string()}));
        }
    }
    if let (Ok(before), Ok(after)) = (serde_json::from_value::<Dump>(extra["parent_before"].clone()), serde_json::from_value::<Dump>(extra["parent_after"].clone())) {
        if let Some(d) = diff(&before, &after) {
            println!("replay: recorded parent dumps differ: {d}");
            run.violation(&format!("C04|parent-mutated|op={op}"), &clip(&d, 300), json!({"replayed_from": path.display().to_string()}));
        }
    }
    if !extra["child_solution"].is_null() {
        let matrices: Vec<Value> = a["matrices"].as_array().cloned().unwrap_or_default();
        if let Ok(pp) = PProblem::parse(&a["problem"], &matrices) {
            // everything O1 says about the recorded solution (all properties, for triage) ...
            if let Ok(rep) = replay_parsed(&pp, &extra["child_solution"]) {
                for i in rep.issues.iter() {
                    println!("replay: O1 (unfiltered) {} {}", i.signature(), clip(&i.detail, 300));
                }
            }
            // ... and what counts for C04 (v)
            match o1_issues(&pp, &extra["child_solution"]) {
                Ok(issues) => {
                    println!("replay: O1 on the recorded child solution: {} issue(s)", issues.len());
                    for (rule, ctx, detail) in issues.iter() {
                        println!("  {rule} ({ctx}) {}", clip(detail, 300));
                        run.violation(&format!("C04|infeasible-after|{rule}|kind={kind}"), &clip(detail, 300), json!({"replayed_from": path.display().to_string()}));
                    }
                }
                Err(e) => println!("replay: O1 cannot replay the recorded solution: {e}"),
            }
        }
    }
    // 2. best effort: the same case (same problem, same operator plan; the solver's own random stream differs)
    if let Some(seed) = a["case_seed"].as_u64() {
        let thorough = a["thorough"].as_bool().unwrap_or(false);
        let inflight: Inflight = Mutex::new(BTreeMap::new());
        let mut hits = 0;
        for k in 0..5 {
            hits += run_case(run, k, seed, thorough, &inflight, true);
        }
        println!("replay: best-effort re-run of case_seed {seed} x5 (solver randomness is not seedable): {hits} violation report(s)");
    }
}

fn main() {
    let run = Run::from_args(
        "C04",
        "exploration",
        "G3 operator histories: a core Problem read from a seeded generated pragmatic document (10-40 jobs, thorough up to 150; multi-task jobs, groups, \
         compatibility, order, skills, limits, breaks, reloads incl. shared resources, multi-shift; ~45% with relations derived from a first solve so that \
         locked jobs exist), s0 = random recreate on InsertionContext::new, then 5-60 steps drawn from every shipped ruin/recreate/local/search operator and the \
         static/dynamic hyper-heuristics; every step is judged on (P) parent dump unchanged and Inv(child) (i)-(v). A case is DISTINCT by (case seed, step index, operator) \
         and NON-TRIVIAL when the step changed the solution (a job moved, an order or a schedule changed).",
        45,
        540,
    );
    if let Some(path) = run.replay.clone() {
        replay(&run, &path);
        run.finish();
    }
    run.assume("the solver's own random stream is not seedable (thread-local RNG, RandomState hashing): VERIF_SEED fixes problems, operator parameters and operator sequences; replay re-judges the recorded dumps/solution and re-runs the case best-effort");
    run.assume("feasibility (v) is judged by O1 on the child serialised with the public pragmatic writer; O1's stated bounds apply (no required breaks, recharge, vicinity clustering in G3); the recorded writer findings place-tag-sibling/place-tag-missing are not counted");
    run.assume("after a raw Ruin::run only (P) and Inv (i)-(iv) are judged; feasibility is judged after the recreate which follows it");
    run.assume("inner operators of DecomposeSearch/InfeasibleSearch are drawn from ruin-recreate/local-search compositions only, as the shipped configuration documents (no repair-based operator inside decomposition)");
    run.assume("tabu list, footprint and solution weights in SolutionState are compared for the parent (P) but are not part of Inv(child)");

    // the monitor checks itself first: seeded corruptions of a synthetic dump must raise the expected clause
    let self_test = self_test();
    for (name, ok) in self_test.iter() {
        run.observe("oracle_self_test", &format!("{}: {name}", if *ok { "ok" } else { "FAILED" }));
        if !*ok {
            println!("INCONCLUSIVE property=C04 oracle self-test failed: {name}");
        }
    }
    run.floor("oracle self-test cases passed", self_test.iter().filter(|t| t.1).count() as u64, self_test.len() as u64);

    let thorough = !run.is_quick();
    let cases: u64 = run.by_tier(400, 100_000);
    let inflight: Inflight = Mutex::new(BTreeMap::new());
    let done = AtomicBool::new(false);
    std::thread::scope(|scope| {
        // watchdog: wall-clock never decides a verdict, it only turns a non-returning operator into an inconclusive run
        scope.spawn(|| {
            while !done.load(Ordering::Relaxed) {
                std::thread::sleep(Duration::from_millis(500));
                let stuck = inflight.lock().unwrap().values().find(|(t, _)| t.elapsed() > Duration::from_secs(240)).map(|(_, s)| s.clone());
                if let Some(s) = stuck {
                    println!("INCONCLUSIVE property=C04 operator did not return within 240 s: {s}");
                    run.inconclusive(&format!("operator did not return within 240 s: {}", clip(&s, 100)));
                    run.floor("operator returned", 0, 1);
                    run.finish();
                }
            }
        });
        vverif::par_for(4, cases, &|| !run.has_time(), &|i| {
            let case_seed = mix(run.seed, i);
            run_case(&run, i, case_seed, thorough, &inflight, false);
        });
        done.store(true, Ordering::Relaxed);
    });

    // coverage floors: every shipped operator was called and changed a solution at least once
    let min_calls = run.by_tier(1u64, 200);
    for name in SHIPPED {
        run.floor(&format!("calls of {name}"), run.observed("op_calls", name), min_calls);
        run.floor(&format!("effective calls of {name}"), run.observed("op_effective", name), 1);
    }
    run.floor("histories with locked jobs (relations)", run.observed("features", "relations"), 1);
    run.floor("feasibility replays", run.observed("feasibility_replays", "replayed"), 100);
    run.floor("evaluations", run.evaluations(), 500);
    run.finish();
}
