//! C18 – adaptive operator selection and termination maths stay numerically sane.
//!
//! Four monitors, all on the real `rosomaxa` code through its public API:
//!  1. `SlotMachine` driven with hostile reward streams and a recording `DistributionSampler`;
//!  2. `random_argmax`, `Random::weighted`, selection sampling iterators, `Noise`;
//!  3. `DynamicSelective` (experimental telemetry on) over the scalar `rosomaxa::example` problem and an own
//!     N-objective context, with operators that return chosen fitness jumps;
//!  4. terminations: `estimate()` range and `MinVariation` (sample based) against an own window/CV oracle.

use rosomaxa::algorithms::rl::{SlotAction, SlotFeedback, SlotMachine};
use rosomaxa::example::{VectorContext, VectorObjective, VectorSolution};
use rosomaxa::hyper::{DynamicSelective, HeuristicDiversifyOperator};
use rosomaxa::population::{Elitism, Greedy};
use rosomaxa::prelude::*;
use rosomaxa::termination::{CompositeTermination, MaxGeneration, MaxTime, MinVariation, TargetProximity};
use rosomaxa::utils::{
    DefaultDistributionSampler, DistributionSampler, SelectionSamplingIterator, SelectionSamplingSearch, Timer,
    create_range_sampling_iter, random_argmax,
};
use rosomaxa::{DynHeuristicPopulation, HeuristicSpeed};
use serde_json::{Value, json};
use std::any::Any;
use std::cmp::Ordering;
use std::collections::{BTreeMap, HashMap};
use std::marker::PhantomData;
use std::sync::atomic::{AtomicU64, AtomicUsize, Ordering as AO};
use std::sync::{Arc, Mutex};
use vverif::{Rng, Run, clip, mix, par_for};

const RULE: &str = "seeded cases in four parts. slot: one reward stream (kind x prior mean x length x sampler mode) pushed \
through SlotMachine::play/update/sample, distinct key = stream kind+prior+hash of the literal rewards, non-trivial = at least \
2 updates; helpers: one vector (class x length) per random_argmax / weighted / sampling-iterator / noise call group, \
non-trivial = ties, zeros, infinities or length > 1; dynsel: one DynamicSelective instance (operator set x fitness sign \
regime x population x objectives) driven over generations, non-trivial = telemetry holds both a zero and a positive reward; \
termination: one generation/fitness history (series kinds x window x threshold x context) fed to the terminations, \
non-trivial = at least one decided MinVariation verdict or an estimate taken beyond the limit";

const PART_SLOT: u64 = 1;
const PART_HELPERS: u64 = 2;
const PART_DYNSEL: u64 = 3;
const PART_TERM: u64 = 4;

fn case_seed_of(seed: u64, part: u64, i: u64) -> u64 {
    mix(seed, (part << 48) | (i & 0xFFFF_FFFF_FFFF))
}

/// Floats go to artefacts as strings (JSON has no inf/NaN and must keep all digits).
fn fj(x: f64) -> Value {
    json!(format!("{x:e}"))
}

fn fjv(xs: &[f64]) -> Value {
    Value::Array(xs.iter().map(|x| fj(*x)).collect())
}

fn hash_f64s(xs: &[f64]) -> u64 {
    let mut h = 0xcbf2_9ce4_8422_2325u64;
    for x in xs {
        h ^= x.to_bits();
        h = h.wrapping_mul(0x1000_0000_01b3);
    }
    h
}

/// Literal samples are spread over the parts (the run keeps the first four it is given).
static SAMPLES_TAKEN: [AtomicUsize; 4] = [AtomicUsize::new(0), AtomicUsize::new(0), AtomicUsize::new(0), AtomicUsize::new(0)];

fn take_sample_slot(part: usize, quota: usize) -> bool {
    SAMPLES_TAKEN[part].fetch_add(1, AO::Relaxed) < quota
}

fn new_random() -> Arc<dyn Random> {
    Arc::new(DefaultRandom::default())
}

// =============================================================================================
// part 1: SlotMachine

#[derive(Default)]
struct SamplerLog {
    gamma_calls: u64,
    normal_calls: u64,
    forced_zero: u64,
    bad: Vec<(String, String)>,
}

/// Checks the arguments of every distribution call, then delegates to the real sampler.
#[derive(Clone)]
struct RecSampler {
    inner: DefaultDistributionSampler,
    log: Arc<Mutex<SamplerLog>>,
    /// > 0: every k-th gamma call returns exactly 0 (a precision sample that underflowed), the case
    /// `sample()` documents a guard for.
    zero_every: u64,
}

impl DistributionSampler for RecSampler {
    fn gamma(&self, shape: Float, scale: Float) -> Float {
        let forced = {
            let mut l = self.log.lock().unwrap();
            l.gamma_calls += 1;
            if !(shape.is_finite() && shape > 0.) {
                l.bad.push(("gamma-shape".into(), format!("gamma(shape={shape:e}, scale={scale:e})")));
            }
            if !(scale.is_finite() && scale > 0.) {
                l.bad.push(("gamma-scale".into(), format!("gamma(shape={shape:e}, scale={scale:e})")));
            }
            let forced = self.zero_every > 0 && l.gamma_calls % self.zero_every == 0;
            if forced {
                l.forced_zero += 1;
            }
            forced
        };
        if forced { 0. } else { self.inner.gamma(shape, scale) }
    }

    fn normal(&self, mean: Float, std_dev: Float) -> Float {
        {
            let mut l = self.log.lock().unwrap();
            l.normal_calls += 1;
            if !mean.is_finite() {
                l.bad.push(("normal-mean".into(), format!("normal(mean={mean:e}, std_dev={std_dev:e})")));
            }
            if !(std_dev.is_finite() && std_dev >= 0.) {
                l.bad.push(("normal-std-dev".into(), format!("normal(mean={mean:e}, std_dev={std_dev:e})")));
            }
        }
        self.inner.normal(mean, std_dev)
    }
}

#[derive(Clone)]
struct EchoAction;

struct EchoFeedback(Float);

impl SlotFeedback for EchoFeedback {
    fn reward(&self) -> Float {
        self.0
    }
}

impl SlotAction for EchoAction {
    type Context = Float;
    type Feedback = EchoFeedback;

    fn take(&self, context: Self::Context) -> Self::Feedback {
        EchoFeedback(context)
    }
}

/// The reward domain of the property: 0, denormals, 1e-300 .. 1e6.
const REWARD_MAGS: [f64; 22] = [
    0., 5e-324, 1e-320, 1e-310, 2.2250738585072014e-308, 1e-300, 1e-200, 1e-100, 1e-30, 1e-9, 1e-3, 0.05, 0.5, 1., 2., 6., 18.,
    100., 1e3, 1e4, 1e5, 1e6,
];
const SLOT_PRIORS: [f64; 6] = [0., 1., 1e-300, 6., 18., 1e6];
const STREAM_KINDS: [&str; 12] = [
    "zeros",
    "denormal",
    "const",
    "alternating",
    "increasing",
    "decreasing",
    "huge-then-tiny",
    "tiny-then-huge",
    "random-magnitudes",
    "in-range",
    "spikes",
    "linear-ramp",
];

fn reward_value(rng: &mut Rng) -> f64 {
    match rng.below(10) {
        0 => 0.,
        1 => *rng.pick(&[5e-324, 1e-320, 1e-310, 2.2250738585072014e-308]),
        2..=4 => *rng.pick(&REWARD_MAGS),
        5..=7 => rng.range_f64(0., 18.),
        _ => {
            let e = rng.range_i64(-300, 5) as i32;
            ((1. + 9. * rng.f64()) * 10f64.powi(e)).min(1e6)
        }
    }
}

fn tiny_value(rng: &mut Rng) -> f64 {
    *rng.pick(&[0., 5e-324, 1e-310, 1e-300, 1e-200, 1e-30])
}

fn gen_stream(rng: &mut Rng, quick: bool) -> (&'static str, Vec<f64>) {
    let len = match rng.below(10) {
        0 => 1,
        1 => 2,
        2..=6 => rng.range_usize(3, 60),
        7..=8 => rng.range_usize(61, 400),
        _ => rng.range_usize(401, if quick { 1500 } else { 20_000 }),
    };
    let kind = *rng.pick(&STREAM_KINDS);
    let v: Vec<f64> = match kind {
        "zeros" => vec![0.; len],
        "denormal" => (0..len).map(|_| *rng.pick(&[5e-324, 1e-320, 1e-310, 2.2250738585072014e-308])).collect(),
        "const" => {
            let c = reward_value(rng);
            vec![c; len]
        }
        "alternating" => {
            let (a, b) = (reward_value(rng), reward_value(rng));
            (0..len).map(|i| if i % 2 == 0 { a } else { b }).collect()
        }
        "increasing" | "decreasing" => {
            let lo_e = rng.range_i64(-300, 0) as f64;
            let hi_e = rng.range_f64(lo_e, 6.);
            let mut v: Vec<f64> = (0..len)
                .map(|i| {
                    let t = if len > 1 { i as f64 / (len - 1) as f64 } else { 0. };
                    10f64.powf(lo_e + (hi_e - lo_e) * t).min(1e6)
                })
                .collect();
            if kind == "decreasing" {
                v.reverse();
            }
            v
        }
        "huge-then-tiny" | "tiny-then-huge" => {
            let k = rng.range_usize(1, len.max(1));
            let huge = *rng.pick(&[1e6, 1e5, 999_999.999, 1e4]);
            let tiny = tiny_value(rng);
            (0..len).map(|i| if (i < k) == (kind == "huge-then-tiny") { huge } else { tiny }).collect()
        }
        "random-magnitudes" => (0..len).map(|_| reward_value(rng)).collect(),
        "in-range" => (0..len).map(|_| rng.range_f64(0., 18.)).collect(),
        "spikes" => (0..len).map(|_| if rng.chance(0.05) { 1e6 } else { rng.range_f64(0., 6.) }).collect(),
        _ => {
            let step = reward_value(rng).min(1e6 / len as f64);
            (0..len).map(|i| i as f64 * step).collect()
        }
    };
    (kind, v)
}

fn slot_case(run: &Run, case_seed: u64) {
    let mut rng = Rng::new(case_seed);
    let (kind, rewards) = gen_stream(&mut rng, run.is_quick());
    let prior = *rng.pick(&SLOT_PRIORS);
    let zero_every = if rng.chance(0.25) { rng.range_i64(1, 5) as u64 } else { 0 };
    let log = Arc::new(Mutex::new(SamplerLog::default()));
    let sampler = RecSampler { inner: DefaultDistributionSampler::new(new_random()), log: log.clone(), zero_every };
    let mut slot = SlotMachine::new(prior, EchoAction, sampler);

    let artefact = |step: usize, extra: Value| {
        json!({
            "part": "slot", "case_seed": case_seed, "stream": kind, "prior_mean": fj(prior), "zero_gamma_every": zero_every,
            "failing_step": step, "last_rewards_up_to_step": fjv(&rewards[(step + 1).min(rewards.len()).saturating_sub(40)..(step + 1).min(rewards.len())]),
            "stream_len": rewards.len(), "detail": extra,
        })
    };

    run.observe("slot.stream", kind);
    run.observe("slot.sampler_mode", if zero_every > 0 { "real+forced-zero-precision" } else { "real" });
    let mut evals = 0u64;
    let mut failed = false;

    // sampling a fresh machine (n = 0) is part of the API's domain
    let do_sample = |slot: &SlotMachine<EchoAction, RecSampler>, step: usize, evals: &mut u64| -> bool {
        let res = run.guard(|| slot.sample());
        *evals += 1;
        let bad = {
            let mut l = log.lock().unwrap();
            std::mem::take(&mut l.bad)
        };
        if let Some((rule, detail)) = bad.first() {
            run.violation(
                &format!("C18|slot|sample|{rule}"),
                &format!("SlotMachine::sample called the sampler with invalid arguments: {detail} (stream {kind}, step {step})"),
                artefact(step, json!({"sampler_call": detail, "params": format!("{:?}", slot.get_params())})),
            );
            return false;
        }
        match res {
            Err(p) => {
                run.violation(
                    &format!("C18|slot|sample|panic|{}", p.file()),
                    &format!("SlotMachine::sample panicked: {} (stream {kind}, step {step})", clip(&p.message, 160)),
                    artefact(step, json!({"panic": p.to_json(), "params": format!("{:?}", slot.get_params())})),
                );
                false
            }
            Ok(x) if !x.is_finite() => {
                run.violation(
                    "C18|slot|sample|non-finite-result",
                    &format!("SlotMachine::sample returned {x:e} (stream {kind}, step {step})"),
                    artefact(step, json!({"sample": fj(x), "params": format!("{:?}", slot.get_params())})),
                );
                false
            }
            Ok(_) => true,
        }
    };

    if !do_sample(&slot, 0, &mut evals) {
        run.eval_n(evals);
        return;
    }

    let (mut lo, mut hi) = (f64::INFINITY, f64::NEG_INFINITY);
    let mut scale = prior.abs().max(1.);
    for (step, r) in rewards.iter().copied().enumerate() {
        lo = lo.min(r);
        hi = hi.max(r);
        scale = scale.max(r.abs());
        let res = run.guard(|| {
            let feedback = slot.play(r);
            slot.update(&feedback);
            slot.get_params()
        });
        evals += 1;
        let (alpha, beta, mu, v, n) = match res {
            Ok(p) => p,
            Err(p) => {
                run.violation(
                    &format!("C18|slot|update|panic|{}", p.file()),
                    &format!("SlotMachine::update panicked: {} (stream {kind}, step {step})", clip(&p.message, 160)),
                    artefact(step, json!({"panic": p.to_json()})),
                );
                failed = true;
                break;
            }
        };
        let eps = 1e-9 * scale;
        let rule = if ![alpha, beta, mu, v].iter().all(|x| x.is_finite()) {
            Some(("non-finite", "a learning parameter is not finite"))
        } else if !(alpha > 0.) {
            Some(("alpha", "gamma shape alpha is not positive"))
        } else if !(beta > 0.) {
            Some(("beta", "gamma rate beta is not positive"))
        } else if !(v >= 0.) {
            Some(("v", "estimated variance is negative"))
        } else if mu < lo - eps || mu > hi + eps {
            Some(("mu-outside-hull", "estimated mean left the hull of the rewards seen"))
        } else if n != step + 1 {
            Some(("n", "usage counter differs from the number of updates"))
        } else {
            None
        };
        if let Some((rule, text)) = rule {
            run.violation(
                &format!("C18|slot|update|{rule}"),
                &format!(
                    "{text}: after update #{} with reward {r:e}: alpha={alpha:e} beta={beta:e} mu={mu:e} v={v:e} n={n}, rewards seen in [{lo:e}, {hi:e}] (stream {kind}, prior {prior:e})",
                    step + 1
                ),
                artefact(step, json!({"alpha": fj(alpha), "beta": fj(beta), "mu": fj(mu), "v": fj(v), "n": n, "min_reward": fj(lo), "max_reward": fj(hi), "eps": fj(eps)})),
            );
            failed = true;
            break;
        }
        if !do_sample(&slot, step, &mut evals) {
            failed = true;
            break;
        }
    }
    run.eval_n(evals);
    {
        let l = log.lock().unwrap();
        run.observe_n("slot.calls", "update", rewards.len() as u64);
        run.observe_n("slot.calls", "sampler.gamma", l.gamma_calls);
        run.observe_n("slot.calls", "sampler.normal", l.normal_calls);
        run.observe_n("slot.calls", "sampler.gamma-forced-zero", l.forced_zero);
    }
    if rewards.len() >= 2 {
        run.nontrivial(&format!("slot|{kind}|{prior:e}|{}|{:x}", rewards.len(), hash_f64s(&rewards)));
    }
    if !failed && rewards.len() >= 3 && rewards.len() <= 8 && take_sample_slot(0, 1) {
        run.sample(json!({"part": "slot", "case_seed": case_seed, "stream": kind, "prior_mean": fj(prior), "rewards": fjv(&rewards),
            "final_params(alpha,beta,mu,v,n)": format!("{:?}", slot.get_params())}));
    }
}

// =============================================================================================
// part 2: random_argmax, Random::weighted, selection sampling, noise

fn helpers_case(run: &Run, case_seed: u64) {
    let mut rng = Rng::new(case_seed);
    match rng.below(10) {
        0..=3 => argmax_case(run, case_seed, &mut rng),
        4..=6 => weighted_case(run, case_seed, &mut rng),
        7..=8 => sampling_case(run, case_seed, &mut rng),
        _ => noise_case(run, case_seed, &mut rng),
    }
}

fn argmax_case(run: &Run, case_seed: u64, rng: &mut Rng) {
    let random = new_random();
    let len = if rng.chance(0.03) { 0 } else { rng.range_usize(1, 40) };
    let classes = ["all-equal", "ties-at-max", "distinct", "inf-mix", "all-neg-inf", "all-pos-inf", "signed-zeros", "one-ulp-apart", "denormals", "random"];
    let class = *rng.pick(&classes);
    let base = *rng.pick(&[0., 1., -1., 1e-300, 1e300, -1e300, 18., 0.001]);
    let mut values: Vec<f64> = match class {
        "all-equal" => vec![base; len],
        "ties-at-max" => {
            let k = rng.range_usize(1, len.max(1));
            let mut v: Vec<f64> = (0..len).map(|i| if i < k { base } else { base - 1. - base.abs() * 0.5 - rng.f64() }).collect();
            rng.shuffle(&mut v);
            v
        }
        "distinct" => {
            let mut v: Vec<f64> = (0..len).map(|i| base + i as f64 * (1. + base.abs() * 1e-3)).collect();
            rng.shuffle(&mut v);
            v
        }
        "inf-mix" => (0..len).map(|_| *rng.pick(&[f64::INFINITY, f64::NEG_INFINITY, 0., 1., -1., 1e308, -1e308])).collect(),
        "all-neg-inf" => vec![f64::NEG_INFINITY; len],
        "all-pos-inf" => vec![f64::INFINITY; len],
        "signed-zeros" => (0..len).map(|_| if rng.chance(0.5) { 0. } else { -0. }).collect(),
        "one-ulp-apart" => (0..len).map(|_| if rng.chance(0.5) { base } else { base.next_up() }).collect(),
        "denormals" => (0..len).map(|_| *rng.pick(&[5e-324, 1e-323, 0., -5e-324, 1e-310])).collect(),
        _ => (0..len).map(|_| rng.range_f64(-20., 20.)).collect(),
    };
    if len == 0 {
        values.clear();
    }
    run.observe("helpers.argmax.class", if len == 0 { "empty" } else { class });
    let max = values.iter().copied().fold(f64::NEG_INFINITY, f64::max);
    let ties = values.iter().filter(|v| **v == max).count();
    let mut seen = std::collections::BTreeSet::new();
    for _ in 0..8 {
        let res = run.guard(|| random_argmax(values.iter().copied(), random.as_ref()));
        run.eval();
        let art = |extra: Value| json!({"part": "helpers", "fn": "random_argmax", "case_seed": case_seed, "class": class, "values": fjv(&values), "detail": extra});
        match res {
            Err(p) => {
                run.violation(&format!("C18|argmax|panic|{}", p.file()), &format!("random_argmax panicked on {class} vector of length {len}: {}", clip(&p.message, 160)), art(p.to_json()));
                return;
            }
            Ok(None) if len > 0 => {
                run.violation("C18|argmax|none-on-non-empty", &format!("random_argmax returned None for a {class} vector of length {len}"), art(json!(null)));
                return;
            }
            Ok(None) => {}
            Ok(Some(i)) if i >= len => {
                run.violation("C18|argmax|index-out-of-range", &format!("random_argmax returned index {i} for a {class} vector of length {len}"), art(json!({"index": i})));
                return;
            }
            Ok(Some(i)) => {
                if values.iter().any(|v| *v > values[i]) {
                    run.violation("C18|argmax|not-a-maximum", &format!("random_argmax returned index {i} (value {:e}) but the maximum of the {class} vector is {max:e}", values[i]), art(json!({"index": i})));
                    return;
                }
                seen.insert(i);
            }
        }
    }
    if ties > 1 {
        run.observe("helpers.argmax.tie-outcomes", if seen.len() > 1 { "several tied indices returned" } else { "one tied index returned in 8 calls" });
    }
    if len > 1 {
        run.nontrivial(&format!("argmax|{class}|{len}|{:x}", hash_f64s(&values)));
    }
}

fn weighted_case(run: &Run, case_seed: u64, rng: &mut Rng) {
    let random = new_random();
    let len = rng.range_usize(1, 40);
    let classes = ["single", "all-equal", "all-zero", "one-positive", "zeros-and-positives", "one-vs-max", "random"];
    let class = if len == 1 { "single" } else { *rng.pick(&classes[1..]) };
    let weights: Vec<usize> = match class {
        "single" => vec![*rng.pick(&[0usize, 1, 7, usize::MAX])],
        "all-equal" => vec![*rng.pick(&[1usize, 3, 1000, usize::MAX]); len],
        "all-zero" => vec![0; len],
        "one-positive" => {
            let k = rng.usize_below(len);
            (0..len).map(|i| if i == k { *rng.pick(&[1usize, 5, usize::MAX]) } else { 0 }).collect()
        }
        "zeros-and-positives" => (0..len).map(|_| if rng.chance(0.5) { 0 } else { rng.range_usize(1, 100) }).collect(),
        "one-vs-max" => (0..len).map(|_| if rng.chance(0.5) { 1 } else { usize::MAX }).collect(),
        _ => (0..len).map(|_| rng.range_usize(0, 1000)).collect(),
    };
    run.observe("helpers.weighted.class", class);
    let any_positive = weights.iter().any(|w| *w > 0);
    for _ in 0..8 {
        let res = run.guard(|| random.weighted(weights.as_slice()));
        run.eval();
        let art = |extra: Value| json!({"part": "helpers", "fn": "Random::weighted", "case_seed": case_seed, "class": class, "weights": weights, "detail": extra});
        match res {
            Err(p) => {
                run.violation(&format!("C18|weighted|panic|{}", p.file()), &format!("DefaultRandom::weighted panicked on {class} weights of length {len}: {}", clip(&p.message, 160)), art(p.to_json()));
                return;
            }
            Ok(i) if i >= len => {
                run.violation("C18|weighted|index-out-of-range", &format!("DefaultRandom::weighted returned index {i} for {len} weights ({class})"), art(json!({"index": i})));
                return;
            }
            Ok(i) if any_positive && weights[i] == 0 => {
                run.violation("C18|weighted|zero-weight-index-chosen", &format!("DefaultRandom::weighted returned index {i} whose weight is 0 although positive weights exist ({class})"), art(json!({"index": i})));
                return;
            }
            Ok(_) => {}
        }
    }
    if len > 1 {
        run.nontrivial(&format!("weighted|{class}|{len}|{:x}", hash_f64s(&weights.iter().map(|w| *w as f64).collect::<Vec<_>>())));
    }
}

fn sampling_case(run: &Run, case_seed: u64, rng: &mut Rng) {
    let random = new_random();
    let size = rng.range_usize(0, 300);
    let which = rng.below(3);
    let art = |f: &str, extra: Value| json!({"part": "helpers", "fn": f, "case_seed": case_seed, "size": size, "detail": extra});
    match which {
        0 => {
            let amount = rng.range_usize(1, size + 3);
            run.observe("helpers.sampling.fn", "SelectionSamplingIterator");
            let res = run.guard(|| SelectionSamplingIterator::new(0..size, amount, random.clone()).collect::<Vec<usize>>());
            run.eval();
            match res {
                Err(p) => run.violation(&format!("C18|selection-sampling|panic|{}", p.file()), &format!("SelectionSamplingIterator panicked (size {size}, amount {amount}): {}", clip(&p.message, 160)), art("SelectionSamplingIterator", json!({"amount": amount, "panic": p.to_json()}))),
                Ok(items) => {
                    let ok = items.len() <= amount && items.iter().all(|i| *i < size) && items.windows(2).all(|w| w[0] < w[1]);
                    if !ok {
                        run.violation("C18|selection-sampling|bad-selection", &format!("SelectionSamplingIterator over 0..{size} with amount {amount} yielded {} items which are not an increasing in-range selection of at most {amount}", items.len()), art("SelectionSamplingIterator", json!({"amount": amount, "items": items})));
                    }
                }
            }
            run.nontrivial(&format!("ssi|{size}|{amount}"));
        }
        1 => {
            let sample_size = rng.range_usize(1, 12);
            run.observe("helpers.sampling.fn", "create_range_sampling_iter");
            let res = run.guard(|| create_range_sampling_iter(0..size, sample_size, random.as_ref()).collect::<Vec<usize>>());
            run.eval();
            match res {
                Err(p) => run.violation(&format!("C18|range-sampling|panic|{}", p.file()), &format!("create_range_sampling_iter panicked (size {size}, sample {sample_size}): {}", clip(&p.message, 160)), art("create_range_sampling_iter", json!({"sample_size": sample_size, "panic": p.to_json()}))),
                Ok(items) => {
                    let ok = items.len() <= sample_size && items.iter().all(|i| *i < size) && items.windows(2).all(|w| w[0] + 1 == w[1]);
                    if !ok {
                        run.violation("C18|range-sampling|bad-selection", &format!("create_range_sampling_iter over 0..{size} with sample size {sample_size} yielded a non-contiguous or out-of-range selection"), art("create_range_sampling_iter", json!({"sample_size": sample_size, "items": items})));
                    }
                }
            }
            run.nontrivial(&format!("crs|{size}|{sample_size}"));
        }
        _ => {
            let size = size.max(1);
            let sample_size = rng.range_usize(1, 12);
            let data: Vec<f64> = match rng.below(4) {
                0 => vec![1.; size],
                1 => (0..size).map(|i| i as f64).collect(),
                2 => (0..size).map(|i| -(i as f64)).collect(),
                _ => (0..size).map(|_| rng.range_f64(-5., 5.)).collect(),
            };
            run.observe("helpers.sampling.fn", "sample_search");
            let res = run.guard(|| (0..size).sample_search(sample_size, random.clone(), |i| (i, data[i]), |i: &usize| *i, |a: &(usize, f64), b: &(usize, f64)| a.1 > b.1));
            run.eval();
            match res {
                Err(p) => run.violation(&format!("C18|sample-search|panic|{}", p.file()), &format!("sample_search panicked (size {size}, sample {sample_size}): {}", clip(&p.message, 160)), art("sample_search", json!({"size": size, "sample_size": sample_size, "data": fjv(&data), "panic": p.to_json()}))),
                Ok(None) => run.violation("C18|sample-search|none-on-non-empty", &format!("sample_search returned None for a non-empty range of {size} with sample size {sample_size}"), art("sample_search", json!({"size": size, "sample_size": sample_size}))),
                Ok(Some((i, _))) if i >= size => run.violation("C18|sample-search|index-out-of-range", &format!("sample_search returned item {i} outside 0..{size}"), art("sample_search", json!({"size": size, "sample_size": sample_size, "index": i}))),
                Ok(Some(_)) => {}
            }
            run.nontrivial(&format!("ss|{size}|{sample_size}|{:x}", hash_f64s(&data)));
        }
    }
}

fn noise_case(run: &Run, case_seed: u64, rng: &mut Rng) {
    let random = new_random();
    let probability = *rng.pick(&[0., 0.05, 0.5, 1.]);
    let lo = rng.range_f64(-2., 2.);
    let range = (lo, lo + rng.range_f64(1e-6, 3.));
    let addition = rng.chance(0.5);
    let noise = if addition { Noise::new_with_addition(probability, range, random) } else { Noise::new_with_ratio(probability, range, random) };
    run.observe("helpers.noise.mode", if addition { "addition" } else { "ratio" });
    let values: Vec<f64> = (0..16).map(|_| *rng.pick(&[0., -0., 1., -1., 5e-324, 1e-300, 1e150, -1e150, 0.3, 18.])).collect();
    for v in values.iter().copied() {
        let res = run.guard(|| noise.generate(v));
        run.eval();
        let art = |extra: Value| json!({"part": "helpers", "fn": "Noise::generate", "case_seed": case_seed, "probability": probability, "range": [fj(range.0), fj(range.1)], "addition": addition, "value": fj(v), "detail": extra});
        match res {
            Err(p) => {
                run.violation(&format!("C18|noise|panic|{}", p.file()), &format!("Noise::generate({v:e}) panicked: {}", clip(&p.message, 160)), art(p.to_json()));
                return;
            }
            Ok(x) if !x.is_finite() => {
                run.violation("C18|noise|non-finite", &format!("Noise::generate({v:e}) returned {x:e} (range {range:?}, probability {probability})"), art(json!({"result": fj(x)})));
                return;
            }
            Ok(_) => {}
        }
    }
    run.nontrivial(&format!("noise|{probability}|{addition}|{:x}", hash_f64s(&[range.0, range.1])));
}

// =============================================================================================
// shared test domain: solutions, an N-objective context, a population which exposes the latest individual

trait Sol: HeuristicSolution + Sized + 'static {
    fn make(fitness: &[f64], tag: [f64; 2]) -> Self;
    fn tag(&self) -> [f64; 2];
    fn fit(&self) -> Vec<f64> {
        self.fitness().collect()
    }
}

impl Sol for VectorSolution {
    fn make(fitness: &[f64], tag: [f64; 2]) -> Self {
        VectorSolution::new(tag.to_vec(), fitness[0], vec![fitness[0]])
    }

    fn tag(&self) -> [f64; 2] {
        [self.data.first().copied().unwrap_or(-1.), self.data.get(1).copied().unwrap_or(-1.)]
    }
}

#[derive(Clone)]
struct MoSolution {
    fitness: Vec<f64>,
    tag: [f64; 2],
}

impl HeuristicSolution for MoSolution {
    fn fitness(&self) -> impl Iterator<Item = Float> {
        self.fitness.clone().into_iter()
    }

    fn deep_copy(&self) -> Self {
        self.clone()
    }
}

impl Sol for MoSolution {
    fn make(fitness: &[f64], tag: [f64; 2]) -> Self {
        MoSolution { fitness: fitness.to_vec(), tag }
    }

    fn tag(&self) -> [f64; 2] {
        self.tag
    }
}

/// Lexicographic order over the fitness vector (lower is better).
struct MoObjective;

impl HeuristicObjective for MoObjective {
    type Solution = MoSolution;

    fn total_order(&self, a: &Self::Solution, b: &Self::Solution) -> Ordering {
        a.fitness.iter().zip(b.fitness.iter()).map(|(a, b)| a.total_cmp(b)).find(|o| *o != Ordering::Equal).unwrap_or(Ordering::Equal)
    }
}

fn phase_of(code: usize) -> SelectionPhase {
    match code {
        0 => SelectionPhase::Initial,
        1 => SelectionPhase::Exploration,
        _ => SelectionPhase::Exploitation,
    }
}

/// A population which ranks only the most recently added individual: lets a history of arbitrary
/// "best known" fitness values be fed to a termination criterion.
struct Latest<O, S> {
    objective: Arc<O>,
    current: Option<S>,
    phase: Arc<AtomicUsize>,
}

impl<O, S> HeuristicPopulation for Latest<O, S>
where
    O: HeuristicObjective<Solution = S>,
    S: HeuristicSolution,
{
    type Objective = O;
    type Individual = S;

    fn add_all(&mut self, individuals: Vec<Self::Individual>) -> bool {
        let mut any = false;
        for i in individuals {
            any |= self.add(i);
        }
        any
    }

    fn add(&mut self, individual: Self::Individual) -> bool {
        self.current = Some(individual);
        true
    }

    fn on_generation(&mut self, _: &HeuristicStatistics) {}

    fn cmp(&self, a: &Self::Individual, b: &Self::Individual) -> Ordering {
        self.objective.total_order(a, b)
    }

    fn select(&self) -> Box<dyn Iterator<Item = &'_ Self::Individual> + '_> {
        Box::new(self.current.iter())
    }

    fn ranked(&self) -> Box<dyn Iterator<Item = &'_ Self::Individual> + '_> {
        Box::new(self.current.iter())
    }

    fn all(&self) -> Box<dyn Iterator<Item = &'_ Self::Individual> + '_> {
        Box::new(self.current.iter())
    }

    fn size(&self) -> usize {
        usize::from(self.current.is_some())
    }

    fn selection_phase(&self) -> SelectionPhase {
        phase_of(self.phase.load(AO::Relaxed))
    }
}

/// An own heuristic context with N objectives whose statistics are set by the workload generator.
struct MoContext {
    objective: Arc<MoObjective>,
    population: Box<DynHeuristicPopulation<MoObjective, MoSolution>>,
    stats: HeuristicStatistics,
    env: Arc<Environment>,
    state: HashMap<i32, Box<dyn Any + Send + Sync>>,
}

impl MoContext {
    fn new(population: Box<DynHeuristicPopulation<MoObjective, MoSolution>>, env: Arc<Environment>) -> Self {
        Self { objective: Arc::new(MoObjective), population, stats: HeuristicStatistics::default(), env, state: HashMap::new() }
    }
}

impl HeuristicContext for MoContext {
    type Objective = MoObjective;
    type Solution = MoSolution;

    fn objective(&self) -> &Self::Objective {
        &self.objective
    }

    fn selected(&self) -> Box<dyn Iterator<Item = &'_ Self::Solution> + '_> {
        self.population.select()
    }

    fn ranked(&self) -> Box<dyn Iterator<Item = &'_ Self::Solution> + '_> {
        self.population.ranked()
    }

    fn statistics(&self) -> &HeuristicStatistics {
        &self.stats
    }

    fn selection_phase(&self) -> SelectionPhase {
        self.population.selection_phase()
    }

    fn environment(&self) -> &Environment {
        &self.env
    }

    fn on_initial(&mut self, solution: Self::Solution, _: Timer) {
        self.population.add(solution);
    }

    fn on_generation(&mut self, offspring: Vec<Self::Solution>, termination_estimate: Float, _: Timer) {
        self.population.add_all(offspring);
        self.stats.generation += 1;
        self.stats.termination_estimate = termination_estimate;
    }

    fn on_result(self) -> HeuristicResult<Self::Objective, Self::Solution> {
        Ok((self.population, None))
    }
}

impl Stateful for MoContext {
    type Key = i32;

    fn set_state<T: 'static + Send + Sync>(&mut self, key: Self::Key, state: T) {
        self.state.insert(key, Box::new(state));
    }

    fn get_state<T: 'static + Send + Sync>(&self, key: &Self::Key) -> Option<&T> {
        self.state.get(key).and_then(|v| v.downcast_ref::<T>())
    }

    fn state_mut<T: 'static + Send + Sync, F: Fn() -> T>(&mut self, key: Self::Key, inserter: F) -> &mut T {
        self.state.entry(key).or_insert_with(|| Box::new(inserter())).downcast_mut::<T>().unwrap()
    }
}

/// What the drivers need on top of `HeuristicContext`: a way to close a generation.
trait TestCtx: HeuristicContext + 'static
where
    Self::Solution: Sol,
{
    /// Adds the offspring and moves to the next generation; `ratios` = (improvement_all, improvement_1000)
    /// is applied where the context lets the workload choose its statistics.
    fn advance(&mut self, offspring: Vec<Self::Solution>, ratios: (f64, f64));
}

impl TestCtx for VectorContext {
    fn advance(&mut self, offspring: Vec<Self::Solution>, _: (f64, f64)) {
        self.on_generation(offspring, 0., Timer::start());
    }
}

impl TestCtx for MoContext {
    fn advance(&mut self, offspring: Vec<Self::Solution>, ratios: (f64, f64)) {
        self.on_generation(offspring, 0., Timer::start());
        self.stats.improvement_all_ratio = ratios.0;
        self.stats.improvement_1000_ratio = ratios.1;
        self.stats.speed = HeuristicSpeed::Unknown;
    }
}

fn quiet_environment(experimental: bool) -> Arc<Environment> {
    Arc::new(Environment::new(new_random(), None, Default::default(), Arc::new(|_: &str| {}), experimental))
}

fn vector_objective() -> Arc<VectorObjective> {
    Arc::new(VectorObjective::new(Arc::new(|data: &[Float]| data.first().copied().unwrap_or(0.)), Arc::new(|data: &[Float]| data.to_vec())))
}

fn vector_context(pop: &str, phase: Arc<AtomicUsize>, env: Arc<Environment>) -> VectorContext {
    let objective = vector_objective();
    let population: Box<DynHeuristicPopulation<VectorObjective, VectorSolution>> = match pop {
        "greedy" => Box::new(Greedy::new(objective.clone(), 1, None)),
        "elitism" => Box::new(Elitism::new(objective.clone(), env.random.clone(), 4, 2)),
        _ => Box::new(Latest { objective: objective.clone(), current: None, phase }),
    };
    VectorContext::new(objective, population, TelemetryMode::None, env)
}

fn mo_context(pop: &str, phase: Arc<AtomicUsize>, env: Arc<Environment>) -> MoContext {
    let objective = Arc::new(MoObjective);
    let population: Box<DynHeuristicPopulation<MoObjective, MoSolution>> = match pop {
        "greedy" => Box::new(Greedy::new(objective, 1, None)),
        _ => Box::new(Latest { objective, current: None, phase }),
    };
    MoContext::new(population, env)
}

// =============================================================================================
// part 3: DynamicSelective

#[derive(Clone, Copy, PartialEq, Debug)]
enum Regime {
    Positive,
    Negative,
    Mixed,
}

impl Regime {
    fn name(self) -> &'static str {
        match self {
            Regime::Positive => "non-negative",
            Regime::Negative => "non-positive",
            Regime::Mixed => "mixed",
        }
    }
}

#[derive(Clone, Copy, PartialEq, Debug)]
enum Kind {
    ImproveLot,
    ImproveLittle,
    Equal,
    Worse,
    WorseLittle,
    BeatBest,
    Huge,
    Tiny,
    Zero,
    Flip,
    RandomMag,
}

const KINDS: [Kind; 11] = [
    Kind::ImproveLot,
    Kind::ImproveLittle,
    Kind::Equal,
    Kind::Worse,
    Kind::WorseLittle,
    Kind::BeatBest,
    Kind::Huge,
    Kind::Tiny,
    Kind::Zero,
    Kind::Flip,
    Kind::RandomMag,
];

impl Kind {
    fn name(self) -> &'static str {
        match self {
            Kind::ImproveLot => "improve-a-lot",
            Kind::ImproveLittle => "improve-one-ulp",
            Kind::Equal => "equal",
            Kind::Worse => "worse",
            Kind::WorseLittle => "worse-one-ulp",
            Kind::BeatBest => "beat-best-known",
            Kind::Huge => "huge-magnitude",
            Kind::Tiny => "tiny-magnitude",
            Kind::Zero => "to-zero",
            Kind::Flip => "flip-sign",
            Kind::RandomMag => "random-magnitude",
        }
    }
}

const FITNESS_CAP: f64 = 1e150;

fn in_regime(x: f64, regime: Regime) -> f64 {
    let x = match regime {
        Regime::Positive => x.abs(),
        Regime::Negative => -x.abs(),
        Regime::Mixed => x,
    };
    let x = x.clamp(-FITNESS_CAP, FITNESS_CAP);
    if x == 0. { 0. } else { x }
}

fn regime_sign(regime: Regime, rng: &mut Rng) -> f64 {
    match regime {
        Regime::Positive => 1.,
        Regime::Negative => -1.,
        Regime::Mixed => {
            if rng.chance(0.5) { 1. } else { -1. }
        }
    }
}

fn random_fitness(regime: Regime, rng: &mut Rng) -> f64 {
    let mag = match rng.below(8) {
        0 => 0.,
        1 => *rng.pick(&[5e-324, 1e-310, 1e-300, 1e-150]),
        2 => *rng.pick(&[1e100, 1e149, 1e150]),
        _ => (1. + 9. * rng.f64()) * 10f64.powi(rng.range_i64(-6, 9) as i32),
    };
    in_regime(regime_sign(regime, rng) * mag, regime)
}

/// A strictly better (smaller) value by about the relative amount `rel`, where the regime has room for it.
fn better(x: f64, rel: f64, regime: Regime) -> f64 {
    if x > 0. {
        x * (1. - rel)
    } else if x < 0. {
        x * (1. + rel)
    } else if regime == Regime::Positive {
        0.
    } else {
        -rel
    }
}

fn worse(x: f64, rel: f64, regime: Regime) -> f64 {
    if x > 0. {
        x * (1. + rel)
    } else if x < 0. {
        x * (1. - rel)
    } else if regime == Regime::Negative {
        0.
    } else {
        rel
    }
}

fn jump(kind: Kind, regime: Regime, parent: &[f64], best: Option<&[f64]>, rng: &mut Rng) -> Vec<f64> {
    let j = rng.usize_below(parent.len());
    let mut f = parent.to_vec();
    let x = parent[j];
    let rel = *rng.pick(&[0.999, 0.9, 0.5, 0.1, 1e-3, 1e-9]);
    let new = match kind {
        Kind::ImproveLot => better(x, *rng.pick(&[0.999, 0.9, 0.5]), regime),
        Kind::ImproveLittle => x.next_down(),
        Kind::Equal => x,
        Kind::Worse => worse(x, rel, regime),
        Kind::WorseLittle => x.next_up(),
        Kind::BeatBest => match best {
            Some(best) if best.len() == parent.len() => {
                f = best.to_vec();
                better(best[j], rel, regime)
            }
            _ => better(x, rel, regime),
        },
        Kind::Huge => regime_sign(regime, rng) * (1. + 9. * rng.f64()) * 10f64.powi(rng.range_i64(100, 149) as i32),
        Kind::Tiny => regime_sign(regime, rng) * *rng.pick(&[5e-324, 1e-310, 1e-300, 1e-200, 1e-150, 1e-100]),
        Kind::Zero => 0.,
        Kind::Flip => -x,
        Kind::RandomMag => random_fitness(regime, rng),
    };
    f[j] = in_regime(new, regime);
    f
}

struct JumpOp<C, O, S> {
    kind: Kind,
    id: usize,
    regime: Regime,
    seed: u64,
    slow: bool,
    calls: AtomicU64,
    _m: PhantomData<fn() -> (C, O, S)>,
}

impl<C, O, S> JumpOp<C, O, S>
where
    C: HeuristicContext<Objective = O, Solution = S>,
    O: HeuristicObjective<Solution = S>,
    S: Sol,
{
    fn new(kind: Kind, id: usize, regime: Regime, seed: u64, slow: bool) -> Self {
        Self { kind, id, regime, seed, slow, calls: AtomicU64::new(0), _m: PhantomData }
    }

    fn produce(&self, ctx: &C, parent: &S) -> S {
        let k = self.calls.fetch_add(1, AO::Relaxed);
        let mut rng = Rng::new(mix(self.seed, k));
        if self.slow && rng.chance(0.3) {
            std::thread::sleep(std::time::Duration::from_micros(1000 + rng.below(2500)));
        }
        let best = ctx.ranked().next().map(|b| b.fit());
        let fitness = jump(self.kind, self.regime, &parent.fit(), best.as_deref(), &mut rng);
        S::make(&fitness, [self.id as f64, k as f64])
    }
}

impl<C, O, S> HeuristicSearchOperator for JumpOp<C, O, S>
where
    C: HeuristicContext<Objective = O, Solution = S>,
    O: HeuristicObjective<Solution = S>,
    S: Sol,
{
    type Context = C;
    type Objective = O;
    type Solution = S;

    fn search(&self, heuristic_ctx: &Self::Context, solution: &Self::Solution) -> Self::Solution {
        self.produce(heuristic_ctx, solution)
    }
}

impl<C, O, S> HeuristicDiversifyOperator for JumpOp<C, O, S>
where
    C: HeuristicContext<Objective = O, Solution = S>,
    O: HeuristicObjective<Solution = S>,
    S: Sol,
{
    type Context = C;
    type Objective = O;
    type Solution = S;

    fn diversify(&self, heuristic_ctx: &Self::Context, solution: &Self::Solution) -> Vec<Self::Solution> {
        (0..(self.id % 3)).map(|_| self.produce(heuristic_ctx, solution)).collect()
    }
}

/// What the harness knows about one search call (same order as the telemetry's search rows).
#[derive(Clone)]
struct CallRecord {
    op_id: usize,
    parent: Vec<f64>,
    new: Vec<f64>,
    best: Option<Vec<f64>>,
}

#[derive(Clone)]
struct DynCfg {
    case_seed: u64,
    ctx_kind: String,
    population: String,
    n_obj: usize,
    regime: Regime,
    names: Vec<String>,
    kinds: Vec<Kind>,
}

impl DynCfg {
    /// Documented upper bound of a reward: `get_relative_distance` documents `[-N, N]`, `estimate_distance_reward`
    /// adds 1 to each of the two distances and weights the second by 2 (for N = 1 its documented `[0, 6]`),
    /// `estimate_reward_perf_multiplier` documents `(~0.5, 3]`.
    fn reward_bound(&self) -> f64 {
        3. * (self.n_obj as f64 + 1.) * 3.
    }

    fn to_json(&self) -> Value {
        json!({"case_seed": self.case_seed, "context": self.ctx_kind, "population": self.population, "objectives": self.n_obj,
            "fitness_sign": self.regime.name(), "operators": self.names, "reward_bound": self.reward_bound()})
    }
}

/// Row-local oracle of a `search:` telemetry row. Returns (signature, what).
fn check_search_row(fields: &[&str], cfg: &DynCfg) -> Option<(String, String)> {
    if fields.len() != 6 {
        return None;
    }
    let (name, reward, from, to) = (fields[0], fields[2], fields[3], fields[4]);
    if !cfg.names.iter().any(|n| n == name) {
        return Some(("C18|dynsel|unknown-operator-name".into(), format!("search telemetry names operator '{name}' which is not among the configured {:?}", cfg.names)));
    }
    if !["best", "diverse"].contains(&from) || !["best", "diverse"].contains(&to) {
        return Some(("C18|dynsel|unknown-search-state".into(), format!("search telemetry holds transition {from}->{to}")));
    }
    let Ok(reward) = reward.parse::<f64>() else {
        return Some(("C18|dynsel|reward-non-finite".into(), format!("reward '{reward}' of operator {name} is not a number")));
    };
    if !reward.is_finite() {
        return Some(("C18|dynsel|reward-non-finite".into(), format!("reward of operator {name} is {reward:e}")));
    }
    if reward < 0. {
        return Some(("C18|dynsel|reward-negative".into(), format!("reward of operator {name} is {reward:e} < 0")));
    }
    if reward > cfg.reward_bound() * (1. + 1e-12) {
        return Some((
            format!("C18|dynsel|reward-above-documented-max|fitness-sign={}", cfg.regime.name()),
            format!("reward of operator {name} is {reward:e}, above the documented maximum {} for {} objective(s)", cfg.reward_bound(), cfg.n_obj),
        ));
    }
    None
}

/// Oracle of a `heuristic:` telemetry row; `rewards` are the first n rewards which were fed to that slot.
fn check_param_row(fields: &[&str], cfg: &DynCfg, rewards: Option<&[f64]>) -> Option<(String, String)> {
    if fields.len() != 8 {
        return None;
    }
    let (state, name) = (fields[1], fields[2]);
    if !cfg.names.iter().any(|n| n == name) {
        return Some(("C18|dynsel|unknown-operator-name".into(), format!("heuristic telemetry names operator '{name}' which is not among the configured {:?}", cfg.names)));
    }
    if !["best", "diverse"].contains(&state) {
        return Some(("C18|dynsel|unknown-search-state".into(), format!("heuristic telemetry holds state {state}")));
    }
    let p: Vec<f64> = fields[3..7].iter().map(|s| s.parse::<f64>().unwrap_or(f64::NAN)).collect();
    let (alpha, beta, mu, v) = (p[0], p[1], p[2], p[3]);
    let text = format!("slot ({state}, {name}): alpha={alpha:e} beta={beta:e} mu={mu:e} v={v:e} n={}", fields[7]);
    if !p.iter().all(|x| x.is_finite()) {
        return Some(("C18|dynsel|params|non-finite".into(), format!("a learning parameter is not finite, {text}")));
    }
    if !(alpha > 0.) {
        return Some(("C18|dynsel|params|alpha".into(), format!("alpha is not positive, {text}")));
    }
    if !(beta > 0.) {
        return Some(("C18|dynsel|params|beta".into(), format!("beta is not positive, {text}")));
    }
    if !(v >= 0.) {
        return Some(("C18|dynsel|params|v".into(), format!("variance is negative, {text}")));
    }
    if let Some(rewards) = rewards {
        if !rewards.is_empty() && rewards.iter().all(|r| r.is_finite()) {
            let lo = rewards.iter().copied().fold(f64::INFINITY, f64::min);
            let hi = rewards.iter().copied().fold(f64::NEG_INFINITY, f64::max);
            let eps = 1e-9 * hi.abs().max(1.);
            if mu < lo - eps || mu > hi + eps {
                return Some(("C18|dynsel|params|mu-outside-hull".into(), format!("mean left the hull [{lo:e}, {hi:e}] of the {} rewards fed to the slot, {text}", rewards.len())));
            }
        }
    }
    None
}

fn reward_class(r: f64) -> &'static str {
    if r == 0. {
        "0"
    } else if r <= 0.1 {
        "(0,0.1]"
    } else if r <= 1. {
        "(0.1,1]"
    } else if r <= 6. {
        "(1,6]"
    } else if r <= 18. {
        "(6,18]"
    } else {
        ">18"
    }
}

/// Parses the Display telemetry and applies the oracles. Returns false after the first violation.
fn check_telemetry(run: &Run, text: &str, cfg: &DynCfg, calls: &[CallRecord]) -> bool {
    let mut section = "";
    let mut search_idx = 0usize;
    let mut fed: HashMap<(String, String), Vec<f64>> = HashMap::new();
    let (mut zero, mut positive) = (false, false);
    let paired = text.lines().filter(|l| l.split(',').count() == 6 && !l.starts_with("name,")).count() == calls.len();
    if !paired {
        run.inconclusive("dynsel: number of search telemetry rows differs from the number of observed search calls (rows not paired with inputs)");
    }
    for line in text.lines() {
        match line {
            "TELEMETRY" => continue,
            "search:" => {
                section = "search";
                continue;
            }
            "heuristic:" => {
                section = "heuristic";
                continue;
            }
            _ if line.starts_with("name,generation") || line.starts_with("generation,state") => continue,
            _ => {}
        }
        let fields: Vec<&str> = line.split(',').collect();
        run.eval();
        if section == "search" {
            if fields.len() != 6 {
                run.inconclusive("dynsel: unparsable search telemetry row");
                continue;
            }
            let call = if paired { calls.get(search_idx) } else { None };
            search_idx += 1;
            if let Some((sig, what)) = check_search_row(&fields, cfg) {
                let input = call.map(|c| json!({"operator_kind": cfg.kinds.get(c.op_id).map(|k| k.name()), "initial_fitness": fjv(&c.parent), "new_fitness": fjv(&c.new), "best_known_fitness": c.best.as_ref().map(|b| fjv(b))}));
                let what = match call {
                    Some(c) => format!("{what}; initial fitness {:?}, new fitness {:?}, best known {:?}", c.parent, c.new, c.best),
                    None => what,
                };
                run.violation(&sig, &what, json!({"part": "dynsel", "case_seed": cfg.case_seed, "cfg": cfg.to_json(), "section": "search", "row": line, "input": input}));
                // a listed known finding must not hide other defects in the same telemetry
                if !run.is_known(&sig) {
                    return false;
                }
            }
            let reward: f64 = fields[2].parse().unwrap_or(f64::NAN);
            zero |= reward == 0.;
            positive |= reward > 0.;
            fed.entry((fields[3].to_string(), fields[0].to_string())).or_default().push(reward);
            run.observe("dynsel.reward-class", reward_class(reward));
            run.observe("dynsel.transition", &format!("{}->{}", fields[3], fields[4]));
            if let Some(kind) = cfg.names.iter().position(|n| n == fields[0]).and_then(|i| cfg.kinds.get(i)) {
                run.observe("dynsel.operator-chosen", kind.name());
                if reward > 0. {
                    run.observe("dynsel.operator-rewarded", kind.name());
                }
            }
        } else if section == "heuristic" {
            if fields.len() != 8 {
                run.inconclusive("dynsel: unparsable heuristic telemetry row");
                continue;
            }
            let n: usize = fields[7].parse().unwrap_or(usize::MAX);
            let rewards = fed.get(&(fields[1].to_string(), fields[2].to_string())).map(|v| v.as_slice()).unwrap_or(&[]);
            let prefix = if n <= rewards.len() { Some(&rewards[..n]) } else { None };
            if prefix.is_none() {
                run.inconclusive("dynsel: usage counter in heuristic telemetry exceeds the search rows seen for that slot (hull not checked)");
            }
            run.observe("dynsel.param-rows", if n == 0 { "n=0" } else { "n>0" });
            if let Some((sig, what)) = check_param_row(&fields, cfg, prefix) {
                run.violation(&sig, &what, json!({"part": "dynsel", "case_seed": cfg.case_seed, "cfg": cfg.to_json(), "section": "heuristic", "row": line,
                    "rewards_fed": prefix.map(fjv)}));
                return false;
            }
        }
    }
    if zero && positive {
        run.nontrivial(&format!("dynsel|{}|{}|{}|{}|{:?}|{}", cfg.ctx_kind, cfg.population, cfg.n_obj, cfg.regime.name(), cfg.names, cfg.case_seed));
    }
    true
}

fn dynsel_drive<C, O, S>(run: &Run, cfg: &DynCfg, rng: &mut Rng, ctx: &mut C, env: &Environment)
where
    C: TestCtx<Objective = O, Solution = S>,
    O: HeuristicObjective<Solution = S> + 'static,
    S: Sol,
{
    let slow_case = rng.chance(0.2);
    let search_ops = cfg
        .kinds
        .iter()
        .enumerate()
        .map(|(id, kind)| {
            let op: Arc<dyn HeuristicSearchOperator<Context = C, Objective = O, Solution = S> + Send + Sync> =
                Arc::new(JumpOp::<C, O, S>::new(*kind, id, cfg.regime, mix(cfg.case_seed, 1000 + id as u64), slow_case && id == 0));
            (op, cfg.names[id].clone(), 1.)
        })
        .collect::<Vec<_>>();
    let diversify_ops = (0..rng.range_usize(1, 3))
        .map(|id| {
            let op: Arc<dyn HeuristicDiversifyOperator<Context = C, Objective = O, Solution = S> + Send + Sync> =
                Arc::new(JumpOp::<C, O, S>::new(*rng.pick(&KINDS), id + 1, cfg.regime, mix(cfg.case_seed, 2000 + id as u64), false));
            op
        })
        .collect::<Vec<_>>();
    let mut heuristic = DynamicSelective::<C, O, S>::new(search_ops, diversify_ops, env);

    // initial individuals
    for k in 0..rng.range_usize(1, 3) {
        let fitness: Vec<f64> = (0..cfg.n_obj).map(|_| random_fitness(cfg.regime, rng)).collect();
        ctx.on_initial(S::make(&fitness, [-1., k as f64]), Timer::start());
    }

    let generations = rng.range_usize(8, if run.is_quick() { 60 } else { 150 });
    let mut calls: Vec<CallRecord> = Vec::new();
    let panic_art = |p: &vverif::PanicInfo, call: &str| json!({"part": "dynsel", "case_seed": cfg.case_seed, "cfg": cfg.to_json(), "call": call, "panic": p.to_json()});
    for _ in 0..generations {
        let best = ctx.ranked().next().map(|b| b.fit());
        let ranked: Vec<S> = ctx.ranked().take(4).map(|s| s.deep_copy()).collect();
        let mut parents: Vec<S> = Vec::new();
        for _ in 0..rng.range_usize(1, 5) {
            if ranked.is_empty() || rng.chance(0.25) {
                // a solution from elsewhere (not the best known): exercises the "diverse" state
                let fitness: Vec<f64> = (0..cfg.n_obj).map(|_| random_fitness(cfg.regime, rng)).collect();
                parents.push(S::make(&fitness, [-2., 0.]));
            } else if rng.chance(0.7) {
                parents.push(ranked[0].deep_copy());
            } else {
                parents.push(rng.pick(&ranked).deep_copy());
            }
        }
        let refs: Vec<&S> = parents.iter().collect();
        let mut offspring: Vec<S> = Vec::new();

        let res = run.guard(|| heuristic.search_many(&*ctx, refs.clone()));
        run.eval();
        match res {
            Err(p) => {
                run.violation(&format!("C18|dynsel|panic|search_many|{}", p.file()), &format!("DynamicSelective::search_many panicked: {}", clip(&p.message, 200)), panic_art(&p, "search_many"));
                return;
            }
            Ok(out) => {
                if out.len() != parents.len() {
                    run.inconclusive("dynsel: search_many returned a different number of solutions than parents");
                }
                for (p, o) in parents.iter().zip(out.iter()) {
                    calls.push(CallRecord { op_id: o.tag()[0] as usize, parent: p.fit(), new: o.fit(), best: best.clone() });
                }
                offspring.extend(out);
            }
        }
        run.observe("dynsel.api", "search_many");

        if rng.chance(0.3) {
            let res = run.guard(|| heuristic.search(&*ctx, &parents[0]));
            run.eval();
            match res {
                Err(p) => {
                    run.violation(&format!("C18|dynsel|panic|search|{}", p.file()), &format!("DynamicSelective::search panicked: {}", clip(&p.message, 200)), panic_art(&p, "search"));
                    return;
                }
                Ok(out) => {
                    for o in out.iter() {
                        calls.push(CallRecord { op_id: o.tag()[0] as usize, parent: parents[0].fit(), new: o.fit(), best: best.clone() });
                    }
                    offspring.extend(out);
                }
            }
            run.observe("dynsel.api", "search");
        }

        let res = run.guard(|| heuristic.diversify_many(&*ctx, refs.clone()));
        run.eval();
        match res {
            Err(p) => {
                run.violation(&format!("C18|dynsel|panic|diversify_many|{}", p.file()), &format!("DynamicSelective::diversify_many panicked: {}", clip(&p.message, 200)), panic_art(&p, "diversify_many"));
                return;
            }
            Ok(out) => {
                run.observe("dynsel.api", if out.is_empty() { "diversify_many (nothing)" } else { "diversify_many (solutions)" });
                offspring.extend(out);
            }
        }
        if rng.chance(0.3) {
            let res = run.guard(|| heuristic.diversify(&*ctx, &parents[0]));
            run.eval();
            match res {
                Err(p) => {
                    run.violation(&format!("C18|dynsel|panic|diversify|{}", p.file()), &format!("DynamicSelective::diversify panicked: {}", clip(&p.message, 200)), panic_art(&p, "diversify"));
                    return;
                }
                Ok(out) => offspring.extend(out),
            }
            run.observe("dynsel.api", "diversify");
        }

        let ratios = (*rng.pick(&[0., 0.0005, 0.01, 0.3]), *rng.pick(&[0., 0.01, 0.06, 0.12, 0.18, 0.5, 1.]));
        ctx.advance(offspring, ratios);
    }

    let res = run.guard(|| format!("{heuristic}"));
    let text = match res {
        Err(p) => {
            run.violation(&format!("C18|dynsel|panic|display|{}", p.file()), &format!("DynamicSelective Display panicked: {}", clip(&p.message, 200)), panic_art(&p, "display"));
            return;
        }
        Ok(t) => t,
    };
    if text.is_empty() {
        run.inconclusive("dynsel: telemetry empty although is_experimental = true");
        return;
    }
    let ok = check_telemetry(run, &text, cfg, &calls);
    if ok && take_sample_slot(1, 1) {
        let rows: Vec<&str> = text.lines().filter(|l| l.split(',').count() == 6 && !l.starts_with("name,")).take(3).collect();
        run.sample(json!({"part": "dynsel", "cfg": cfg.to_json(), "generations": generations, "search_calls": calls.len(), "first_search_rows(name,generation,reward,from,to,duration)": rows,
            "last_heuristic_row(generation,state,name,alpha,beta,mu,v,n)": text.lines().last()}));
    }
}

fn dynsel_case(run: &Run, case_seed: u64) {
    let mut rng = Rng::new(case_seed);
    let regime = *rng.pick(&[Regime::Positive, Regime::Positive, Regime::Negative, Regime::Mixed]);
    let k = rng.range_usize(1, 7);
    let mut pool: Vec<Kind> = KINDS.iter().copied().filter(|k| regime == Regime::Mixed || *k != Kind::Flip).collect();
    rng.shuffle(&mut pool);
    let kinds: Vec<Kind> = pool.into_iter().take(k).collect();
    let names: Vec<String> = kinds.iter().enumerate().map(|(i, k)| format!("op{i}:{}", k.name())).collect();
    let env = quiet_environment(true);
    let phase = Arc::new(AtomicUsize::new(2));
    let use_mo = rng.chance(0.4);
    run.observe("dynsel.fitness-sign", regime.name());
    if use_mo {
        let n_obj = rng.range_usize(1, 3);
        let population = *rng.pick(&["greedy", "latest"]);
        let cfg = DynCfg { case_seed, ctx_kind: "own-n-objective-context".into(), population: population.into(), n_obj, regime, names, kinds };
        run.observe("dynsel.context", &format!("{}|{}|objectives={}", cfg.ctx_kind, population, n_obj));
        let mut ctx = mo_context(population, phase, env.clone());
        dynsel_drive(run, &cfg, &mut rng, &mut ctx, env.as_ref());
    } else {
        let population = *rng.pick(&["greedy", "elitism", "elitism", "latest"]);
        let cfg = DynCfg { case_seed, ctx_kind: "example::VectorContext".into(), population: population.into(), n_obj: 1, regime, names, kinds };
        run.observe("dynsel.context", &format!("{}|{}|objectives=1", cfg.ctx_kind, population));
        let mut ctx = vector_context(population, phase, env.clone());
        dynsel_drive(run, &cfg, &mut rng, &mut ctx, env.as_ref());
    }
}

// =============================================================================================
// part 4: terminations

const SERIES_KINDS: [&str; 11] =
    ["const", "jitter", "alternate-near-threshold", "converge", "step", "uniform", "zeros", "zero-then-value", "symmetric", "huge", "tiny"];

fn clamp_fitness(x: f64) -> f64 {
    if x == 0. || !x.is_finite() {
        return 0.;
    }
    let m = x.abs().clamp(1e-140, 1e140);
    m.copysign(x)
}

/// One objective's history of "best known" values.
fn gen_series(rng: &mut Rng, len: usize, threshold: f64, kind: &str) -> Vec<f64> {
    let sign = if rng.chance(0.2) { -1. } else { 1. };
    let c = sign
        * match kind {
            "huge" => 1e140 * (0.1 + 0.9 * rng.f64()),
            "tiny" => 1e-139 * (1. + 8. * rng.f64()),
            _ => *rng.pick(&[1e-20, 1e-3, 1., 7.5, 123.456, 1e3, 1e20]) * (0.5 + rng.f64()),
        };
    let v: Vec<f64> = match kind {
        "const" => vec![c; len],
        "jitter" | "huge" | "tiny" => {
            let s = *rng.pick(&[0., 1e-13, 1e-6, 0.05, 0.5]);
            (0..len).map(|_| c * (1. + s * (rng.f64() - 0.5))).collect()
        }
        "alternate-near-threshold" => {
            // population CV of c(1+t), c(1-t), ... over an even window is exactly t
            let t = if threshold > 0. {
                threshold * *rng.pick(&[0.5, 0.9, 0.999, 0.999999, 1.000001, 1.001, 1.1, 2., 10.])
            } else {
                *rng.pick(&[0., 1e-12, 1e-3])
            };
            (0..len).map(|i| c * (1. + if i % 2 == 0 { t } else { -t })).collect()
        }
        "converge" => {
            let (d, q) = (*rng.pick(&[0.1, 1., 10.]), *rng.pick(&[0.5, 0.8, 0.95]));
            (0..len).map(|i| c * (1. + d * f64::powi(q, i as i32))).collect()
        }
        "step" => {
            let k0 = rng.usize_below(len.max(1));
            let c2 = c * *rng.pick(&[0.5, 0.9, 0.999, 2.]);
            (0..len).map(|i| if i < k0 { c } else { c2 }).collect()
        }
        "uniform" => {
            let s = *rng.pick(&[1e-3, 0.1, 1., 1.9]);
            (0..len).map(|_| c * (1. + s * (rng.f64() - 0.5))).collect()
        }
        "zeros" => vec![0.; len],
        "zero-then-value" => {
            let k0 = rng.usize_below(len.max(1));
            (0..len).map(|i| if i < k0 { 0. } else { c }).collect()
        }
        _ => (0..len).map(|i| if i % 2 == 0 { c } else { -c }).collect(),
    };
    v.into_iter().map(clamp_fitness).collect()
}

#[derive(Debug, Clone, PartialEq)]
enum Verdict {
    Below,
    Above,
    Unspecified(&'static str),
}

/// Own coefficient-of-variation decision for one objective over a full window.
fn cv_verdict(values: &[f64], threshold: f64) -> Verdict {
    if values.len() < 2 {
        return Verdict::Unspecified("window of one value");
    }
    let n = values.len() as f64;
    let m = values.iter().fold(0f64, |a, v| a.max(v.abs()));
    if m == 0. {
        // constant zero: no variation at all
        return if threshold > 0. { Verdict::Below } else { Verdict::Unspecified("cv equals threshold") };
    }
    let u: Vec<f64> = values.iter().map(|v| v / m).collect();
    let mean = u.iter().sum::<f64>() / n;
    let ss = u.iter().map(|x| (x - mean) * (x - mean)).sum::<f64>();
    let sd_pop = (ss / n).sqrt();
    if sd_pop <= 1e-15 {
        // constant up to rounding of the mean
        return if threshold > 1e-9 {
            Verdict::Below
        } else {
            Verdict::Unspecified("cv within rounding of threshold")
        };
    }
    if mean.abs() < 1e-3 {
        return Verdict::Unspecified("zero mean with non-zero deviation");
    }
    let sd_sample = (ss / (n - 1.)).sqrt();
    // the documentation does not say which estimator nor whether the sign of the mean counts: decide only
    // when all readings agree and none is within 1e-9 (relative) of the threshold
    let readings = [sd_pop / mean, sd_pop / mean.abs(), sd_sample / mean, sd_sample / mean.abs()];
    if readings.iter().any(|cv| (cv - threshold).abs() <= 1e-9 * threshold.max(cv.abs()) + 1e-12) {
        return Verdict::Unspecified("cv within 1e-9 of threshold");
    }
    if readings.iter().all(|cv| *cv < threshold) {
        Verdict::Below
    } else if readings.iter().all(|cv| *cv > threshold) {
        Verdict::Above
    } else if mean < 0. {
        Verdict::Unspecified("negative mean: sign convention of cv undocumented")
    } else {
        Verdict::Unspecified("estimator (n vs n-1) undocumented")
    }
}

#[derive(Debug, Clone, PartialEq)]
enum Expect {
    Fire,
    /// must not fire; the payload is the index of the first objective above the threshold
    NoFire(usize),
    Unspecified(&'static str),
}

/// Own model of the sample window: the value sampled last in each generation.
struct WindowOracle {
    sample: usize,
    threshold: f64,
    by_generation: BTreeMap<usize, Vec<f64>>,
}

impl WindowOracle {
    fn record(&mut self, generation: usize, fitness: Vec<f64>) {
        self.by_generation.insert(generation, fitness);
    }

    fn window(&self, generation: usize) -> Option<Vec<&Vec<f64>>> {
        if generation + 1 < self.sample {
            return None;
        }
        (generation + 1 - self.sample..=generation).map(|g| self.by_generation.get(&g)).collect()
    }

    fn expect(&self, generation: usize) -> Expect {
        let Some(window) = self.window(generation) else {
            return Expect::Unspecified("window not yet full");
        };
        let n_obj = window[0].len();
        let mut unspecified = None;
        for j in 0..n_obj {
            let values: Vec<f64> = window.iter().map(|f| f[j]).collect();
            match cv_verdict(&values, self.threshold) {
                Verdict::Above => return Expect::NoFire(j),
                Verdict::Unspecified(why) => unspecified = unspecified.or(Some(why)),
                Verdict::Below => {}
            }
        }
        match unspecified {
            Some(why) => Expect::Unspecified(why),
            None => Expect::Fire,
        }
    }
}

struct MinVarCase {
    case_seed: u64,
    context: String,
    population: String,
    sample: usize,
    threshold: f64,
    is_global: bool,
    series_kinds: Vec<&'static str>,
}

/// Compares one `is_termination` answer with the oracle. Returns false on a violation.
fn judge_minvar(run: &Run, case: &MinVarCase, oracle: &WindowOracle, generation: usize, phase: usize, actual: bool) -> bool {
    run.eval();
    let expect = if !case.is_global && phase != 2 { Expect::Unspecified("is_global = false outside exploitation phase (undocumented)") } else { oracle.expect(generation) };
    let art = |extra: Value| {
        let window: Vec<Value> = oracle.window(generation).map(|w| w.iter().map(|f| fjv(f)).collect()).unwrap_or_default();
        json!({"part": "termination", "case_seed": case.case_seed, "context": case.context, "population": case.population, "sample": case.sample,
            "threshold": fj(case.threshold), "is_global": case.is_global, "series": case.series_kinds, "generation": generation,
            "window(oldest..newest)": window, "is_termination": actual, "detail": extra})
    };
    match (&expect, actual) {
        (Expect::Fire, true) => run.observe("term.minvar.verdict", "fired, every objective below threshold"),
        (Expect::NoFire(_), false) => run.observe("term.minvar.verdict", "silent, an objective above threshold"),
        (Expect::Fire, false) => {
            run.violation("C18|minvar-sample|missed-fire", &format!("MinVariation(sample={}, threshold={:e}) did not fire at generation {generation} although the coefficient of variation of every objective over the window is below the threshold", case.sample, case.threshold), art(json!(null)));
            return false;
        }
        (Expect::NoFire(j), true) => {
            run.violation(&format!("C18|minvar-sample|spurious-fire|violating-objective={}", if *j == 0 { "first" } else { "later" }),
                &format!("MinVariation(sample={}, threshold={:e}) fired at generation {generation} although objective #{j} varies above the threshold over the window", case.sample, case.threshold), art(json!({"objective": j})));
            return false;
        }
        (Expect::Unspecified(why), _) => run.observe("term.minvar.unspecified", &format!("{why} -> {}", if actual { "fired" } else { "silent" })),
    }
    true
}

fn check_estimate(run: &Run, case_seed: u64, kind: &str, detail: &str, generation: usize, res: Result<f64, vverif::PanicInfo>) -> bool {
    run.eval();
    let art = |extra: Value| json!({"part": "termination", "case_seed": case_seed, "termination": kind, "config": detail, "generation": generation, "detail": extra});
    match res {
        Err(p) => {
            run.violation(&format!("C18|estimate|{kind}|panic|{}", p.file()), &format!("{kind}({detail})::estimate panicked at generation {generation}: {}", clip(&p.message, 160)), art(p.to_json()));
            false
        }
        Ok(e) if !(e.is_finite() && (0. ..=1.).contains(&e)) => {
            run.violation(&format!("C18|estimate|{kind}|outside-unit-interval"), &format!("{kind}({detail})::estimate returned {e:e} at generation {generation}, outside [0, 1]"), art(json!({"estimate": fj(e)})));
            false
        }
        Ok(_) => {
            run.observe("term.estimate.kind", kind);
            true
        }
    }
}

type VecTermination = Box<dyn Termination<Context = VectorContext, Objective = VectorObjective>>;

fn make_vec_termination(rng: &mut Rng, depth: usize, key: &mut i32) -> (VecTermination, &'static str, String, Option<usize>) {
    *key += 1;
    match rng.below(if depth < 2 { 7 } else { 5 }) {
        0 => {
            let limit = *rng.pick(&[0usize, 1, 2, 3, 5, 17, 1000, usize::MAX]);
            (Box::new(MaxGeneration::new(limit)), "MaxGeneration", format!("limit={limit}"), Some(limit))
        }
        1 => {
            let limit = *rng.pick(&[0., 5e-324, 1e-9, 1e-6, 1e-3, 1., 3600., 1e300, f64::MAX]);
            (Box::new(MaxTime::new(limit)), "MaxTime", format!("limit_in_secs={limit:e}"), None)
        }
        2 => {
            let target = *rng.pick(&[0., 1., -1., 1e-300, 1e150]);
            let thr = *rng.pick(&[0., 1e-9, 0.1, 1., 10.]);
            (Box::new(TargetProximity::new(vec![target], thr)), "TargetProximity", format!("target=[{target:e}], threshold={thr:e}"), None)
        }
        3 => {
            let sample = rng.range_usize(1, 8);
            let thr = *rng.pick(&[0., 1e-3, 0.1, 1.]);
            (Box::new(MinVariation::<VectorContext, VectorObjective, VectorSolution, i32>::new_with_sample(sample, thr, rng.chance(0.5), *key)), "MinVariation(sample)", format!("sample={sample}, threshold={thr:e}"), None)
        }
        4 => {
            let period = rng.range_usize(1, 3);
            let thr = *rng.pick(&[0., 1e-3, 0.1, 1.]);
            (Box::new(MinVariation::<VectorContext, VectorObjective, VectorSolution, i32>::new_with_period(period, thr, rng.chance(0.5), *key)), "MinVariation(period)", format!("period={period}s, threshold={thr:e}"), None)
        }
        _ => {
            let parts: Vec<_> = (0..rng.range_usize(0, 4)).map(|_| make_vec_termination(rng, depth + 1, key)).collect();
            let detail = format!("[{}]", parts.iter().map(|(_, k, d, _)| format!("{k}({d})")).collect::<Vec<_>>().join(", "));
            let min_limit = parts.iter().filter_map(|p| p.3).min();
            let name = if parts.is_empty() { "CompositeTermination(empty)" } else { "CompositeTermination" };
            (Box::new(CompositeTermination::new(parts.into_iter().map(|p| p.0).collect())), name, detail, min_limit)
        }
    }
}

/// estimate() of every termination kind along a generation history on `example::VectorContext`.
fn estimate_case(run: &Run, case_seed: u64, rng: &mut Rng) {
    let population = *rng.pick(&["greedy", "elitism", "latest"]);
    let phase = Arc::new(AtomicUsize::new(rng.usize_below(3)));
    let mut ctx = vector_context(population, phase, quiet_environment(false));
    let mut key = 100;
    let terminations: Vec<_> = (0..rng.range_usize(2, 6)).map(|_| make_vec_termination(rng, 0, &mut key)).collect();
    let generations = rng.range_usize(3, 40);
    let regime = *rng.pick(&[Regime::Positive, Regime::Negative, Regime::Mixed]);
    let mut beyond = false;
    for step in 0..=generations {
        // step 0: before the first generation (empty population, generation counter 0)
        if step > 0 {
            ctx.on_generation(vec![VectorSolution::make(&[random_fitness(regime, rng)], [0., step as f64])], 0., Timer::start());
        }
        let generation = ctx.statistics().generation;
        for (t, kind, detail, limit) in terminations.iter() {
            let res = run.guard(|| t.estimate(&ctx));
            if !check_estimate(run, case_seed, kind, detail, generation, res) {
                return;
            }
            beyond |= limit.is_some_and(|l| generation > l);
            let res = run.guard(|| t.is_termination(&mut ctx));
            if let Err(p) = res {
                run.violation(&format!("C18|is_termination|{kind}|panic|{}", p.file()), &format!("{kind}({detail})::is_termination panicked at generation {generation}: {}", clip(&p.message, 160)),
                    json!({"part": "termination", "case_seed": case_seed, "termination": kind, "config": detail, "generation": generation, "panic": p.to_json()}));
                return;
            }
            let res = run.guard(|| t.estimate(&ctx));
            if !check_estimate(run, case_seed, kind, detail, generation, res) {
                return;
            }
        }
    }
    if beyond {
        run.observe("term.estimate.beyond-limit", "generation > MaxGeneration limit");
        run.nontrivial(&format!("estimate|{case_seed}"));
    }
    if beyond && take_sample_slot(2, 1) {
        run.sample(json!({"part": "termination", "case": "estimate", "case_seed": case_seed, "population": population, "generations": generations,
            "terminations": terminations.iter().map(|(_, k, d, _)| format!("{k}({d})")).collect::<Vec<_>>()}));
    }
}

const THRESHOLDS: [f64; 10] = [0., 1e-9, 1e-6, 1e-3, 0.01, 0.1, 0.5, 1., 3., 100.];

fn minvar_params(rng: &mut Rng) -> (usize, f64, bool) {
    let sample = match rng.below(10) {
        0 => 1,
        1..=7 => rng.range_usize(2, 12),
        _ => rng.range_usize(13, 64),
    };
    (sample, *rng.pick(&THRESHOLDS), rng.chance(0.7))
}

/// MinVariation(sample) on `example::VectorContext`: one generation per history entry.
fn minvar_vector_case(run: &Run, case_seed: u64, rng: &mut Rng) {
    let (sample, threshold, is_global) = minvar_params(rng);
    let population = *rng.pick(&["latest", "latest", "greedy", "elitism"]);
    let phase_code = if is_global { rng.usize_below(3) } else { *rng.pick(&[2, 2, 1, 0]) };
    let phase = Arc::new(AtomicUsize::new(phase_code));
    let mut ctx = vector_context(population, phase, quiet_environment(false));
    let kind = *rng.pick(&SERIES_KINDS);
    let len = sample + rng.range_usize(0, 3 * sample + 6);
    let series = gen_series(rng, len, threshold, kind);
    let case = MinVarCase { case_seed, context: "example::VectorContext".into(), population: population.into(), sample, threshold, is_global, series_kinds: vec![kind] };
    run.observe("term.minvar.series", kind);
    run.observe("term.minvar.context", &format!("{}|{}", case.context, population));
    let termination = MinVariation::<VectorContext, VectorObjective, VectorSolution, i32>::new_with_sample(sample, threshold, is_global, 7);
    let mut oracle = WindowOracle { sample, threshold, by_generation: BTreeMap::new() };
    let mut decided = 0;
    for (k, f) in series.iter().enumerate() {
        ctx.on_generation(vec![VectorSolution::make(&[*f], [0., k as f64])], 0., Timer::start());
        let generation = ctx.statistics().generation;
        // the effective phase is the population's (greedy and elitism always exploit)
        let phase_now = if ctx.selection_phase() == SelectionPhase::Exploitation { 2 } else { 0 };
        let Some(best) = ctx.ranked().next().map(|b| b.fit()) else {
            run.inconclusive("minvar: population empty after adding a solution");
            return;
        };
        oracle.record(generation, best);
        let res = run.guard(|| termination.is_termination(&mut ctx));
        match res {
            Err(p) => {
                run.violation(&format!("C18|minvar-sample|panic|{}", p.file()), &format!("MinVariation(sample={sample})::is_termination panicked at generation {generation}: {}", clip(&p.message, 160)),
                    json!({"part": "termination", "case_seed": case_seed, "generation": generation, "panic": p.to_json()}));
                return;
            }
            Ok(actual) => {
                if !matches!(oracle.expect(generation), Expect::Unspecified(_)) {
                    decided += 1;
                }
                if !judge_minvar(run, &case, &oracle, generation, phase_now, actual) {
                    return;
                }
            }
        }
    }
    if decided > 0 {
        run.nontrivial(&format!("minvar|vec|{population}|{sample}|{threshold:e}|{kind}|{:x}", hash_f64s(&series)));
    }
    if decided > 0 && len <= 8 && take_sample_slot(3, 1) {
        run.sample(json!({"part": "termination", "case": "MinVariation(sample) on example::VectorContext", "case_seed": case_seed, "population": population, "sample": sample,
            "threshold": fj(threshold), "is_global": is_global, "series_kind": kind, "fitness_history": fjv(&series), "decided_verdicts": decided}));
    }
}

/// MinVariation(sample) on the own N-objective context: generation counter chosen by the workload
/// (repeated calls within a generation, late start, skipped generations).
fn minvar_mo_case(run: &Run, case_seed: u64, rng: &mut Rng) {
    let (sample, threshold, is_global) = minvar_params(rng);
    let n_obj = rng.range_usize(1, 4);
    let phase = Arc::new(AtomicUsize::new(2));
    let mut ctx = mo_context("latest", phase.clone(), quiet_environment(false));
    let len = sample + rng.range_usize(0, 3 * sample + 6);
    // often: every objective quiet except one (at a random position)
    let varying = rng.usize_below(n_obj);
    let quiet_others = rng.chance(0.5);
    let kinds: Vec<&'static str> = (0..n_obj).map(|j| if quiet_others && j != varying { *rng.pick(&["const", "zeros", "jitter"]) } else { *rng.pick(&SERIES_KINDS) }).collect();
    let series: Vec<Vec<f64>> = kinds.iter().map(|k| gen_series(rng, len, threshold, k)).collect();
    let schedule = *rng.pick(&["every-generation", "every-generation", "every-generation", "late-start", "skips", "repeats"]);
    let case = MinVarCase { case_seed, context: "own-n-objective-context".into(), population: "latest".into(), sample, threshold, is_global, series_kinds: kinds.clone() };
    for k in kinds.iter() {
        run.observe("term.minvar.series", k);
    }
    run.observe("term.minvar.context", &format!("{}|objectives={n_obj}", case.context));
    run.observe("term.minvar.schedule", schedule);
    let termination = MinVariation::<MoContext, MoObjective, MoSolution, i32>::new_with_sample(sample, threshold, is_global, 3);
    let mut oracle = WindowOracle { sample, threshold, by_generation: BTreeMap::new() };
    let mut generation = if schedule == "late-start" { rng.range_usize(1, 2 * sample + 2) } else { 0 };
    let mut decided = 0;
    for k in 0..len {
        let fitness: Vec<f64> = series.iter().map(|s| s[k]).collect();
        ctx.population.add(MoSolution::make(&fitness, [0., k as f64]));
        ctx.stats.generation = generation;
        let phase_now = if is_global { rng.usize_below(3) } else { *rng.pick(&[2, 2, 2, 1, 0]) };
        phase.store(phase_now, AO::Relaxed);
        oracle.record(generation, fitness);
        let res = run.guard(|| termination.is_termination(&mut ctx));
        match res {
            Err(p) => {
                run.violation(&format!("C18|minvar-sample|panic|{}", p.file()), &format!("MinVariation(sample={sample})::is_termination panicked at generation {generation}: {}", clip(&p.message, 160)),
                    json!({"part": "termination", "case_seed": case_seed, "generation": generation, "panic": p.to_json()}));
                return;
            }
            Ok(actual) => {
                if (is_global || phase_now == 2) && !matches!(oracle.expect(generation), Expect::Unspecified(_)) {
                    decided += 1;
                }
                if !judge_minvar(run, &case, &oracle, generation, phase_now, actual) {
                    return;
                }
            }
        }
        generation += match schedule {
            "skips" if rng.chance(0.15) => 2,
            "repeats" if rng.chance(0.3) => 0,
            _ => 1,
        };
    }
    if decided > 0 {
        run.nontrivial(&format!("minvar|mo|{n_obj}|{sample}|{threshold:e}|{kinds:?}|{schedule}|{:x}", hash_f64s(&series.concat())));
    }
}

/// MinVariation(period): wall-clock based, so only exercised for panics (incl. the buffer thinning above 1000 entries).
fn minvar_period_smoke(run: &Run, case_seed: u64, rng: &mut Rng) {
    let mut ctx = mo_context("latest", Arc::new(AtomicUsize::new(2)), quiet_environment(false));
    let termination = MinVariation::<MoContext, MoObjective, MoSolution, i32>::new_with_period(rng.range_usize(1, 3), *rng.pick(&THRESHOLDS), true, 5);
    let n_obj = rng.range_usize(1, 3);
    let calls = rng.range_usize(1, 2300);
    for k in 0..calls {
        let fitness: Vec<f64> = (0..n_obj).map(|_| random_fitness(Regime::Mixed, rng)).collect();
        ctx.population.add(MoSolution::make(&fitness, [0., k as f64]));
        ctx.stats.generation = k;
        let res = run.guard(|| termination.is_termination(&mut ctx));
        if let Err(p) = res {
            run.violation(&format!("C18|minvar-period|panic|{}", p.file()), &format!("MinVariation(period)::is_termination panicked at call {k}: {}", clip(&p.message, 160)),
                json!({"part": "termination", "case_seed": case_seed, "call": k, "panic": p.to_json()}));
            return;
        }
    }
    run.eval();
    run.observe("term.minvar.period-smoke", if calls > 1000 { "more than 1000 samples (buffer thinning)" } else { "up to 1000 samples" });
}

fn term_case(run: &Run, case_seed: u64) {
    let mut rng = Rng::new(case_seed);
    match rng.below(100) {
        0..=24 => estimate_case(run, case_seed, &mut rng),
        25..=54 => minvar_vector_case(run, case_seed, &mut rng),
        55..=97 => minvar_mo_case(run, case_seed, &mut rng),
        _ => minvar_period_smoke(run, case_seed, &mut rng),
    }
}

// =============================================================================================
// replay and main

fn replay(run: &Run, path: &std::path::Path) {
    let doc: Value = match std::fs::read_to_string(path).ok().and_then(|t| serde_json::from_str(&t).ok()) {
        Some(d) => d,
        None => {
            println!("INCONCLUSIVE property=C18 cannot read replay artefact {}", path.display());
            std::process::exit(2);
        }
    };
    let art = &doc["artefact"];
    let case_seed = art["case_seed"].as_u64().unwrap_or(0);
    let part = art["part"].as_str().unwrap_or("");
    println!("replaying part={part} case_seed={case_seed} (recorded signature: {})", doc["signature"].as_str().unwrap_or("?"));
    match part {
        "slot" => slot_case(run, case_seed),
        "helpers" => helpers_case(run, case_seed),
        "termination" => term_case(run, case_seed),
        "dynsel" => {
            // 1. the deterministic oracle on the recorded telemetry row
            let cfg_json = &art["cfg"];
            let regime = match cfg_json["fitness_sign"].as_str() {
                Some("non-positive") => Regime::Negative,
                Some("mixed") => Regime::Mixed,
                _ => Regime::Positive,
            };
            let names: Vec<String> = cfg_json["operators"].as_array().map(|a| a.iter().filter_map(|n| n.as_str().map(String::from)).collect()).unwrap_or_default();
            let cfg = DynCfg { case_seed, ctx_kind: cfg_json["context"].as_str().unwrap_or("").into(), population: cfg_json["population"].as_str().unwrap_or("").into(),
                n_obj: cfg_json["objectives"].as_u64().unwrap_or(1) as usize, regime, names, kinds: vec![] };
            let row = art["row"].as_str().unwrap_or("").to_string();
            let fields: Vec<&str> = row.split(',').collect();
            let verdict = if art["section"].as_str() == Some("search") {
                check_search_row(&fields, &cfg)
            } else {
                let fed: Option<Vec<f64>> = art["rewards_fed"].as_array().map(|a| a.iter().filter_map(|v| v.as_str().and_then(|s| s.parse().ok())).collect());
                check_param_row(&fields, &cfg, fed.as_deref())
            };
            run.eval();
            if let Some((sig, what)) = verdict {
                run.violation(&sig, &format!("[recorded telemetry row] {what}"), art.clone());
            }
            // 2. best effort: the same seeded case again (operator choice is random, so it may differ)
            println!("best-effort re-run of the seeded case (Thompson sampling is not seed-reproducible):");
            dynsel_case(run, case_seed);
        }
        _ => {
            println!("INCONCLUSIVE property=C18 unknown artefact part '{part}'");
            std::process::exit(2);
        }
    }
}

fn main() {
    let run = Run::from_args("C18", "exploration", RULE, 40, 420);
    if let Some(path) = run.replay.clone() {
        replay(&run, &path);
        run.finish();
    }
    run.assume("rewards fed to SlotMachine directly are non-negative floats in {0, denormals, 1e-300 .. 1e6}; prior means in {0, 1e-300, 1, 6, 18, 1e6}");
    run.assume("hull check of the mean uses eps = 1e-9 * max(1, |prior|, max reward) (rounding against the prior mean)");
    run.assume("the sampler hands the real DefaultDistributionSampler results through; only an exactly-zero gamma sample (the case sample() documents a guard for) is injected, never other out-of-support values");
    run.assume("fitness values are finite with |f| <= 1e150 (differences do not overflow); MinVariation histories use f = 0 or 1e-140 <= |f| <= 1e140");
    run.assume("documented reward bound = 3*(N+1) * 3: relative distance documented as [-N, N], +1 per distance, best-known weight 2, performance multiplier documented as (~0.5, 3]; 18 for the scalar example problem");
    run.assume("MinVariation is decided only on full windows (a sample in each of the last `sample` generations, window >= 2) and when population/sample standard deviation and signed/absolute mean all give the same side of the threshold, none within 1e-9 relative; zero (or cancelling) mean with deviation, is_global = false outside the exploitation phase and the period based variant (wall clock) are not decided");
    run.assume("Thompson sampling inside DynamicSelective is not seed reproducible (thread local generator): violations carry the literal telemetry row and inputs; replay re-judges the recorded row");

    let q = run.is_quick();
    par_for(16, if q { 150_000 } else { 3_000_000 }, &|| !run.has_time_frac(0.30), &|i| slot_case(&run, case_seed_of(run.seed, PART_SLOT, i)));
    par_for(16, if q { 300_000 } else { 4_000_000 }, &|| !run.has_time_frac(0.42), &|i| helpers_case(&run, case_seed_of(run.seed, PART_HELPERS, i)));
    par_for(6, if q { 8_000 } else { 100_000 }, &|| !run.has_time_frac(0.72), &|i| dynsel_case(&run, case_seed_of(run.seed, PART_DYNSEL, i)));
    par_for(16, if q { 300_000 } else { 6_000_000 }, &|| !run.has_time(), &|i| term_case(&run, case_seed_of(run.seed, PART_TERM, i)));

    // floors: everything the property talks about must have been exercised
    run.floor("evaluations", run.evaluations(), 100_000);
    run.floor("distinct non-trivial cases", run.distinct_nontrivial(), 1000);
    for kind in STREAM_KINDS {
        run.floor(&format!("slot stream '{kind}'"), run.observed("slot.stream", kind), 20);
    }
    run.floor("slot sampler gamma calls", run.observed("slot.calls", "sampler.gamma"), 10_000);
    run.floor("slot sampler normal calls", run.observed("slot.calls", "sampler.normal"), 10_000);
    run.floor("slot forced zero precision", run.observed("slot.calls", "sampler.gamma-forced-zero"), 100);
    for class in ["all-equal", "ties-at-max", "inf-mix", "all-neg-inf", "signed-zeros", "one-ulp-apart"] {
        run.floor(&format!("argmax class '{class}'"), run.observed("helpers.argmax.class", class), 20);
    }
    for class in ["single", "all-zero", "one-positive", "zeros-and-positives", "one-vs-max"] {
        run.floor(&format!("weighted class '{class}'"), run.observed("helpers.weighted.class", class), 20);
    }
    for f in ["SelectionSamplingIterator", "create_range_sampling_iter", "sample_search"] {
        run.floor(&format!("sampling fn '{f}'"), run.observed("helpers.sampling.fn", f), 20);
    }
    for kind in KINDS {
        run.floor(&format!("dynsel operator '{}' chosen", kind.name()), run.observed("dynsel.operator-chosen", kind.name()), 10);
    }
    for class in ["0", "(0,0.1]", "(1,6]", "(6,18]"] {
        run.floor(&format!("dynsel reward class {class}"), run.observed("dynsel.reward-class", class), 5);
    }
    for t in ["best->best", "best->diverse", "diverse->best", "diverse->diverse"] {
        run.floor(&format!("dynsel transition {t}"), run.observed("dynsel.transition", t), 5);
    }
    run.floor("dynsel parameter rows with n>0", run.observed("dynsel.param-rows", "n>0"), 100);
    for api in ["search_many", "search", "diversify", "diversify_many (solutions)"] {
        run.floor(&format!("dynsel api {api}"), run.observed("dynsel.api", api), 5);
    }
    for kind in ["MaxGeneration", "MaxTime", "TargetProximity", "MinVariation(sample)", "MinVariation(period)", "CompositeTermination", "CompositeTermination(empty)"] {
        run.floor(&format!("estimate of {kind}"), run.observed("term.estimate.kind", kind), 20);
    }
    run.floor("estimate beyond MaxGeneration limit", run.observed("term.estimate.beyond-limit", "generation > MaxGeneration limit"), 10);
    run.floor("MinVariation decided: fired", run.observed("term.minvar.verdict", "fired, every objective below threshold"), 200);
    run.floor("MinVariation decided: silent", run.observed("term.minvar.verdict", "silent, an objective above threshold"), 200);
    run.finish();
}
