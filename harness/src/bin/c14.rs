//! C14 – tours and the vehicle registry stay well-formed under any operation sequence.
//!
//! Reference-model (lock-step) monitor: operation histories are applied to the real `Tour` / `Route` /
//! `RouteContext` / `Registry` / `RegistryContext` / `SolutionContext` and to tiny Vec/bitset models written from the
//! property text and the doc comments of the public methods; the two are compared after EVERY step.
//! Part 1 enumerates all op sequences of a fixed length (quick 4, thorough 5) over a 3-job alphabet (tour) and a
//! 4-actor fleet (registry), part 2 runs seeded random histories of up to 40 ops on larger alphabets / fleets.

use rosomaxa::prelude::{Float, Random, RandomGen};
use serde::{Deserialize, Serialize};
use serde_json::{Value, json};
use std::collections::{HashMap, HashSet};
use std::hash::{Hash, Hasher};
use std::sync::atomic::{AtomicBool, AtomicU8, AtomicU64, Ordering};
use std::sync::{Arc, Mutex};
use vrp_core::construction::features::TransportFeatureBuilder;
use vrp_core::construction::heuristics::{InsertionContext, RegistryContext, RouteContext, SolutionContext};
use vrp_core::models::common::{Schedule, TimeWindow};
use vrp_core::models::problem::{
    Actor, Costs, Driver, Fleet, Job, MultiBuilder, SimpleTransportCost, Single, SingleBuilder, TransportCost,
    VehicleBuilder, VehicleDetailBuilder,
};
use vrp_core::models::solution::{Activity, Place, Registry, Route, Tour};
use vrp_core::models::{GoalContextBuilder, Problem, ProblemBuilder, Solution};
use vverif::{PanicInfo, Rng, Run, guard, mix, par_for};

const RULE: &str = "case = one operation history applied in lock-step to the real structure and to a Vec/bitset reference model, \
compared after every step (in the enumeration every distinct prefix is compared once: a prefix shared with the preceding sequence is replayed without repeating its comparisons). Exhaustive part: every op sequence of length L (quick 4, thorough 5; all shorter sequences are \
prefixes) over Tour{insert_at(sub-job,index in 1..=n+1), insert_last, remove(job), remove_activity_at(1..=n), deep_copy(continue \
on copy|original)} x 3-job alphabet (2 singles + one 2-task multi job) x {Tour::new, set_start/set_end, Route, RouteContext} x \
{closed, open}, and over Registry{use_actor, free_actor, deep_copy, deep_slice} / RegistryContext{get_route, use_route, \
free_route, deep_copy, SolutionContext::deep_copy, deep_slice} x 4-actor fleet (+1 foreign actor). Random part: seeded histories \
of 1..=40 ops on a 5-job alphabet (two multi jobs) and fleets of 1..12 actors (several types x ids x shifts, default and custom \
grouping). DISTINCT NON-TRIVIAL = distinct (reference-model state, operation) pairs whose operation is effective (changes state, \
or is an acquire/release/copy/slice on a member actor), measured with a hash set (capped, see distinct_cap_hit).";

const MAX_VIOLATIONS: u64 = 2_000;
const DISTINCT_CAP: u64 = 3_000_000;
const START_LOC_BASE: usize = 0; // actor a starts at location a
const END_LOC_BASE: usize = 32; // closed actor a ends at location 32 + a
const JOB_LOC_BASE: usize = 64;
const FOREIGN_START_LOC: usize = 31;
const MATRIX: usize = 96;

// ---------------------------------------------------------------------------------------------
// shared bookkeeping

struct Shared {
    shards: Vec<Mutex<HashSet<u64>>>,
    distinct_total: AtomicU64,
    distinct_cap_hit: AtomicBool,
    step_checks: AtomicU64,
    harness_panics: AtomicU64,
    violations: AtomicU64,
}

impl Shared {
    fn new() -> Self {
        Self {
            shards: (0..64).map(|_| Mutex::new(HashSet::new())).collect(),
            distinct_total: AtomicU64::new(0),
            distinct_cap_hit: AtomicBool::new(false),
            step_checks: AtomicU64::new(0),
            harness_panics: AtomicU64::new(0),
            violations: AtomicU64::new(0),
        }
    }

    fn too_many_violations(&self) -> bool {
        self.violations.load(Ordering::Relaxed) >= MAX_VIOLATIONS
    }
}

#[derive(Default)]
struct Stats {
    tables: HashMap<(&'static str, &'static str), u64>,
    distinct: HashSet<u64>,
    step_checks: u64,
    evals: u64,
}

/// Per-task context: run handle + locally buffered statistics (flushed once per task).
struct Cx<'a> {
    run: &'a Run,
    shared: &'a Shared,
    stats: Stats,
}

impl<'a> Cx<'a> {
    fn new(run: &'a Run, shared: &'a Shared) -> Self {
        Self { run, shared, stats: Stats::default() }
    }

    fn obs(&mut self, table: &'static str, key: &'static str) {
        *self.stats.tables.entry((table, key)).or_default() += 1;
    }

    fn distinct<T: Hash>(&mut self, key: &T) {
        let mut h = std::collections::hash_map::DefaultHasher::new();
        key.hash(&mut h);
        self.stats.distinct.insert(h.finish());
    }

    fn flush(&mut self) {
        for ((table, key), n) in self.stats.tables.drain() {
            self.run.observe_n(table, key, n);
        }
        for k in self.stats.distinct.drain() {
            if self.shared.distinct_total.load(Ordering::Relaxed) >= DISTINCT_CAP {
                self.shared.distinct_cap_hit.store(true, Ordering::Relaxed);
                break;
            }
            let mut shard = self.shared.shards[(k % 64) as usize].lock().unwrap();
            if shard.insert(k) {
                self.shared.distinct_total.fetch_add(1, Ordering::Relaxed);
            }
        }
        self.stats.distinct.clear();
        self.shared.step_checks.fetch_add(self.stats.step_checks, Ordering::Relaxed);
        self.stats.step_checks = 0;
        self.run.eval_n(self.stats.evals);
        self.stats.evals = 0;
    }

    /// Reports a panic raised while driving the code under test (or, if raised in this file, a harness failure).
    fn report_panic(&mut self, part: &str, opname: &str, p: &PanicInfo, artefact: Value) {
        if p.file().starts_with("src/bin/c14") || p.file().contains("h-c14") {
            self.shared.harness_panics.fetch_add(1, Ordering::Relaxed);
            self.run.inconclusive(&format!("harness panic at {}: {}", p.location, vverif::clip(&p.message, 120)));
            return;
        }
        self.shared.violations.fetch_add(1, Ordering::Relaxed);
        let mut artefact = artefact;
        artefact["panic"] = p.to_json();
        self.run.violation(
            &format!("C14|{part}|panic|{}|op={opname}", p.file()),
            &format!("panic inside the documented domain during {opname}: {} at {}", vverif::clip(&p.message, 160), p.location),
            artefact,
        );
    }

    fn report(&mut self, part: &str, inv: &str, opname: &str, detail: &str, artefact: Value) {
        self.shared.violations.fetch_add(1, Ordering::Relaxed);
        self.run.violation(&format!("C14|{part}|{inv}|op={opname}"), &format!("{inv} after {opname}: {detail}"), artefact);
    }
}

struct Fail {
    inv: &'static str,
    detail: String,
}

fn fail<T>(inv: &'static str, detail: String) -> Result<T, Fail> {
    Err(Fail { inv, detail })
}

// ---------------------------------------------------------------------------------------------
// harness-owned Random (the registry draws the representative of a group through it)

struct SeqRandom {
    rng: Mutex<Rng>,
    /// 0: always `min`, 1: always `max`, 2: uniform in the closed interval.
    mode: AtomicU8,
}

impl SeqRandom {
    fn new(seed: u64) -> Self {
        Self { rng: Mutex::new(Rng::new(seed)), mode: AtomicU8::new(2) }
    }

    fn set_mode(&self, mode: u8) {
        self.mode.store(mode, Ordering::Relaxed);
    }
}

impl Random for SeqRandom {
    fn uniform_int(&self, min: i32, max: i32) -> i32 {
        if min >= max {
            return min;
        }
        match self.mode.load(Ordering::Relaxed) {
            0 => min,
            1 => max,
            _ => min + self.rng.lock().unwrap().below((max - min) as u64 + 1) as i32,
        }
    }

    fn uniform_real(&self, min: Float, max: Float) -> Float {
        if !(min < max) {
            return min;
        }
        min + (max - min) * self.rng.lock().unwrap().f64() as Float
    }

    fn is_head_not_tails(&self) -> bool {
        self.rng.lock().unwrap().chance(0.5)
    }

    fn is_hit(&self, probability: Float) -> bool {
        self.rng.lock().unwrap().chance(probability as f64)
    }

    fn weighted(&self, weights: &[usize]) -> usize {
        let w: Vec<f64> = weights.iter().map(|&w| w as f64).collect();
        self.rng.lock().unwrap().weighted(&w)
    }

    fn get_rng(&self) -> RandomGen {
        RandomGen::new_repeatable()
    }
}

// ---------------------------------------------------------------------------------------------
// world: job alphabets and fleets built with the public builders (one world per worker thread)

struct Sub {
    job: usize,
    single: Arc<Single>,
}

struct Alphabet {
    name: &'static str,
    jobs: Vec<Job>,
    job_names: Vec<String>,
    subs: Vec<Sub>,
    /// jobs whose tasks' dimensions were copied into a re-created multi job of the alphabet (kept alive on purpose)
    _originals: Vec<Job>,
}

impl Alphabet {
    fn build(name: &'static str, singles: usize, multis: &[usize]) -> Self {
        let mut jobs = vec![];
        let mut job_names = vec![];
        let mut subs: Vec<Sub> = vec![];
        let mut originals: Vec<Job> = vec![];
        for i in 0..singles {
            let id = format!("{name}-s{i}");
            let job = SingleBuilder::default()
                .id(&id)
                .location(JOB_LOC_BASE + subs.len())
                .and_then(|b| b.duration(1.))
                .and_then(|b| b.build_as_job())
                .expect("single job");
            subs.push(Sub { job: jobs.len(), single: job.to_single().clone() });
            jobs.push(job);
            job_names.push(id);
        }
        for (mi, &tasks) in multis.iter().enumerate() {
            let id = format!("{name}-m{mi}");
            let mut builder = MultiBuilder::default().id(&id);
            for t in 0..tasks {
                let single = SingleBuilder::default()
                    .id(&format!("{id}.{t}"))
                    .location(JOB_LOC_BASE + subs.len() + t)
                    .and_then(|b| b.duration(1.))
                    .and_then(|b| b.build())
                    .expect("sub job");
                builder = builder.add_job(single);
            }
            let job = builder.build_as_job().expect("multi job");
            // the last multi job of an alphabet with several of them is RE-CREATED from the tasks of the one just built, the
            // way a problem transformation copies job properties (places and dimensions cloned, new `Multi`): its tasks must
            // resolve to the new job, not to the job their dimensions were copied from (which stays alive next to it)
            let job = if multis.len() > 1 && mi + 1 == multis.len() {
                let original = job.to_multi().clone();
                let copies: Vec<Arc<Single>> =
                    original.jobs.iter().map(|s| Arc::new(Single { places: s.places.clone(), dimens: s.dimens.clone() })).collect();
                let rebuilt = Job::Multi(vrp_core::models::problem::Multi::new_shared(copies, original.dimens.clone()));
                originals.push(job);
                rebuilt
            } else {
                job
            };
            for single in job.to_multi().jobs.iter() {
                subs.push(Sub { job: jobs.len(), single: single.clone() });
            }
            jobs.push(job);
            job_names.push(id);
        }
        Self { name, jobs, job_names, subs, _originals: originals }
    }

    fn job_index(&self, job: &Job) -> Option<usize> {
        self.jobs.iter().position(|j| j == job)
    }

    fn is_multi(&self, job: usize) -> bool {
        matches!(self.jobs[job], Job::Multi(_))
    }

    fn names(&self, mask: u32) -> Vec<&str> {
        self.job_names.iter().enumerate().filter(|(i, _)| mask >> i & 1 == 1).map(|(_, n)| n.as_str()).collect()
    }
}

struct VSpec {
    profile: usize,
    typ: usize,
    /// one entry per shift: true = closed tour (has an end place)
    shifts: Vec<bool>,
    /// all shifts of the vehicle are the SAME detail (same places and times): the actors differ only by identity
    twin: bool,
}

#[derive(Clone, Copy, PartialEq)]
enum Grouping {
    /// `ProblemBuilder` default: actors with the same profile index form a group
    Profile,
    /// custom similarity passed through `with_vehicle_similarity`: (vehicle type, shift index)
    TypeShift,
}

struct FleetWorld {
    name: &'static str,
    problem: Arc<Problem>,
    /// actors in the harness's own numbering (actor `a` starts at location `a`)
    actors: Vec<Arc<Actor>>,
    /// group of each actor according to the harness's own reading of the spec (not read from `Fleet::groups`)
    group: Vec<usize>,
    closed: Vec<bool>,
    /// index of the start / end place of each actor (its own number, or the one of its first twin)
    place: Vec<usize>,
    /// an actor which belongs to another fleet
    foreign: Arc<Actor>,
}

impl FleetWorld {
    fn n(&self) -> usize {
        self.actors.len()
    }

    fn actor(&self, a: usize) -> &Arc<Actor> {
        if a < self.actors.len() { &self.actors[a] } else { &self.foreign }
    }

    /// Harness index of an actor (pointer identity); the foreign actor has index `n`.
    fn idx_of(&self, actor: &Actor) -> Option<usize> {
        if let Some(i) = self.actors.iter().position(|a| std::ptr::eq(Arc::as_ptr(a), actor)) {
            return Some(i);
        }
        if std::ptr::eq(Arc::as_ptr(&self.foreign), actor) { Some(self.actors.len()) } else { None }
    }

    fn build(name: &'static str, specs: Vec<VSpec>, grouping: Grouping, jobs: &[Job]) -> Self {
        let mut group = vec![];
        let mut closed = vec![];
        let mut places = vec![];
        let mut vehicles = vec![];
        for (vi, spec) in specs.iter().enumerate() {
            let mut vb = VehicleBuilder::default().id(&format!("{name}_v{vi}")).set_profile_idx(spec.profile);
            let first = group.len();
            for (si, &is_closed) in spec.shifts.iter().enumerate() {
                let a = group.len();
                // twins share the places of the vehicle's first shift
                let place = if spec.twin { first } else { a };
                let mut db = VehicleDetailBuilder::default().set_start_location(START_LOC_BASE + place).set_start_time(0.);
                if is_closed {
                    db = db.set_end_location(END_LOC_BASE + place).set_end_time(1_000_000.);
                }
                vb = vb.add_detail(db.build().expect("vehicle detail"));
                closed.push(is_closed);
                places.push(place);
                group.push(match grouping {
                    Grouping::Profile => spec.profile,
                    Grouping::TypeShift => spec.typ * 4 + si,
                });
            }
            vehicles.push(vb.build().expect("vehicle"));
        }
        let matrix: Vec<Float> =
            (0..MATRIX * MATRIX).map(|k| ((k / MATRIX) as Float - (k % MATRIX) as Float).abs()).collect();
        let transport: Arc<dyn TransportCost> =
            Arc::new(SimpleTransportCost::new(matrix.clone(), matrix).expect("transport"));
        let feature = TransportFeatureBuilder::new("transport")
            .set_transport_cost(transport.clone())
            .build_minimize_cost()
            .expect("transport feature");
        let goal = GoalContextBuilder::with_features(&[feature]).and_then(|b| b.build()).expect("goal");
        let mut pb = ProblemBuilder::default()
            .add_jobs(jobs.iter().cloned())
            .add_vehicles(vehicles.into_iter())
            .with_goal(goal)
            .with_transport_cost(transport)
            .with_logger(Arc::new(|_: &str| {}));
        if grouping == Grouping::TypeShift {
            let table = group.clone();
            pb = pb.with_vehicle_similarity(move |_| {
                let table = table.clone();
                Box::new(move |actor: &Actor| table[actor.detail.start.as_ref().map(|s| s.location).unwrap_or(0)])
            });
        }
        let problem = Arc::new(pb.build().expect("problem"));
        let n = group.len();
        let mut actors: Vec<Option<Arc<Actor>>> = vec![None; n];
        for actor in problem.fleet.actors.iter() {
            // identified by the start location; twins (same detail) take the next free slot behind it
            let mut loc = actor.detail.start.as_ref().expect("start").location;
            while loc < n && actors[loc].is_some() {
                loc += 1;
            }
            assert!(loc < n, "harness: cannot identify actor by start location");
            assert_eq!(actor.detail.end.is_some(), closed[loc], "harness: actor end does not follow the spec");
            actors[loc] = Some(actor.clone());
        }
        let actors: Vec<Arc<Actor>> = actors.into_iter().map(|a| a.expect("harness: actor missing in fleet")).collect();

        // a foreign actor: member of another fleet, built through the public `Fleet::new`
        let costs = Costs { fixed: 0., per_distance: 1., per_driving_time: 0., per_waiting_time: 0., per_service_time: 0. };
        let driver = Arc::new(Driver { costs, dimens: Default::default(), details: vec![] });
        let vehicle = VehicleBuilder::default()
            .id("foreign")
            .add_detail(
                VehicleDetailBuilder::default()
                    .set_start_location(FOREIGN_START_LOC)
                    .set_start_time(0.)
                    .set_end_location(FOREIGN_START_LOC)
                    .build()
                    .expect("detail"),
            )
            .build()
            .expect("vehicle");
        let other = Fleet::new(vec![driver], vec![Arc::new(vehicle)], |_| |_: &Actor| 0usize);
        let foreign = other.actors[0].clone();

        Self { name, problem, actors, group, closed, place: places, foreign }
    }
}

struct World {
    small: Alphabet,
    large: Alphabet,
    /// fleets[0] is the 4-actor fleet of the exhaustive part (actor 0 closed, actor 1 open)
    fleets: Vec<FleetWorld>,
}

impl World {
    fn build() -> Self {
        let small = Alphabet::build("a3", 2, &[2]);
        let large = Alphabet::build("a5", 3, &[2, 3]);
        let v = |profile, typ, shifts: &[bool]| VSpec { profile, typ, shifts: shifts.to_vec(), twin: false };
        let twins = |profile, typ, shifts: &[bool]| VSpec { profile, typ, shifts: shifts.to_vec(), twin: true };
        let fleets = vec![
            FleetWorld::build(
                "small4",
                vec![v(0, 0, &[true, false]), v(0, 0, &[true]), v(1, 1, &[false])],
                Grouping::Profile,
                &small.jobs,
            ),
            FleetWorld::build(
                "typed12",
                (0..6).map(|i| v(0, i / 2, &[true, false])).collect(),
                Grouping::TypeShift,
                &small.jobs,
            ),
            FleetWorld::build(
                "mixed9",
                vec![
                    v(0, 0, &[true]),
                    v(0, 0, &[true]),
                    v(0, 0, &[true]),
                    v(1, 1, &[false, true, false]),
                    v(1, 1, &[false, true, false]),
                ],
                Grouping::Profile,
                &small.jobs,
            ),
            FleetWorld::build("single1", vec![v(0, 0, &[true])], Grouping::Profile, &small.jobs),
            // vehicles whose shifts are one and the same detail: the actors are equal in every field and differ by identity only
            FleetWorld::build("twins7", vec![twins(0, 0, &[true, true]), twins(0, 0, &[false, false, false]), v(0, 0, &[true]), twins(1, 1, &[true, true])], Grouping::Profile, &small.jobs),
        ];
        Self { small, large, fleets }
    }

    fn alphabet(&self, name: &str) -> &Alphabet {
        if name == self.large.name { &self.large } else { &self.small }
    }

    fn fleet(&self, name: &str) -> &FleetWorld {
        self.fleets.iter().find(|f| f.name == name).unwrap_or(&self.fleets[0])
    }
}

thread_local! {
    static WORLD: World = World::build();
}

// ---------------------------------------------------------------------------------------------
// part (a): Tour / Route / RouteContext against a Vec model

struct VerifStateKey;

#[derive(Clone, Copy, Debug, PartialEq, Eq, Hash, Serialize, Deserialize)]
#[serde(rename_all = "snake_case")]
enum Kind {
    /// bare `Tour::new(actor)`
    TourNew,
    /// `Tour::default()` + `set_start` (+ `set_end`)
    TourManual,
    /// tour inside a `Route` (copied with `Route::deep_copy`)
    Route,
    /// tour inside a `RouteContext` (copied with `RouteContext::deep_copy`, carries a tour state value)
    RouteCtx,
}

const KINDS: [Kind; 4] = [Kind::TourNew, Kind::TourManual, Kind::Route, Kind::RouteCtx];

#[derive(Clone, Debug, PartialEq, Eq, Hash, Serialize, Deserialize)]
#[serde(rename_all = "snake_case")]
enum TOp {
    InsertAt { sub: usize, index: usize },
    InsertLast { sub: usize },
    Remove { job: usize },
    RemoveActivityAt { index: usize },
    DeepCopy { on_copy: bool },
    /// writes activity fields through `get_mut` / `all_activities_mut` (random part only)
    Touch { index: usize },
    /// `RouteContext::state_mut().set_tour_state` (random part, `Kind::RouteCtx` only)
    SetState,
}

impl TOp {
    fn name(&self) -> &'static str {
        match self {
            TOp::InsertAt { .. } => "insert_at",
            TOp::InsertLast { .. } => "insert_last",
            TOp::Remove { .. } => "remove",
            TOp::RemoveActivityAt { .. } => "remove_activity_at",
            TOp::DeepCopy { .. } => "deep_copy",
            TOp::Touch { .. } => "touch",
            TOp::SetState => "set_state",
        }
    }
}

enum Holder {
    Tour(Tour),
    Route(Route),
    Ctx(RouteContext),
}

impl Holder {
    fn tour(&self) -> &Tour {
        match self {
            Holder::Tour(t) => t,
            Holder::Route(r) => &r.tour,
            Holder::Ctx(c) => &c.route().tour,
        }
    }

    fn tour_mut(&mut self) -> &mut Tour {
        match self {
            Holder::Tour(t) => t,
            Holder::Route(r) => &mut r.tour,
            Holder::Ctx(c) => &mut c.route_mut().tour,
        }
    }

    fn deep_copy(&self) -> Holder {
        match self {
            Holder::Tour(t) => Holder::Tour(t.deep_copy()),
            Holder::Route(r) => Holder::Route(r.deep_copy()),
            Holder::Ctx(c) => Holder::Ctx(c.deep_copy()),
        }
    }

    fn actor(&self) -> Option<&Arc<Actor>> {
        match self {
            Holder::Tour(_) => None,
            Holder::Route(r) => Some(&r.actor),
            Holder::Ctx(c) => Some(&c.route().actor),
        }
    }
}

#[derive(Clone, Debug)]
struct MAct {
    uid: usize,
    sub: usize,
    dep: f64,
}

/// The reference model of a tour: a plain vector of job activities between fixed depot ends.
#[derive(Clone, Debug)]
struct TourModel {
    closed: bool,
    /// (place.idx tag, location) of the start / end depot activity
    start: (usize, usize),
    end: (usize, usize),
    acts: Vec<MAct>,
    /// value stored under `VerifStateKey` in the route state (`Kind::RouteCtx`)
    state: Option<u64>,
}

enum Expected {
    Nothing,
    Bool(bool),
    Job(usize),
}

impl TourModel {
    fn job_mask(&self, al: &Alphabet) -> u32 {
        self.acts.iter().fold(0u32, |m, a| m | 1 << al.subs[a.sub].job)
    }

    fn subs(&self) -> Vec<usize> {
        self.acts.iter().map(|a| a.sub).collect()
    }

    /// Applies an operation as the documentation describes it.
    fn apply(&mut self, al: &Alphabet, op: &TOp, uid: usize) -> Expected {
        match *op {
            TOp::InsertAt { sub, index } => {
                self.acts.insert(index - 1, MAct { uid, sub, dep: 0. });
                Expected::Nothing
            }
            TOp::InsertLast { sub } => {
                self.acts.push(MAct { uid, sub, dep: 0. });
                Expected::Nothing
            }
            TOp::Remove { job } => {
                let present = self.acts.iter().any(|a| al.subs[a.sub].job == job);
                self.acts.retain(|a| al.subs[a.sub].job != job);
                Expected::Bool(present)
            }
            TOp::RemoveActivityAt { index } => {
                // documented: "Removes activity and its job from the tour"
                let job = al.subs[self.acts[index - 1].sub].job;
                self.acts.retain(|a| al.subs[a.sub].job != job);
                Expected::Job(job)
            }
            TOp::Touch { index } => {
                self.acts[index - 1].dep = uid as f64 + 0.5;
                Expected::Nothing
            }
            TOp::SetState => {
                self.state = Some(uid as u64);
                Expected::Nothing
            }
            TOp::DeepCopy { .. } => Expected::Nothing,
        }
    }
}

fn depot_activity(tag: usize, location: usize) -> Activity {
    Activity {
        place: Place { idx: tag, location, duration: 0., time: TimeWindow::max() },
        schedule: Schedule::new(0., 0.),
        job: None,
        commute: None,
    }
}

fn job_activity(al: &Alphabet, sub: usize, uid: usize) -> Activity {
    Activity {
        place: Place { idx: uid, location: JOB_LOC_BASE + sub, duration: 1., time: TimeWindow::new(0., 1e9) },
        schedule: Schedule::new(0., 0.),
        job: Some(al.subs[sub].single.clone()),
        commute: None,
    }
}

/// The oracle of part (a): every clause of the property evaluated on the public read API of `Tour`.
fn check_tour(t: &Tour, m: &TourModel, al: &Alphabet) -> Result<(), Fail> {
    // the literal clause first, without the model: job set == jobs of the tour's own activities
    {
        let mut rmask = 0u32;
        for job in t.jobs() {
            match al.job_index(job) {
                Some(k) => rmask |= 1 << k,
                None => return fail("jobs-set-mismatch", "jobs() yields a job which was never inserted".into()),
            }
        }
        let mut amask = 0u32;
        for a in t.all_activities() {
            if let Some(job) = a.retrieve_job() {
                match al.job_index(&job) {
                    Some(k) => amask |= 1 << k,
                    None => return fail("jobs-set-vs-activities-mismatch", "retrieve_job() yields an unknown job".into()),
                }
            }
        }
        if amask != rmask {
            return fail(
                "jobs-set-vs-activities-mismatch",
                format!("jobs()={:?} but retrieve_job() over all_activities()={:?}", al.names(rmask), al.names(amask)),
            );
        }
    }
    let n = m.acts.len();
    let total = n + 1 + m.closed as usize;
    if t.total() != total {
        return fail("total-mismatch", format!("total()={} expected {total}", t.total()));
    }
    let acts: Vec<&Activity> = t.all_activities().collect();
    if acts.len() != total {
        return fail("all-activities-len-mismatch", format!("all_activities() yields {} expected {total}", acts.len()));
    }
    // depot ends in place
    let s = acts[0];
    if s.job.is_some() || s.place.location != m.start.1 || s.place.idx != m.start.0 {
        return fail(
            "start-displaced",
            format!("first activity: has_job={} location={} idx={}", s.job.is_some(), s.place.location, s.place.idx),
        );
    }
    if m.closed {
        let e = acts[total - 1];
        if e.job.is_some() || e.place.location != m.end.1 || e.place.idx != m.end.0 {
            return fail(
                "end-displaced",
                format!("last activity: has_job={} location={} idx={}", e.job.is_some(), e.place.location, e.place.idx),
            );
        }
    }
    // order of job activities == model order
    for (i, ma) in m.acts.iter().enumerate() {
        let a = acts[i + 1];
        match a.job.as_ref() {
            None => return fail("activity-order-mismatch", format!("activity {} has no job (depot inside the tour)", i + 1)),
            Some(single) => {
                if !Arc::ptr_eq(single, &al.subs[ma.sub].single) || a.place.idx != ma.uid {
                    return fail(
                        "activity-order-mismatch",
                        format!("activity {}: tag {} expected tag {} (sub-job {})", i + 1, a.place.idx, ma.uid, ma.sub),
                    );
                }
                if a.schedule.departure != ma.dep {
                    return fail(
                        "activity-data-mismatch",
                        format!("activity {}: departure {} expected {}", i + 1, a.schedule.departure, ma.dep),
                    );
                }
            }
        }
    }
    match t.start() {
        Some(a) if std::ptr::eq(a, acts[0]) => {}
        _ => return fail("start-accessor-mismatch", "start() is not the first activity".into()),
    }
    if m.closed {
        match t.end() {
            Some(a) if std::ptr::eq(a, acts[total - 1]) => {}
            _ => return fail("end-accessor-mismatch", "end() is not the last activity".into()),
        }
        if t.end_idx() != Some(total - 1) {
            return fail("end-accessor-mismatch", format!("end_idx()={:?} expected {}", t.end_idx(), total - 1));
        }
    }
    // job set == jobs of the activities
    let mmask = m.job_mask(al);
    let mut rmask = 0u32;
    for job in t.jobs() {
        match al.job_index(job) {
            None => return fail("jobs-set-mismatch", "jobs() yields a job which was never inserted".into()),
            Some(k) => {
                if rmask >> k & 1 == 1 {
                    return fail("jobs-set-duplicate", format!("jobs() yields {} twice", al.job_names[k]));
                }
                rmask |= 1 << k;
            }
        }
    }
    if rmask != mmask {
        return fail("jobs-set-mismatch", format!("jobs()={:?} expected {:?}", al.names(rmask), al.names(mmask)));
    }
    if t.job_count() != mmask.count_ones() as usize {
        return fail("job-count-mismatch", format!("job_count()={} expected {}", t.job_count(), mmask.count_ones()));
    }
    if t.job_activity_count() != n {
        return fail("job-activity-count-mismatch", format!("job_activity_count()={} expected {n}", t.job_activity_count()));
    }
    if t.has_jobs() != (n > 0) {
        return fail("has-jobs-mismatch", format!("has_jobs()={} with {n} job activities", t.has_jobs()));
    }
    for (k, job) in al.jobs.iter().enumerate() {
        let present = mmask >> k & 1 == 1;
        if t.has_job(job) != present || t.contains(job) != present {
            return fail(
                "has-job-mismatch",
                format!("has_job({})={} contains={} expected {present}", al.job_names[k], t.has_job(job), t.contains(job)),
            );
        }
        let first = m.acts.iter().position(|a| al.subs[a.sub].job == k).map(|p| p + 1);
        let last = m.acts.iter().rposition(|a| al.subs[a.sub].job == k).map(|p| p + 1);
        if t.index(job) != first {
            return fail("index-mismatch", format!("index({})={:?} expected {first:?}", al.job_names[k], t.index(job)));
        }
        if t.index_last(job) != last {
            return fail(
                "index-last-mismatch",
                format!("index_last({})={:?} expected {last:?}", al.job_names[k], t.index_last(job)),
            );
        }
        let mut it = t.job_activities(job);
        for (p, _) in m.acts.iter().enumerate().filter(|(_, a)| al.subs[a.sub].job == k) {
            match it.next() {
                Some(a) if std::ptr::eq(a, acts[p + 1]) => {}
                _ => return fail("job-activities-mismatch", format!("job_activities({}) misses index {}", al.job_names[k], p + 1)),
            }
        }
        if it.next().is_some() {
            return fail("job-activities-mismatch", format!("job_activities({}) yields too many", al.job_names[k]));
        }
    }
    // a task of a multi job wrapped as a job of its own is a different job: the tour does not contain it
    for sub in al.subs.iter().filter(|sub| al.is_multi(sub.job)) {
        let foreign = Job::Single(sub.single.clone());
        if t.has_job(&foreign) || t.contains(&foreign) || t.index(&foreign).is_some() || t.index_last(&foreign).is_some() || t.job_activities(&foreign).next().is_some() {
            return fail(
                "foreign-job-found",
                format!(
                    "task of {} wrapped as a single job: has_job={} contains={} index={:?} index_last={:?} job_activities non-empty={}",
                    al.job_names[sub.job],
                    t.has_job(&foreign),
                    t.contains(&foreign),
                    t.index(&foreign),
                    t.index_last(&foreign),
                    t.job_activities(&foreign).next().is_some()
                ),
            );
        }
    }
    for (i, a) in acts.iter().enumerate() {
        match t.get(i) {
            Some(g) if std::ptr::eq(g, *a) => {}
            _ => return fail("get-mismatch", format!("get({i}) is not the activity at position {i}")),
        }
        if !std::ptr::eq(&t[i], *a) {
            return fail("get-mismatch", format!("tour[{i}] is not the activity at position {i}"));
        }
    }
    if t.get(total).is_some() {
        return fail("get-mismatch", format!("get({total}) is Some beyond the end"));
    }
    // legs: consecutive pairs (i, i + 1) with index i; open tours: one more leg [last] with index total - 1
    let pairs = total - 1;
    let expected_legs = pairs + (!m.closed) as usize;
    let mut count = 0usize;
    for (slice, idx) in t.legs() {
        if count >= expected_legs {
            return fail("legs-count-mismatch", format!("more than {expected_legs} legs"));
        }
        let (exp_idx, exp_len) = if count < pairs { (count, 2) } else { (total - 1, 1) };
        if idx != exp_idx {
            return fail("legs-index-mismatch", format!("leg #{count} has index {idx} expected {exp_idx}"));
        }
        if slice.len() != exp_len || !slice.iter().enumerate().all(|(k, a)| std::ptr::eq(a, acts[exp_idx + k])) {
            return fail(
                "legs-content-mismatch",
                format!("leg #{count} (len {}) is not activities[{exp_idx}..{}]", slice.len(), exp_idx + exp_len),
            );
        }
        count += 1;
    }
    if count != expected_legs {
        let inv = if !m.closed && count == pairs { "legs-open-end-missing" } else { "legs-count-mismatch" };
        return fail(inv, format!("{count} legs expected {expected_legs} (closed={})", m.closed));
    }
    let slice = t.activities_slice(0, total - 1);
    if slice.len() != total || !slice.iter().zip(acts.iter()).all(|(a, b)| std::ptr::eq(a, *b)) {
        return fail("slice-mismatch", format!("activities_slice(0,{}) differs from all_activities()", total - 1));
    }
    if n >= 1 {
        let inner = t.activities_slice(1, n);
        if inner.len() != n || !std::ptr::eq(&inner[0], acts[1]) {
            return fail("slice-mismatch", format!("activities_slice(1,{n}) is not the job activities"));
        }
    }
    Ok(())
}

fn check_holder(h: &Holder, m: &TourModel, al: &Alphabet, actor: &Arc<Actor>) -> Result<(), Fail> {
    check_tour(h.tour(), m, al)?;
    if let Some(a) = h.actor() {
        if !Arc::ptr_eq(a, actor) {
            return fail("actor-changed", "route actor is not the actor the route was created for".into());
        }
    }
    if let Holder::Ctx(ctx) = h {
        let got = ctx.state().get_tour_state::<VerifStateKey, u64>().copied();
        if got != m.state {
            return fail("route-state-mismatch", format!("tour state value {got:?} expected {:?}", m.state));
        }
    }
    Ok(())
}

struct TourRunner<'a> {
    al: &'a Alphabet,
    kind: Kind,
    closed: bool,
    actor: Arc<Actor>,
    main: Holder,
    model: TourModel,
    asides: Vec<(Holder, TourModel)>,
    uid: usize,
    log: Vec<TOp>,
    origin: Value,
    /// the state comparison is skipped while fewer than `quiet_until` ops were applied (exhaustive part only: that
    /// prefix was compared step by step in the preceding sequence of the enumeration)
    quiet_until: usize,
}

impl<'a> TourRunner<'a> {
    fn artefact(&self, detail: &str) -> Value {
        json!({
            "part": "tour", "alphabet": self.al.name, "kind": self.kind, "closed": self.closed,
            "ops": self.log, "failed_step": self.log.len(), "detail": detail,
            "model_sub_jobs": self.model.subs(), "origin": self.origin,
        })
    }

    fn new(cx: &mut Cx, w: &'a World, al: &'a Alphabet, kind: Kind, closed: bool, origin: Value, quiet_until: usize) -> Option<Self> {
        let fw = &w.fleets[0];
        let ai = if closed { 0 } else { 1 };
        debug_assert_eq!(fw.closed[ai], closed);
        let actor = fw.actors[ai].clone();
        let (tag_s, tag_e, loc_s, loc_e) =
            if kind == Kind::TourManual { (900_001, 900_002, 90, 91) } else { (0, 0, START_LOC_BASE + ai, END_LOC_BASE + ai) };
        let built = guard(|| match kind {
            Kind::TourNew => Holder::Tour(Tour::new(&actor)),
            Kind::TourManual => {
                let mut t = Tour::default();
                t.set_start(depot_activity(tag_s, loc_s));
                if closed {
                    t.set_end(depot_activity(tag_e, loc_e));
                }
                Holder::Tour(t)
            }
            Kind::Route => Holder::Route(Route { actor: actor.clone(), tour: Tour::new(&actor) }),
            Kind::RouteCtx => Holder::Ctx(RouteContext::new(actor.clone())),
        });
        let model = TourModel { closed, start: (tag_s, loc_s), end: (tag_e, loc_e), acts: vec![], state: None };
        let mut runner = Self {
            al,
            kind,
            closed,
            actor,
            main: Holder::Tour(Tour::default()),
            model,
            asides: vec![],
            uid: 0,
            log: vec![],
            origin,
            quiet_until,
        };
        match built {
            Ok(h) => runner.main = h,
            Err(p) => {
                let art = runner.artefact("construction");
                cx.report_panic("tour", "new", &p, art);
                return None;
            }
        }
        match kind {
            Kind::TourManual => {
                cx.obs("tour_ops", "set_start");
                if closed {
                    cx.obs("tour_ops", "set_end");
                }
            }
            _ => cx.obs("tour_ops", if closed { "new:closed-actor" } else { "new:open-actor" }),
        }
        if runner.check_all(cx, "new") { Some(runner) } else { None }
    }

    fn check_all(&mut self, cx: &mut Cx, opname: &str) -> bool {
        if self.log.len() < self.quiet_until {
            return true;
        }
        cx.stats.step_checks += 1;
        match guard(|| check_holder(&self.main, &self.model, self.al, &self.actor)) {
            Err(p) => {
                let art = self.artefact("panic in a read accessor");
                cx.report_panic("tour", opname, &p, art);
                return false;
            }
            Ok(Err(f)) => {
                let art = self.artefact(&f.detail);
                cx.report("tour", f.inv, opname, &f.detail, art);
                return false;
            }
            Ok(Ok(())) => {}
        }
        for k in 0..self.asides.len() {
            let res = {
                let (h, m) = &self.asides[k];
                guard(|| check_holder(h, m, self.al, &self.actor))
            };
            match res {
                Err(p) => {
                    let art = self.artefact("panic in a read accessor of the set-aside copy/original");
                    cx.report_panic("tour", opname, &p, art);
                    return false;
                }
                Ok(Err(f)) => {
                    let detail = format!("the set-aside side of an earlier deep_copy changed or differs: {}", f.detail);
                    let art = self.artefact(&detail);
                    cx.report("tour", &format!("aside-{}", f.inv), opname, &detail, art);
                    return false;
                }
                Ok(Ok(())) => {}
            }
        }
        true
    }

    /// Applies one in-domain operation to the implementation and to the model and compares. False = stop the history.
    fn step(&mut self, cx: &mut Cx, op: TOp) -> bool {
        self.uid += 1;
        let uid = self.uid;
        let al = self.al;
        let opname = op.name();
        let n = self.model.acts.len();
        // evidence: distinct (state, op) pairs + per-op counters
        let effective = match &op {
            TOp::Remove { job } => self.model.job_mask(al) >> job & 1 == 1,
            TOp::DeepCopy { .. } => n > 0,
            _ => true,
        };
        if effective {
            cx.distinct(&(0u8, self.kind, self.closed, al.name, self.model.subs(), &op));
        }
        match &op {
            TOp::InsertAt { .. } => cx.obs("tour_ops", "insert_at"),
            TOp::InsertLast { .. } => cx.obs("tour_ops", "insert_last"),
            TOp::Remove { job } => {
                let cnt = self.model.acts.iter().filter(|a| al.subs[a.sub].job == *job).count();
                cx.obs("tour_ops", if cnt > 0 { "remove" } else { "remove:absent-job" });
                if cnt >= 2 && al.is_multi(*job) {
                    cx.obs("tour_ops", "remove:multi-job-several-activities");
                }
            }
            TOp::RemoveActivityAt { index } => {
                let job = al.subs[self.model.acts[index - 1].sub].job;
                let cnt = self.model.acts.iter().filter(|a| al.subs[a.sub].job == job).count();
                cx.obs("tour_ops", "remove_activity_at");
                if cnt >= 2 {
                    cx.obs("tour_ops", "remove_activity_at:job-with-several-activities");
                }
            }
            TOp::DeepCopy { .. } => cx.obs(
                "tour_ops",
                match self.kind {
                    Kind::Route => "deep_copy:route",
                    Kind::RouteCtx => "deep_copy:route_ctx",
                    _ => "deep_copy:tour",
                },
            ),
            TOp::Touch { .. } => cx.obs("tour_ops", "touch:get_mut/all_activities_mut"),
            TOp::SetState => cx.obs("tour_ops", "set_state"),
        }
        self.log.push(op.clone());

        let expected = self.model.apply(al, &op, uid);
        let main = &mut self.main;
        let outcome: Result<Result<Option<Holder>, Fail>, PanicInfo> = guard(|| match op {
            TOp::InsertAt { sub, index } => {
                main.tour_mut().insert_at(job_activity(al, sub, uid), index);
                Ok(None)
            }
            TOp::InsertLast { sub } => {
                main.tour_mut().insert_last(job_activity(al, sub, uid));
                Ok(None)
            }
            TOp::Remove { job } => {
                // first the same request addressed with a task of a multi job wrapped as a job of its own: such a job is not
                // in the tour (the tour holds the multi job), nothing may be removed (the model is not touched; the
                // comparison after the step sees any change)
                for sub in al.subs.iter().filter(|sub| al.is_multi(sub.job)) {
                    let foreign = Job::Single(sub.single.clone());
                    cx.obs("tour_ops", "remove:task-of-a-multi-job-wrapped-as-job");
                    if main.tour_mut().remove(&foreign) {
                        return fail("remove-return-mismatch", format!("remove(task of {} wrapped as a single job) returned true", al.job_names[sub.job]));
                    }
                }
                let got = main.tour_mut().remove(&al.jobs[job]);
                match expected {
                    Expected::Bool(exp) if exp != got => {
                        fail("remove-return-mismatch", format!("remove({}) returned {got}, job present: {exp}", al.job_names[job]))
                    }
                    _ => Ok(None),
                }
            }
            TOp::RemoveActivityAt { index } => {
                let got = main.tour_mut().remove_activity_at(index);
                match expected {
                    Expected::Job(exp) if al.job_index(&got) != Some(exp) => fail(
                        "remove-activity-at-return-mismatch",
                        format!("remove_activity_at({index}) returned {:?} expected {}", al.job_index(&got), al.job_names[exp]),
                    ),
                    _ => Ok(None),
                }
            }
            TOp::Touch { index } => {
                let value = uid as f64 + 0.5;
                let a = if uid % 2 == 0 { main.tour_mut().get_mut(index) } else { main.tour_mut().all_activities_mut().nth(index) };
                match a {
                    Some(a) => {
                        a.schedule.departure = value;
                        Ok(None)
                    }
                    None => fail("get-mismatch", format!("get_mut/all_activities_mut cannot reach index {index}")),
                }
            }
            TOp::SetState => {
                if let Holder::Ctx(ctx) = main {
                    ctx.state_mut().set_tour_state::<VerifStateKey, u64>(uid as u64);
                }
                Ok(None)
            }
            TOp::DeepCopy { .. } => Ok(Some(main.deep_copy())),
        });
        let copy = match outcome {
            Err(p) => {
                let art = self.artefact("panic in a mutating call");
                cx.report_panic("tour", opname, &p, art);
                return false;
            }
            Ok(Err(f)) => {
                let art = self.artefact(&f.detail);
                cx.report("tour", f.inv, opname, &f.detail, art);
                return false;
            }
            Ok(Ok(copy)) => copy,
        };
        if let (Some(copy), TOp::DeepCopy { on_copy }) = (copy, &op) {
            let snapshot = self.model.clone();
            if self.asides.len() >= 2 {
                self.asides.remove(0);
            }
            if *on_copy {
                let original = std::mem::replace(&mut self.main, copy);
                self.asides.push((original, snapshot));
            } else {
                self.asides.push((copy, snapshot));
            }
            // make the two sides differ in the route state at once
            if let Holder::Ctx(ctx) = &mut self.main {
                let value = 1_000_000 + uid as u64;
                if let Err(p) = guard(|| ctx.state_mut().set_tour_state::<VerifStateKey, u64>(value)) {
                    let art = self.artefact("panic in set_tour_state");
                    cx.report_panic("tour", opname, &p, art);
                    return false;
                }
                self.model.state = Some(value);
            }
        }
        self.check_all(cx, opname)
    }
}

/// All in-domain operations of the exhaustive alphabet at a state with `n` job activities.
fn tour_ops_at(n: usize, al: &Alphabet) -> Vec<TOp> {
    let mut ops = vec![];
    for sub in 0..al.subs.len() {
        for index in 1..=n + 1 {
            ops.push(TOp::InsertAt { sub, index });
        }
        ops.push(TOp::InsertLast { sub });
    }
    for job in 0..al.jobs.len() {
        ops.push(TOp::Remove { job });
    }
    for index in 1..=n {
        ops.push(TOp::RemoveActivityAt { index });
    }
    ops.push(TOp::DeepCopy { on_copy: true });
    ops.push(TOp::DeepCopy { on_copy: false });
    ops
}

fn dfs_tour(al: &Alphabet, model: &TourModel, seq: &mut Vec<TOp>, left: usize, leaf: &mut dyn FnMut(&[TOp]) -> bool) -> bool {
    if left == 0 {
        return leaf(seq);
    }
    for op in tour_ops_at(model.acts.len(), al) {
        let mut next = model.clone();
        next.apply(al, &op, 0);
        seq.push(op);
        let go_on = dfs_tour(al, &next, seq, left - 1, leaf);
        seq.pop();
        if !go_on {
            return false;
        }
    }
    true
}

/// Runs one literal sequence; returns the length of the violating prefix if a violation was reported.
fn run_tour_sequence(
    cx: &mut Cx,
    w: &World,
    al: &Alphabet,
    kind: Kind,
    closed: bool,
    ops: &[TOp],
    origin: Value,
    quiet: usize,
) -> Option<usize> {
    cx.stats.evals += 1;
    let Some(mut runner) = TourRunner::new(cx, w, al, kind, closed, origin, quiet) else { return Some(0) };
    for op in ops {
        if !runner.step(cx, op.clone()) {
            return Some(runner.log.len());
        }
    }
    None
}

fn gen_tour_op(rng: &mut Rng, cx: &mut Cx, model: &TourModel, al: &Alphabet, kind: Kind, bias: f64) -> TOp {
    for _ in 0..32 {
        let n = model.acts.len();
        let grow = if n >= 24 { 0.25 } else { bias };
        let w = [3.0 * grow, 2.0 * grow, 2.0, 2.0, 0.6, 1.0, if kind == Kind::RouteCtx { 0.4 } else { 0.0 }];
        match rng.weighted(&w) {
            0 => {
                // raw index 0..=n+3; outside 1..=n+1 the call would displace a depot end / exceed the vector:
                // outside the documented domain, counted as not generated
                let index = rng.usize_below(n + 4);
                if index < 1 || index > n + 1 {
                    cx.obs("tour_ops", "insert_at:index-outside-domain(not generated)");
                    continue;
                }
                return TOp::InsertAt { sub: rng.usize_below(al.subs.len()), index };
            }
            1 => return TOp::InsertLast { sub: rng.usize_below(al.subs.len()) },
            2 => return TOp::Remove { job: rng.usize_below(al.jobs.len()) },
            3 => {
                // documented to panic for an index without a job activity ("Attempt to remove activity without job")
                let index = rng.usize_below(n + 3);
                if index < 1 || index > n {
                    cx.obs("tour_ops", "remove_activity_at:index-outside-domain(not generated)");
                    continue;
                }
                return TOp::RemoveActivityAt { index };
            }
            4 => return TOp::DeepCopy { on_copy: rng.chance(0.5) },
            5 => {
                if n == 0 {
                    continue;
                }
                return TOp::Touch { index: 1 + rng.usize_below(n) };
            }
            _ => return TOp::SetState,
        }
    }
    TOp::InsertLast { sub: 0 }
}

fn random_tour_history(cx: &mut Cx, w: &World, rng: &mut Rng, case_seed: u64, want_sample: bool) {
    let al = if rng.chance(0.7) { &w.large } else { &w.small };
    let kind = *rng.pick(&KINDS);
    let closed = rng.chance(0.5);
    let len = 1 + rng.usize_below(40);
    // half of the histories grow long tours, the others stay near the small states
    let bias = if rng.chance(0.5) { 3.0 } else { 1.0 };
    cx.stats.evals += 1;
    cx.obs(
        "tour_kinds",
        match (kind, closed) {
            (Kind::TourNew, true) => "tour_new:closed",
            (Kind::TourNew, false) => "tour_new:open",
            (Kind::TourManual, true) => "set_start+set_end:closed",
            (Kind::TourManual, false) => "set_start:open",
            (Kind::Route, true) => "route:closed",
            (Kind::Route, false) => "route:open",
            (Kind::RouteCtx, true) => "route_ctx:closed",
            (Kind::RouteCtx, false) => "route_ctx:open",
        },
    );
    let origin = json!({"phase": "random", "case_seed": case_seed});
    let Some(mut runner) = TourRunner::new(cx, w, al, kind, closed, origin, 0) else { return };
    let mut max_n = 0;
    for _ in 0..len {
        let op = gen_tour_op(rng, cx, &runner.model, al, kind, bias);
        if !runner.step(cx, op) {
            return;
        }
        max_n = max_n.max(runner.model.acts.len());
    }
    cx.obs(
        "tour_max_job_activities",
        match max_n {
            0 => "0",
            1..=3 => "1-3",
            4..=8 => "4-8",
            9..=16 => "9-16",
            _ => "17+",
        },
    );
    if want_sample {
        cx.run.sample(json!({"part": "tour", "alphabet": al.name, "kind": kind, "closed": closed, "case_seed": case_seed,
            "ops": runner.log, "final_model_sub_jobs": runner.model.subs()}));
    }
}

// ---------------------------------------------------------------------------------------------
// part (b): Registry / RegistryContext against a set model

#[derive(Clone, Debug, PartialEq, Eq, Hash, Serialize, Deserialize)]
#[serde(rename_all = "snake_case")]
enum ROp {
    /// `Registry::use_actor` (plain registry)
    Use { a: usize },
    /// `Registry::free_actor` (plain registry)
    Free { a: usize },
    /// `RegistryContext::get_route`
    GetRoute { a: usize },
    /// `RegistryContext::use_route`
    UseRoute { a: usize },
    /// `RegistryContext::free_route`
    FreeRoute { a: usize },
    /// `deep_copy` (`via_solution`: through `SolutionContext::deep_copy`); the history continues on the copy or the original
    Copy { on_copy: bool, via_solution: bool },
    /// `deep_slice` keeping the actors of `mask`
    Slice { mask: u32, on_slice: bool },
    /// `SolutionContext::keep_routes` over the held routes (random part, registry context only): routes of actors outside
    /// `mask` are dropped, their vehicles have to be released
    KeepRoutes { mask: u32 },
}

impl ROp {
    fn name(&self) -> &'static str {
        match self {
            ROp::Use { .. } => "use_actor",
            ROp::Free { .. } => "free_actor",
            ROp::GetRoute { .. } => "get_route",
            ROp::UseRoute { .. } => "use_route",
            ROp::FreeRoute { .. } => "free_route",
            ROp::Copy { via_solution: false, .. } => "deep_copy",
            ROp::Copy { via_solution: true, .. } => "solution_deep_copy",
            ROp::Slice { .. } => "deep_slice",
            ROp::KeepRoutes { .. } => "keep_routes",
        }
    }
}

/// The reference model of a registry: which actors belong to it and which of them are in use.
#[derive(Clone, Debug)]
struct RegModel {
    member: Vec<bool>,
    used: Vec<bool>,
}

impl RegModel {
    fn new(n: usize) -> Self {
        // index n is the foreign actor: never a member
        let mut member = vec![true; n + 1];
        member[n] = false;
        Self { member, used: vec![false; n + 1] }
    }

    fn is_free(&self, a: usize) -> bool {
        self.member[a] && !self.used[a]
    }

    fn masks(&self) -> (u32, u32) {
        let mut mm = 0u32;
        let mut um = 0u32;
        for i in 0..self.member.len() {
            if self.member[i] {
                mm |= 1 << i;
            }
            if self.member[i] && self.used[i] {
                um |= 1 << i;
            }
        }
        (mm, um)
    }

    fn slice(&self, mask: u32) -> Self {
        let mut s = self.clone();
        for i in 0..s.member.len() {
            if mask >> i & 1 == 0 {
                s.member[i] = false;
                s.used[i] = false;
            }
        }
        s
    }
}

/// Walks an "offer" iterator (`available()`, `next()`, `next_route()`): every offered actor must be a free member,
/// offered once. Returns (actor mask, group mask) of the offer.
fn scan_offer(
    fw: &FleetWorld,
    m: &RegModel,
    what: &str,
    actors: impl Iterator<Item = Arc<Actor>>,
    inv_non_member: &'static str,
    inv_used: &'static str,
    inv_dup: &'static str,
) -> Result<(u32, u64), Fail> {
    let n = fw.n();
    let mut seen = 0u32;
    let mut groups = 0u64;
    for actor in actors {
        match fw.idx_of(&actor) {
            Some(i) if i < n && m.member[i] => {
                if m.used[i] {
                    return fail(inv_used, format!("{what} offers actor {i} which is in use"));
                }
                if seen >> i & 1 == 1 {
                    return fail(inv_dup, format!("{what} offers actor {i} twice"));
                }
                seen |= 1 << i;
                groups |= 1 << fw.group[i];
            }
            other => return fail(inv_non_member, format!("{what} offers an actor outside the registry (index {other:?})")),
        }
    }
    Ok((seen, groups))
}

fn free_groups(fw: &FleetWorld, m: &RegModel) -> u64 {
    (0..fw.n()).filter(|&i| m.is_free(i)).fold(0u64, |g, i| g | 1 << fw.group[i])
}

/// The oracle of part (b) on a `Registry`.
fn check_registry(reg: &Registry, m: &RegModel, fw: &FleetWorld, rnd: &SeqRandom) -> Result<(), Fail> {
    let n = fw.n();
    let (member_mask, used_mask) = m.masks();
    let free_mask = member_mask & !used_mask;
    let mut seen = 0u32;
    for actor in reg.all() {
        match fw.idx_of(&actor) {
            Some(i) if i < n && m.member[i] => {
                if seen >> i & 1 == 1 {
                    return fail("all-duplicate", format!("all() lists actor {i} twice"));
                }
                seen |= 1 << i;
            }
            other => return fail("all-lists-non-member", format!("all() lists an actor outside the registry ({other:?})")),
        }
    }
    if seen != member_mask {
        return fail("all-misses-member", format!("all()={seen:#b} expected {member_mask:#b}"));
    }
    let (avail, _) = scan_offer(
        fw,
        m,
        "available()",
        reg.available(),
        "offers-non-member",
        "offers-used-actor",
        "available-duplicate",
    )?;
    if avail != free_mask {
        return fail("misses-free-actor", format!("available()={avail:#b} but free actors are {free_mask:#b}"));
    }
    let need = free_groups(fw, m);
    for mode in 0..3u8 {
        rnd.set_mode(mode);
        let (_, groups) =
            scan_offer(fw, m, "next()", reg.next(), "next-offers-non-member", "next-offers-used-actor", "next-duplicate")?;
        if need & !groups != 0 {
            return fail(
                "next-misses-group",
                format!("next() (random mode {mode}) covers groups {groups:#b} but groups {need:#b} have a free actor"),
            );
        }
    }
    rnd.set_mode(2);
    Ok(())
}

fn reg_filter<'a>(fw: &'a FleetWorld, mask: u32) -> impl Fn(&Actor) -> bool + 'a {
    move |actor: &Actor| fw.idx_of(actor).is_some_and(|i| i < fw.n() && mask >> i & 1 == 1)
}

fn count_reg_op(cx: &mut Cx, m: &RegModel, op: &ROp) {
    let key = match *op {
        ROp::Use { a } => match (m.member[a], m.used[a]) {
            (false, _) => "use_actor:non-member",
            (true, false) => "use_actor:free",
            (true, true) => "use_actor:in-use",
        },
        ROp::Free { a } => match (m.member[a], m.used[a]) {
            (false, _) => "free_actor:non-member",
            (true, false) => "free_actor:free",
            (true, true) => "free_actor:in-use",
        },
        ROp::GetRoute { a } => match (m.member[a], m.used[a]) {
            (false, _) => "get_route:non-member",
            (true, false) => "get_route:free",
            (true, true) => "get_route:in-use",
        },
        ROp::UseRoute { a } => match (m.member[a], m.used[a]) {
            (false, _) => "use_route:non-member",
            (true, false) => "use_route:free",
            (true, true) => "use_route:in-use",
        },
        ROp::FreeRoute { a } => match (m.member[a], m.used[a]) {
            (false, _) => "free_route:non-member",
            (true, false) => "free_route:free",
            (true, true) => "free_route:in-use",
        },
        ROp::Copy { via_solution: false, .. } => "deep_copy",
        ROp::Copy { via_solution: true, .. } => "solution_ctx.deep_copy",
        ROp::Slice { .. } => "deep_slice",
        ROp::KeepRoutes { .. } => "solution_ctx.keep_routes",
    };
    cx.obs("registry_ops", key);
}

fn reg_op_effective(m: &RegModel, op: &ROp) -> bool {
    match *op {
        ROp::Use { a } | ROp::Free { a } | ROp::GetRoute { a } | ROp::UseRoute { a } | ROp::FreeRoute { a } => m.member[a],
        _ => true,
    }
}

struct RegRunner<'a> {
    fw: &'a FleetWorld,
    rnd: Arc<SeqRandom>,
    rand_seed: u64,
    main: Registry,
    model: RegModel,
    asides: Vec<(Registry, RegModel)>,
    log: Vec<ROp>,
    origin: Value,
    quiet_until: usize,
}

impl<'a> RegRunner<'a> {
    fn artefact(&self, detail: &str) -> Value {
        let (mm, um) = self.model.masks();
        json!({"part": "registry", "fleet": self.fw.name, "rand_seed": self.rand_seed, "ops": self.log,
            "failed_step": self.log.len(), "detail": detail, "model_members": format!("{mm:#b}"),
            "model_in_use": format!("{um:#b}"), "origin": self.origin})
    }

    fn new(cx: &mut Cx, fw: &'a FleetWorld, rand_seed: u64, origin: Value, quiet_until: usize) -> Option<Self> {
        let rnd = Arc::new(SeqRandom::new(rand_seed));
        let built = guard(|| Registry::new(&fw.problem.fleet, rnd.clone()));
        match built {
            Ok(main) => {
                let mut r =
                    Self { fw, rnd, rand_seed, main, model: RegModel::new(fw.n()), asides: vec![], log: vec![], origin, quiet_until };
                cx.obs("registry_ops", "Registry::new");
                if r.check_all(cx, "new") { Some(r) } else { None }
            }
            Err(p) => {
                cx.report_panic("registry", "new", &p, json!({"part": "registry", "fleet": fw.name, "ops": [], "origin": origin}));
                None
            }
        }
    }

    fn check_all(&mut self, cx: &mut Cx, opname: &str) -> bool {
        if self.log.len() < self.quiet_until {
            return true;
        }
        cx.stats.step_checks += 1;
        cx.obs("registry_ops", "all+available+next(x3) compared");
        match guard(|| check_registry(&self.main, &self.model, self.fw, &self.rnd)) {
            Err(p) => {
                let art = self.artefact("panic in a read accessor");
                cx.report_panic("registry", opname, &p, art);
                return false;
            }
            Ok(Err(f)) => {
                let art = self.artefact(&f.detail);
                cx.report("registry", f.inv, opname, &f.detail, art);
                return false;
            }
            Ok(Ok(())) => {}
        }
        for k in 0..self.asides.len() {
            let res = {
                let (r, m) = &self.asides[k];
                guard(|| check_registry(r, m, self.fw, &self.rnd))
            };
            match res {
                Err(p) => {
                    let art = self.artefact("panic in a read accessor of the set-aside copy/original");
                    cx.report_panic("registry", opname, &p, art);
                    return false;
                }
                Ok(Err(f)) => {
                    let detail = format!("the set-aside side of an earlier deep_copy/deep_slice changed or differs: {}", f.detail);
                    let art = self.artefact(&detail);
                    cx.report("registry", &format!("aside-{}", f.inv), opname, &detail, art);
                    return false;
                }
                Ok(Ok(())) => {}
            }
        }
        true
    }

    fn push_aside(&mut self, side: Registry, model: RegModel) {
        if self.asides.len() >= 2 {
            self.asides.remove(0);
        }
        self.asides.push((side, model));
    }

    fn step(&mut self, cx: &mut Cx, op: ROp) -> bool {
        let fw = self.fw;
        let opname = op.name();
        count_reg_op(cx, &self.model, &op);
        if reg_op_effective(&self.model, &op) {
            cx.distinct(&(1u8, fw.name, self.model.masks(), &op));
        }
        self.log.push(op.clone());
        let verdict: Result<Result<(), Fail>, PanicInfo> = match op {
            ROp::Use { a } => {
                let exp = self.model.is_free(a);
                let member = self.model.member[a];
                let main = &mut self.main;
                let res = guard(|| main.use_actor(fw.actor(a)));
                if exp {
                    self.model.used[a] = true;
                }
                res.map(|got| match (got, exp) {
                    (true, false) if member => fail("handed-out-twice", format!("use_actor({a}) returned true for an actor in use")),
                    (true, false) => fail("hands-out-non-member", format!("use_actor({a}) returned true for an actor outside the registry")),
                    (false, true) => fail("use-refused-free-actor", format!("use_actor({a}) returned false for a free actor")),
                    _ => Ok(()),
                })
            }
            ROp::Free { a } => {
                let member = self.model.member[a];
                let exp = member && self.model.used[a];
                let main = &mut self.main;
                let res = guard(|| main.free_actor(fw.actor(a)));
                if member {
                    self.model.used[a] = false;
                }
                // the return value for an actor outside the registry is not specified: not compared
                res.map(|got| {
                    if member && got != exp {
                        fail("free-return-mismatch", format!("free_actor({a}) returned {got}, actor was in use: {exp}"))
                    } else {
                        Ok(())
                    }
                })
            }
            ROp::Copy { on_copy, .. } => {
                let main = &self.main;
                match guard(|| main.deep_copy()) {
                    Ok(copy) => {
                        let snapshot = self.model.clone();
                        if on_copy {
                            let original = std::mem::replace(&mut self.main, copy);
                            self.push_aside(original, snapshot);
                        } else {
                            self.push_aside(copy, snapshot);
                        }
                        Ok(Ok(()))
                    }
                    Err(p) => Err(p),
                }
            }
            ROp::Slice { mask, on_slice } => {
                let main = &self.main;
                match guard(|| main.deep_slice(reg_filter(fw, mask))) {
                    Ok(slice) => {
                        let sliced_model = self.model.slice(mask);
                        if on_slice {
                            let original = std::mem::replace(&mut self.main, slice);
                            let snapshot = std::mem::replace(&mut self.model, sliced_model);
                            self.push_aside(original, snapshot);
                        } else {
                            self.push_aside(slice, sliced_model);
                        }
                        Ok(Ok(()))
                    }
                    Err(p) => Err(p),
                }
            }
            ROp::GetRoute { .. } | ROp::UseRoute { .. } | ROp::FreeRoute { .. } | ROp::KeepRoutes { .. } => Ok(Ok(())),
        };
        match verdict {
            Err(p) => {
                let art = self.artefact("panic in a mutating call");
                cx.report_panic("registry", opname, &p, art);
                false
            }
            Ok(Err(f)) => {
                let art = self.artefact(&f.detail);
                cx.report("registry", f.inv, opname, &f.detail, art);
                false
            }
            Ok(Ok(())) => self.check_all(cx, opname),
        }
    }
}

// --- RegistryContext (+ SolutionContext::deep_copy) -------------------------------------------

struct CtxSide {
    ctx: RegistryContext,
    /// routes handed out by `get_route` and not yet given back, per actor
    held: Vec<Option<RouteContext>>,
}

#[derive(Clone, Debug)]
struct CtxModel {
    reg: RegModel,
    /// number of job activities the harness put into the held route of each actor
    held: Vec<Option<usize>>,
}

fn empty_tour_model(fw: &FleetWorld, a: usize) -> TourModel {
    TourModel {
        closed: fw.closed[a],
        start: (0, START_LOC_BASE + fw.place[a]),
        end: (0, END_LOC_BASE + fw.place[a]),
        acts: vec![],
        state: None,
    }
}

fn check_ctx_side(side: &CtxSide, m: &CtxModel, fw: &FleetWorld, al: &Alphabet, rnd: &SeqRandom) -> Result<(), Fail> {
    check_registry(side.ctx.resources(), &m.reg, fw, rnd)?;
    let need = free_groups(fw, &m.reg);
    for mode in 0..3u8 {
        rnd.set_mode(mode);
        let mut fresh: Result<(), Fail> = Ok(());
        let actors = side.ctx.next_route().map(|rc| {
            let actor = rc.route().actor.clone();
            if let (Some(a), Ok(())) = (fw.idx_of(&actor), &fresh) {
                if a < fw.n() {
                    // full tour oracle once per step, the cheap emptiness test in the other random modes
                    let t = &rc.route().tour;
                    if mode == 0 {
                        if let Err(f) = check_tour(t, &empty_tour_model(fw, a), al) {
                            fresh = fail("next_route-not-an-empty-route", format!("route offered for actor {a}: {}", f.detail));
                        }
                    } else if t.job_count() != 0 || t.total() != 1 + fw.closed[a] as usize {
                        fresh = fail(
                            "next_route-not-an-empty-route",
                            format!("route offered for actor {a}: job_count={} total={}", t.job_count(), t.total()),
                        );
                    }
                }
            }
            actor
        });
        let (_, groups) = scan_offer(
            fw,
            &m.reg,
            "next_route()",
            actors,
            "next_route-offers-non-member",
            "next_route-offers-used-actor",
            "next_route-duplicate",
        )?;
        fresh?;
        if need & !groups != 0 {
            return fail(
                "next_route-misses-group",
                format!("next_route() (random mode {mode}) covers groups {groups:#b} but groups {need:#b} have a free actor"),
            );
        }
    }
    rnd.set_mode(2);
    for a in 0..fw.n() {
        match (&side.held[a], m.held[a]) {
            (Some(rc), Some(cnt)) => {
                if !Arc::ptr_eq(&rc.route().actor, fw.actor(a)) {
                    return fail("held-route-changed", format!("held route of actor {a} has another actor"));
                }
                let t = &rc.route().tour;
                if t.job_activity_count() != cnt || t.total() != cnt + 1 + fw.closed[a] as usize || t.job_count() != cnt.min(1) {
                    return fail(
                        "held-route-changed",
                        format!(
                            "held route of actor {a}: job_activity_count={} total={} job_count={} expected {cnt} activities",
                            t.job_activity_count(),
                            t.total(),
                            t.job_count()
                        ),
                    );
                }
                let state = rc.state().get_tour_state::<VerifStateKey, u64>().copied();
                if state != Some(cnt as u64) {
                    return fail("held-route-changed", format!("held route of actor {a}: state {state:?} expected {cnt}"));
                }
            }
            (None, None) => {}
            _ => return fail("harness-held-bookkeeping", format!("held route bookkeeping of actor {a} out of sync")),
        }
    }
    Ok(())
}

struct CtxRunner<'a> {
    fw: &'a FleetWorld,
    al: &'a Alphabet,
    rnd: Arc<SeqRandom>,
    rand_seed: u64,
    main: Option<CtxSide>,
    model: CtxModel,
    asides: Vec<(CtxSide, CtxModel)>,
    uid: usize,
    log: Vec<ROp>,
    origin: Value,
    quiet_until: usize,
}

impl<'a> CtxRunner<'a> {
    fn artefact(&self, detail: &str) -> Value {
        let (mm, um) = self.model.reg.masks();
        json!({"part": "regctx", "fleet": self.fw.name, "rand_seed": self.rand_seed, "ops": self.log,
            "failed_step": self.log.len(), "detail": detail, "model_members": format!("{mm:#b}"),
            "model_in_use": format!("{um:#b}"), "origin": self.origin})
    }

    fn new(cx: &mut Cx, fw: &'a FleetWorld, al: &'a Alphabet, rand_seed: u64, origin: Value, quiet_until: usize) -> Option<Self> {
        let rnd = Arc::new(SeqRandom::new(rand_seed));
        let built = guard(|| RegistryContext::new(&fw.problem.goal, Registry::new(&fw.problem.fleet, rnd.clone())));
        match built {
            Ok(ctx) => {
                let n = fw.n();
                let mut r = Self {
                    fw,
                    al,
                    rnd,
                    rand_seed,
                    main: Some(CtxSide { ctx, held: (0..n).map(|_| None).collect() }),
                    model: CtxModel { reg: RegModel::new(n), held: vec![None; n] },
                    asides: vec![],
                    uid: 0,
                    log: vec![],
                    origin,
                    quiet_until,
                };
                cx.obs("registry_ops", "RegistryContext::new");
                if r.check_all(cx, "new") { Some(r) } else { None }
            }
            Err(p) => {
                cx.report_panic("regctx", "new", &p, json!({"part": "regctx", "fleet": fw.name, "ops": [], "origin": origin}));
                None
            }
        }
    }

    fn check_all(&mut self, cx: &mut Cx, opname: &str) -> bool {
        if self.log.len() < self.quiet_until {
            return true;
        }
        cx.stats.step_checks += 1;
        cx.obs("registry_ops", "resources()+next_route(x3) compared");
        let main = self.main.as_ref().expect("main side");
        match guard(|| check_ctx_side(main, &self.model, self.fw, self.al, &self.rnd)) {
            Err(p) => {
                let art = self.artefact("panic in a read accessor");
                cx.report_panic("regctx", opname, &p, art);
                return false;
            }
            Ok(Err(f)) => {
                let art = self.artefact(&f.detail);
                cx.report("regctx", f.inv, opname, &f.detail, art);
                return false;
            }
            Ok(Ok(())) => {}
        }
        for k in 0..self.asides.len() {
            let res = {
                let (s, m) = &self.asides[k];
                guard(|| check_ctx_side(s, m, self.fw, self.al, &self.rnd))
            };
            match res {
                Err(p) => {
                    let art = self.artefact("panic in a read accessor of the set-aside copy/original");
                    cx.report_panic("regctx", opname, &p, art);
                    return false;
                }
                Ok(Err(f)) => {
                    let detail = format!("the set-aside side of an earlier deep_copy/deep_slice changed or differs: {}", f.detail);
                    let art = self.artefact(&detail);
                    cx.report("regctx", &format!("aside-{}", f.inv), opname, &detail, art);
                    return false;
                }
                Ok(Ok(())) => {}
            }
        }
        true
    }

    fn push_aside(&mut self, side: CtxSide, model: CtxModel) {
        if self.asides.len() >= 2 {
            self.asides.remove(0);
        }
        self.asides.push((side, model));
    }

    /// Puts `cnt` more activities of one job into a held route and records the new count in its state.
    fn grow_route(al: &Alphabet, rc: &mut RouteContext, uid: usize, add: usize, new_cnt: usize) {
        for k in 0..add {
            rc.route_mut().tour.insert_last(job_activity(al, 0, uid * 8 + k));
        }
        rc.state_mut().set_tour_state::<VerifStateKey, u64>(new_cnt as u64);
    }

    fn step(&mut self, cx: &mut Cx, op: ROp) -> bool {
        let fw = self.fw;
        let al = self.al;
        let n = fw.n();
        self.uid += 1;
        let uid = self.uid;
        let opname = op.name();
        count_reg_op(cx, &self.model.reg, &op);
        if reg_op_effective(&self.model.reg, &op) {
            cx.distinct(&(2u8, fw.name, self.model.reg.masks(), &op));
        }
        self.log.push(op.clone());
        let mut main = self.main.take().expect("main side");
        let verdict: Result<Result<(), Fail>, PanicInfo> = match op {
            ROp::GetRoute { a } => {
                let exp = self.model.reg.is_free(a);
                let member = self.model.reg.member[a];
                let ctx = &mut main.ctx;
                let res = guard(|| ctx.get_route(fw.actor(a)));
                if exp {
                    self.model.reg.used[a] = true;
                }
                match res {
                    Err(p) => Err(p),
                    Ok(got) => Ok(match (got, exp) {
                        (Some(_), false) if member => {
                            fail("handed-out-twice", format!("get_route({a}) returned a route for an actor in use"))
                        }
                        (Some(_), false) => {
                            fail("hands-out-non-member", format!("get_route({a}) returned a route for an actor outside the registry"))
                        }
                        (None, true) => fail("get_route-refused-free-actor", format!("get_route({a}) returned None for a free actor")),
                        (None, false) => Ok(()),
                        (Some(mut rc), true) => {
                            if !Arc::ptr_eq(&rc.route().actor, fw.actor(a)) {
                                fail("get_route-wrong-actor", format!("get_route({a}) returned a route of another actor"))
                            } else if let Err(f) = check_tour(&rc.route().tour, &empty_tour_model(fw, a), al) {
                                fail("get_route-not-a-fresh-route", format!("get_route({a}): {}", f.detail))
                            } else {
                                let cnt = 1 + uid % 2;
                                match guard(|| Self::grow_route(al, &mut rc, uid, cnt, cnt)) {
                                    Err(p) => {
                                        self.main = Some(main);
                                        let art = self.artefact("panic while filling the route returned by get_route");
                                        cx.report_panic("regctx", opname, &p, art);
                                        return false;
                                    }
                                    Ok(()) => {}
                                }
                                main.held[a] = Some(rc);
                                self.model.held[a] = Some(cnt);
                                Ok(())
                            }
                        }
                    }),
                }
            }
            ROp::UseRoute { a } => {
                let exp = self.model.reg.is_free(a);
                let member = self.model.reg.member[a];
                let probe = if a < n { main.held[a].take() } else { None };
                let had_held = probe.is_some();
                let probe = probe.unwrap_or_else(|| RouteContext::new(fw.actor(a).clone()));
                let ctx = &mut main.ctx;
                let res = guard(|| ctx.use_route(&probe));
                if had_held {
                    main.held[a] = Some(probe);
                }
                if exp {
                    self.model.reg.used[a] = true;
                }
                res.map(|got| match (got, exp) {
                    (true, false) if member => fail("handed-out-twice", format!("use_route({a}) returned true for an actor in use")),
                    (true, false) => fail("hands-out-non-member", format!("use_route({a}) returned true for an actor outside the registry")),
                    (false, true) => fail("use-refused-free-actor", format!("use_route({a}) returned false for a free actor")),
                    _ => Ok(()),
                })
            }
            ROp::FreeRoute { a } => {
                let member = self.model.reg.member[a];
                let exp = member && self.model.reg.used[a];
                let route = if a < n { main.held[a].take() } else { None };
                if a < n {
                    self.model.held[a] = None;
                }
                let route = route.unwrap_or_else(|| RouteContext::new(fw.actor(a).clone()));
                let ctx = &mut main.ctx;
                let res = guard(|| ctx.free_route(route));
                if member {
                    self.model.reg.used[a] = false;
                }
                res.map(|got| {
                    if member && got != exp {
                        fail("free-return-mismatch", format!("free_route({a}) returned {got}, actor was in use: {exp}"))
                    } else {
                        Ok(())
                    }
                })
            }
            ROp::KeepRoutes { mask } => {
                // the registry context travels inside a SolutionContext together with the held routes
                let order: Vec<usize> = (0..n).filter(|&a| main.held[a].is_some()).collect();
                // domain: a solution's routes are routes of vehicles in use (keep_routes asserts it)
                if order.iter().any(|&a| !(self.model.reg.member[a] && self.model.reg.used[a])) {
                    cx.obs("registry_ops", "solution_ctx.keep_routes:outside-domain(a held route of a vehicle not in use; not applied)");
                    self.main = Some(main);
                    return true;
                }
                let routes: Vec<RouteContext> = order.iter().map(|&a| main.held[a].take().unwrap()).collect();
                let keep_actors: Vec<*const Actor> = order.iter().filter(|&&a| mask >> a & 1 == 1).map(|&a| Arc::as_ptr(fw.actor(a))).collect();
                let mut sol = SolutionContext { required: vec![], ignored: vec![], unassigned: Default::default(), locked: Default::default(), routes, registry: main.ctx, state: Default::default() };
                let res = guard(|| {
                    sol.keep_routes(&|rc| keep_actors.contains(&Arc::as_ptr(&rc.route().actor)));
                    sol
                });
                // model: dropped routes release their vehicles
                for &a in order.iter().filter(|&&a| mask >> a & 1 == 0) {
                    self.model.held[a] = None;
                    if self.model.reg.member[a] {
                        self.model.reg.used[a] = false;
                    }
                }
                match res {
                    Ok(sol) => {
                        let kept: Vec<usize> = order.iter().copied().filter(|&a| mask >> a & 1 == 1).collect();
                        let ok = sol.routes.len() == kept.len();
                        let mut side = CtxSide { ctx: sol.registry, held: (0..n).map(|_| None).collect() };
                        for rc in sol.routes.into_iter() {
                            if let Some(a) = (0..n).find(|&a| std::ptr::eq(Arc::as_ptr(fw.actor(a)), Arc::as_ptr(&rc.route().actor))) {
                                side.held[a] = Some(rc);
                            }
                        }
                        self.main = Some(side);
                        if !ok {
                            let detail = format!("keep_routes kept another number of routes than the predicate selected ({})", kept.len());
                            let art = self.artefact(&detail);
                            cx.report("regctx", "keep-routes-mismatch", opname, &detail, art);
                            return false;
                        }
                        return self.check_all(cx, opname);
                    }
                    Err(p) => {
                        let detail = format!("keep_routes panicked: {} at {}", p.message, p.location);
                        let art = self.artefact(&detail);
                        cx.report("regctx", "panic", opname, &detail, art);
                        return false;
                    }
                }
            }
            ROp::Copy { on_copy, via_solution } => {
                let copied: Result<(CtxSide, CtxSide), PanicInfo> = if via_solution {
                    // the registry context travels inside a SolutionContext together with the held routes
                    let order: Vec<usize> = (0..n).filter(|&a| main.held[a].is_some()).collect();
                    let routes: Vec<RouteContext> = order.iter().map(|&a| main.held[a].take().unwrap()).collect();
                    let sol = SolutionContext {
                        required: vec![],
                        ignored: vec![],
                        unassigned: Default::default(),
                        locked: Default::default(),
                        routes,
                        registry: main.ctx,
                        state: Default::default(),
                    };
                    let res = guard(|| sol.deep_copy());
                    let mut original = CtxSide { ctx: sol.registry, held: (0..n).map(|_| None).collect() };
                    for (rc, &a) in sol.routes.into_iter().zip(order.iter()) {
                        original.held[a] = Some(rc);
                    }
                    match res {
                        Ok(copy) => {
                            if copy.routes.len() != order.len() {
                                self.main = Some(original);
                                let detail = format!("SolutionContext::deep_copy has {} routes expected {}", copy.routes.len(), order.len());
                                let art = self.artefact(&detail);
                                cx.report("regctx", "solution-copy-routes-mismatch", opname, &detail, art);
                                return false;
                            }
                            let mut side = CtxSide { ctx: copy.registry, held: (0..n).map(|_| None).collect() };
                            for (rc, &a) in copy.routes.into_iter().zip(order.iter()) {
                                side.held[a] = Some(rc);
                            }
                            Ok((original, side))
                        }
                        Err(p) => {
                            self.main = Some(original);
                            let art = self.artefact("panic in SolutionContext::deep_copy");
                            cx.report_panic("regctx", opname, &p, art);
                            return false;
                        }
                    }
                } else {
                    let res = guard(|| CtxSide {
                        ctx: main.ctx.deep_copy(),
                        held: main.held.iter().map(|h| h.as_ref().map(|rc| rc.deep_copy())).collect(),
                    });
                    res.map(|copy| (main, copy))
                };
                match copied {
                    Err(p) => {
                        let art = self.artefact("panic in deep_copy");
                        cx.report_panic("regctx", opname, &p, art);
                        return false;
                    }
                    Ok((original, copy)) => {
                        let snapshot = self.model.clone();
                        let (mut cont, aside) = if on_copy { (copy, original) } else { (original, copy) };
                        // the side the history continues on changes its held routes at once
                        for a in 0..n {
                            if let (Some(rc), Some(cnt)) = (cont.held[a].as_mut(), self.model.held[a]) {
                                if let Err(p) = guard(|| Self::grow_route(al, rc, uid, 1, cnt + 1)) {
                                    self.main = Some(cont);
                                    let art = self.artefact("panic while changing a held route");
                                    cx.report_panic("regctx", opname, &p, art);
                                    return false;
                                }
                                self.model.held[a] = Some(cnt + 1);
                            }
                        }
                        self.push_aside(aside, snapshot);
                        main = cont;
                        Ok(Ok(()))
                    }
                }
            }
            ROp::Slice { mask, on_slice } => {
                let res = guard(|| CtxSide {
                    ctx: main.ctx.deep_slice(reg_filter(fw, mask)),
                    held: main.held.iter().map(|h| h.as_ref().map(|rc| rc.deep_copy())).collect(),
                });
                match res {
                    Err(p) => Err(p),
                    Ok(slice) => {
                        let sliced = CtxModel { reg: self.model.reg.slice(mask), held: self.model.held.clone() };
                        if on_slice {
                            let snapshot = std::mem::replace(&mut self.model, sliced);
                            let original = std::mem::replace(&mut main, slice);
                            self.push_aside(original, snapshot);
                        } else {
                            self.push_aside(slice, sliced);
                        }
                        Ok(Ok(()))
                    }
                }
            }
            ROp::Use { .. } | ROp::Free { .. } => Ok(Ok(())),
        };
        self.main = Some(main);
        match verdict {
            Err(p) => {
                let art = self.artefact("panic in a mutating call");
                cx.report_panic("regctx", opname, &p, art);
                false
            }
            Ok(Err(f)) => {
                let art = self.artefact(&f.detail);
                cx.report("regctx", f.inv, opname, &f.detail, art);
                false
            }
            Ok(Ok(())) => self.check_all(cx, opname),
        }
    }
}

/// The op alphabet of the exhaustive registry part (state independent): actors 0..n plus the foreign actor n.
fn reg_ops_exhaustive(n: usize, ctx: bool) -> Vec<ROp> {
    let masks: [u32; 5] = [0b1111, 0b0000, 0b0011, 0b1010, 0b0111];
    let mut ops = vec![];
    for a in 0..=n {
        if ctx {
            ops.push(ROp::GetRoute { a });
            ops.push(ROp::UseRoute { a });
            ops.push(ROp::FreeRoute { a });
        } else {
            ops.push(ROp::Use { a });
            ops.push(ROp::Free { a });
        }
    }
    for on_copy in [true, false] {
        ops.push(ROp::Copy { on_copy, via_solution: false });
        if ctx {
            ops.push(ROp::Copy { on_copy, via_solution: true });
        }
    }
    for mask in masks {
        ops.push(ROp::Slice { mask, on_slice: true });
    }
    ops.push(ROp::Slice { mask: 0b0110, on_slice: false });
    ops
}

/// Runs one literal sequence; returns the length of the violating prefix if a violation was reported.
fn run_reg_sequence(
    cx: &mut Cx,
    w: &World,
    fleet: &str,
    ctx: bool,
    rand_seed: u64,
    ops: &[ROp],
    origin: Value,
    quiet: usize,
) -> Option<usize> {
    cx.stats.evals += 1;
    let fw = w.fleet(fleet);
    if ctx {
        let Some(mut r) = CtxRunner::new(cx, fw, &w.small, rand_seed, origin, quiet) else { return Some(0) };
        for op in ops {
            if !r.step(cx, op.clone()) {
                return Some(r.log.len());
            }
        }
    } else {
        let Some(mut r) = RegRunner::new(cx, fw, rand_seed, origin, quiet) else { return Some(0) };
        for op in ops {
            if !r.step(cx, op.clone()) {
                return Some(r.log.len());
            }
        }
    }
    None
}

fn gen_reg_op(rng: &mut Rng, n: usize, ctx: bool) -> ROp {
    let a = if rng.chance(0.06) { n } else { rng.usize_below(n) };
    if ctx && rng.chance(0.06) {
        return ROp::KeepRoutes { mask: rng.next_u64() as u32 & ((1u32 << n) - 1) };
    }
    let weights: [f64; 5] = if ctx { [3.0, 1.5, 3.5, 0.6, 0.5] } else { [4.0, 0.0, 4.0, 0.6, 0.5] };
    match rng.weighted(&weights) {
        0 => {
            if ctx {
                ROp::GetRoute { a }
            } else {
                ROp::Use { a }
            }
        }
        1 => ROp::UseRoute { a },
        2 => {
            if ctx {
                ROp::FreeRoute { a }
            } else {
                ROp::Free { a }
            }
        }
        3 => ROp::Copy { on_copy: rng.chance(0.5), via_solution: ctx && rng.chance(0.5) },
        _ => {
            let all = (1u32 << n) - 1;
            let mask = match rng.usize_below(20) {
                0 => 0,
                1..=3 => all,
                _ => (0..n).fold(0u32, |m, i| if rng.chance(0.8) { m | 1 << i } else { m }),
            };
            ROp::Slice { mask, on_slice: rng.chance(0.7) }
        }
    }
}

fn random_reg_history(cx: &mut Cx, w: &World, rng: &mut Rng, case_seed: u64, ctx: bool, want_sample: bool) {
    let fw = &w.fleets[rng.weighted(&[2.0, 4.0, 4.0, 0.5, 3.0])];
    let len = 1 + rng.usize_below(40);
    let rand_seed = rng.next_u64();
    cx.stats.evals += 1;
    cx.obs(
        "registry_fleets",
        match (fw.name, ctx) {
            ("small4", false) => "registry:small4",
            ("typed12", false) => "registry:typed12",
            ("mixed9", false) => "registry:mixed9",
            ("twins7", false) => "registry:twins7",
            (_, false) => "registry:single1",
            ("small4", true) => "registry_ctx:small4",
            ("typed12", true) => "registry_ctx:typed12",
            ("mixed9", true) => "registry_ctx:mixed9",
            ("twins7", true) => "registry_ctx:twins7",
            (_, true) => "registry_ctx:single1",
        },
    );
    let origin = json!({"phase": "random", "case_seed": case_seed});
    let log = if ctx {
        let Some(mut r) = CtxRunner::new(cx, fw, &w.small, rand_seed, origin, 0) else { return };
        for _ in 0..len {
            let op = gen_reg_op(rng, fw.n(), true);
            if !r.step(cx, op) {
                return;
            }
        }
        r.log
    } else {
        let Some(mut r) = RegRunner::new(cx, fw, rand_seed, origin, 0) else { return };
        for _ in 0..len {
            let op = gen_reg_op(rng, fw.n(), false);
            if !r.step(cx, op) {
                return;
            }
        }
        r.log
    };
    if want_sample {
        cx.run.sample(json!({"part": if ctx { "regctx" } else { "registry" }, "fleet": fw.name, "case_seed": case_seed,
            "rand_seed": rand_seed, "ops": log}));
    }
}

// ---------------------------------------------------------------------------------------------
// a context created from a solution: the acquire / release calls made on the caller's behalf

fn shared_environment() -> Arc<rosomaxa::prelude::Environment> {
    static ENV: std::sync::OnceLock<Arc<rosomaxa::prelude::Environment>> = std::sync::OnceLock::new();
    ENV.get_or_init(|| {
        Arc::new(rosomaxa::prelude::Environment::new(
            Arc::new(rosomaxa::prelude::DefaultRandom::default()),
            None,
            rosomaxa::utils::Parallelism::default(),
            Arc::new(|_: &str| {}),
            false,
        ))
    })
    .clone()
}

/// `InsertionContext::new_from_solution` on a solution whose registry marks the vehicles of its tours as used (what the
/// initial-solution readers produce): tours with jobs are kept, tours without jobs are dropped, and afterwards the registry
/// of the context offers a vehicle exactly when no tour of the context uses it.
fn from_solution_case(cx: &mut Cx, w: &World, rng: &mut Rng, case_seed: u64, want_sample: bool) {
    let fw = &w.fleets[rng.weighted(&[2.0, 3.0, 3.0, 0.5, 2.0])];
    let al = &w.small;
    let n = fw.n();
    cx.stats.evals += 1;
    let rnd = Arc::new(SeqRandom::new(rng.next_u64()));
    // which vehicles have a tour, and which jobs it serves (every job at most once in the solution)
    let mut free_jobs: Vec<usize> = (0..al.jobs.len()).collect();
    let mut plan: Vec<(usize, Vec<usize>)> = vec![];
    for a in 0..n {
        if rng.chance(0.45) {
            let mut jobs = vec![];
            while !free_jobs.is_empty() && rng.chance(0.45) {
                jobs.push(free_jobs.remove(rng.usize_below(free_jobs.len())));
            }
            plan.push((a, jobs));
        }
    }
    rng.shuffle(&mut plan);
    let spec = json!({"part": "from-solution", "fleet": fw.name, "case_seed": case_seed,
        "tours": plan.iter().map(|(a, jobs)| json!({"actor": a, "jobs": jobs.iter().map(|j| al.job_names[*j].clone()).collect::<Vec<_>>()})).collect::<Vec<_>>()});
    let with_jobs = plan.iter().filter(|(_, j)| !j.is_empty()).count();
    let without = plan.len() - with_jobs;
    cx.obs("from_solution", match (with_jobs > 0, without > 0) {
        (true, true) => "tours with and without jobs",
        (true, false) => "tours with jobs only",
        (false, true) => "tours without jobs only",
        (false, false) => "no tour",
    });
    let built = guard(|| {
        let mut registry = Registry::new(&fw.problem.fleet, rnd.clone());
        let mut routes = vec![];
        let mut uid = 0;
        for (a, jobs) in plan.iter() {
            let mut rc = RouteContext::new(fw.actor(*a).clone());
            for j in jobs.iter() {
                for (sub, s) in al.subs.iter().enumerate() {
                    if s.job == *j {
                        uid += 1;
                        rc.route_mut().tour.insert_last(job_activity(al, sub, uid));
                    }
                }
            }
            registry.use_actor(fw.actor(*a));
            routes.push(rc.route().deep_copy());
        }
        let unassigned = free_jobs.iter().map(|j| (al.jobs[*j].clone(), vrp_core::construction::heuristics::UnassignmentInfo::Unknown)).collect();
        let solution = Solution { cost: 0., registry, routes, unassigned, telemetry: None };
        InsertionContext::new_from_solution(fw.problem.clone(), (solution, None), shared_environment())
    });
    let ctx = match built {
        Ok(ctx) => ctx,
        Err(p) => {
            cx.report_panic("from-solution", "new_from_solution", &p, spec);
            return;
        }
    };
    cx.obs("registry_ops", "InsertionContext::new_from_solution");
    let verdict = guard(|| -> Result<(), Fail> {
        let mut in_use = vec![0usize; n];
        for rc in ctx.solution.routes.iter() {
            match fw.idx_of(rc.route().actor.as_ref()).filter(|a| *a < n) {
                Some(a) => in_use[a] += 1,
                None => return fail("foreign-actor", "a tour of the context belongs to no vehicle of the fleet".into()),
            }
        }
        for (a, jobs) in plan.iter() {
            let kept = ctx.solution.routes.iter().find(|rc| fw.idx_of(rc.route().actor.as_ref()) == Some(*a));
            match (jobs.is_empty(), kept) {
                (false, None) => return fail("tour-lost", format!("the tour of vehicle {a} serves jobs but is not in the context")),
                (false, Some(rc)) => {
                    let served: HashSet<usize> = rc.route().tour.jobs().filter_map(|j| al.job_index(j)).collect();
                    let expected: HashSet<usize> = jobs.iter().copied().collect();
                    if served != expected {
                        return fail("tour-changed", format!("the tour of vehicle {a} serves jobs {served:?}, the solution's tour served {expected:?}"));
                    }
                }
                _ => {}
            }
        }
        let offered: Vec<bool> = (0..n).map(|a| ctx.solution.registry.resources().available().any(|x| Arc::ptr_eq(&x, fw.actor(a)))).collect();
        for a in 0..n {
            if in_use[a] > 1 {
                return fail("vehicle-used-twice", format!("vehicle {a} has {} tours in the context", in_use[a]));
            }
            if in_use[a] == 1 && offered[a] {
                return fail("offers-used-actor", format!("vehicle {a} has a tour in the context and is offered by its registry"));
            }
            if in_use[a] == 0 && !offered[a] {
                return fail("misses-free-actor", format!("vehicle {a} has no tour in the context but its registry does not offer it"));
            }
        }
        Ok(())
    });
    match verdict {
        Err(p) => cx.report_panic("from-solution", "new_from_solution", &p, spec),
        Ok(Err(f)) => cx.report("from-solution", f.inv, "new_from_solution", &f.detail, spec),
        Ok(Ok(())) => {
            cx.distinct(&(3u8, fw.name, plan.iter().map(|(a, j)| (*a, j.clone())).collect::<Vec<_>>()));
            if want_sample {
                cx.run.sample(spec);
            }
        }
    }
}

// ---------------------------------------------------------------------------------------------
// drivers

fn common_prefix<T: PartialEq>(a: &[T], b: &[T]) -> usize {
    a.iter().zip(b.iter()).take_while(|(x, y)| x == y).count()
}

enum Task {
    Tour { kind: Kind, closed: bool, prefix: Vec<TOp> },
    Reg { ctx: bool, prefix: Vec<ROp> },
}

fn exhaustive(run: &Run, shared: &Shared) {
    let len = run.by_tier(4usize, 5);
    let split = 2usize.min(len);
    // task list: every prefix of length `split`; a task enumerates all continuations up to `len`
    let mut tasks: Vec<Task> = vec![];
    let (tour_alpha_ops, reg_ops, ctx_ops) = WORLD.with(|w| {
        let al = &w.small;
        for kind in KINDS {
            for closed in [true, false] {
                let model = TourModel { closed, start: (0, 0), end: (0, 0), acts: vec![], state: None };
                let mut seq = vec![];
                dfs_tour(al, &model, &mut seq, split, &mut |p: &[TOp]| {
                    tasks.push(Task::Tour { kind, closed, prefix: p.to_vec() });
                    true
                });
            }
        }
        let n = w.fleets[0].n();
        (tour_ops_at(0, al).len(), reg_ops_exhaustive(n, false), reg_ops_exhaustive(n, true))
    });
    for ctx in [false, true] {
        let ops = if ctx { &ctx_ops } else { &reg_ops };
        for a in ops.iter() {
            for b in ops.iter() {
                tasks.push(Task::Reg { ctx, prefix: vec![a.clone(), b.clone()] });
            }
        }
    }
    // interleave cheap and expensive tasks
    let mut order: Vec<usize> = (0..tasks.len()).collect();
    Rng::new(0xC14).shuffle(&mut order);
    let done = AtomicU64::new(0);
    let tour_seqs = AtomicU64::new(0);
    let reg_seqs = AtomicU64::new(0);
    let ctx_seqs = AtomicU64::new(0);
    let stop = || !run.has_time_frac(0.8) || shared.too_many_violations();
    par_for(16, tasks.len() as u64, &stop, &|i| {
        let task = &tasks[order[i as usize]];
        let mut cx = Cx::new(run, shared);
        WORLD.with(|w| match task {
            Task::Tour { kind, closed, prefix } => {
                let al = &w.small;
                let mut model = TourModel { closed: *closed, start: (0, 0), end: (0, 0), acts: vec![], state: None };
                for op in prefix {
                    model.apply(al, op, 0);
                }
                let mut seq = prefix.clone();
                let mut count = 0u64;
                let origin = json!({"phase": "exhaustive", "len": len});
                // a sequence shares a prefix with its predecessor in the enumeration: that prefix was compared step by
                // step there, so only the new suffix is compared again (every distinct prefix is compared exactly once)
                // Sequences which extend a prefix that already violated are not run (they would blame later ops).
                let mut prev: Vec<TOp> = vec![];
                let mut bad: Option<Vec<TOp>> = None;
                dfs_tour(al, &model, &mut seq, len - split, &mut |ops: &[TOp]| {
                    count += 1;
                    if bad.as_ref().is_some_and(|b| ops.starts_with(b)) {
                        cx.obs("exhaustive_skipped", "tour sequence extends a violating prefix");
                        return !shared.too_many_violations();
                    }
                    let quiet = if prev.is_empty() { 0 } else { common_prefix(&prev, ops) + 1 };
                    if let Some(k) = run_tour_sequence(&mut cx, w, al, *kind, *closed, ops, origin.clone(), quiet) {
                        bad = Some(ops[..k].to_vec());
                    }
                    prev.clear();
                    prev.extend_from_slice(ops);
                    !shared.too_many_violations()
                });
                tour_seqs.fetch_add(count, Ordering::Relaxed);
            }
            Task::Reg { ctx, prefix } => {
                let ops = if *ctx { &ctx_ops } else { &reg_ops };
                let rest = len - split;
                let total = (ops.len() as u64).pow(rest as u32);
                let origin = json!({"phase": "exhaustive", "len": len});
                let mut seq = prefix.clone();
                let mut prev: Vec<ROp> = vec![];
                let mut bad: Option<Vec<ROp>> = None;
                // one seed for the registry's Random per task (it only steers which representative next() picks)
                let rand_seed = mix(0xC14, i);
                for code in 0..total {
                    seq.truncate(split);
                    // the last position varies fastest, so consecutive sequences share long prefixes
                    let mut div = total;
                    for _ in 0..rest {
                        div /= ops.len() as u64;
                        seq.push(ops[((code / div) % ops.len() as u64) as usize].clone());
                    }
                    if bad.as_ref().is_some_and(|b| seq.starts_with(b)) {
                        cx.obs("exhaustive_skipped", "registry sequence extends a violating prefix");
                        continue;
                    }
                    let quiet = if prev.is_empty() { 0 } else { common_prefix(&prev, &seq) + 1 };
                    if let Some(k) = run_reg_sequence(&mut cx, w, "small4", *ctx, rand_seed, &seq, origin.clone(), quiet) {
                        bad = Some(seq[..k].to_vec());
                    }
                    prev.clone_from(&seq);
                    if shared.too_many_violations() {
                        break;
                    }
                }
                if *ctx { &ctx_seqs } else { &reg_seqs }.fetch_add(total, Ordering::Relaxed);
            }
        });
        cx.flush();
        done.fetch_add(1, Ordering::Relaxed);
    });
    let completed = done.load(Ordering::Relaxed) == tasks.len() as u64 && !shared.too_many_violations();
    let mut note = json!({
        "completed": completed,
        "sequence_length": len,
        "tasks_done": done.load(Ordering::Relaxed), "tasks_total": tasks.len(),
        "tour_sequences": tour_seqs.load(Ordering::Relaxed),
        "registry_sequences": reg_seqs.load(Ordering::Relaxed),
        "registry_ctx_sequences": ctx_seqs.load(Ordering::Relaxed),
        "tour_ops_at_empty_state": tour_alpha_ops,
        "registry_op_alphabet": reg_ops.len(), "registry_ctx_op_alphabet": ctx_ops.len(),
        "tour_alphabet": "2 single jobs + one multi job of 2 tasks; 4 holders x closed/open",
        "registry_fleet": "small4: 4 actors in 2 groups (3+1) + 1 foreign actor",
    });
    if completed {
        note["exhaustive"] = json!(true);
    }
    run.note("exhaustive_part", note);
}

fn random_part(run: &Run, shared: &Shared) {
    let cases = run.by_tier(50_000u64, 6_000_000);
    const CHUNK: u64 = 128;
    let chunks = cases.div_ceil(CHUNK);
    // the budget only stops generating MORE histories: a minimum is always run (several floors depend on this part)
    const MIN_CASES: u64 = 8_192;
    let executed = AtomicU64::new(0);
    let stop = || (!run.has_time() && executed.load(Ordering::Relaxed) >= MIN_CASES) || shared.too_many_violations();
    par_for(16, chunks, &stop, &|c| {
        let mut cx = Cx::new(run, shared);
        WORLD.with(|w| {
            for i in c * CHUNK..((c + 1) * CHUNK).min(cases) {
                let case_seed = mix(run.seed, i);
                random_case(&mut cx, w, case_seed, i < 6);
                executed.fetch_add(1, Ordering::Relaxed);
                if shared.too_many_violations() {
                    break;
                }
            }
        });
        cx.flush();
    });
    run.note("random_part", json!({"histories_planned": cases, "histories_executed": executed.load(Ordering::Relaxed), "max_ops": 40}));
}

fn random_case(cx: &mut Cx, w: &World, case_seed: u64, want_sample: bool) {
    let mut rng = Rng::new(case_seed);
    match rng.weighted(&[0.5, 0.2, 0.27, 0.03]) {
        0 => random_tour_history(cx, w, &mut rng, case_seed, want_sample),
        1 => random_reg_history(cx, w, &mut rng, case_seed, false, want_sample),
        2 => random_reg_history(cx, w, &mut rng, case_seed, true, want_sample),
        _ => from_solution_case(cx, w, &mut rng, case_seed, want_sample),
    }
}

fn replay(run: &Run, shared: &Shared, path: &std::path::Path) {
    let text = std::fs::read_to_string(path).unwrap_or_default();
    let doc: Value = serde_json::from_str(&text).unwrap_or(Value::Null);
    let art = doc.get("artefact").cloned().unwrap_or(Value::Null);
    let mut cx = Cx::new(run, shared);
    let origin = json!({"phase": "replay", "of": path.display().to_string()});
    let ok = WORLD.with(|w| match art["part"].as_str() {
        Some("tour") => {
            let (Ok(ops), Ok(kind), Some(closed)) = (
                serde_json::from_value::<Vec<TOp>>(art["ops"].clone()),
                serde_json::from_value::<Kind>(art["kind"].clone()),
                art["closed"].as_bool(),
            ) else {
                return false;
            };
            let al = w.alphabet(art["alphabet"].as_str().unwrap_or(""));
            run_tour_sequence(&mut cx, w, al, kind, closed, &ops, origin, 0);
            true
        }
        Some(part @ ("registry" | "regctx")) => {
            let Ok(ops) = serde_json::from_value::<Vec<ROp>>(art["ops"].clone()) else { return false };
            let fleet = art["fleet"].as_str().unwrap_or("small4");
            let rand_seed = art["rand_seed"].as_u64().unwrap_or(0);
            run_reg_sequence(&mut cx, w, fleet, part == "regctx", rand_seed, &ops, origin, 0);
            true
        }
        // the case is a function of its seed (same dispatcher, same generator)
        Some("from-solution") => match art["case_seed"].as_u64() {
            Some(case_seed) => {
                random_case(&mut cx, w, case_seed, false);
                true
            }
            None => false,
        },
        _ => false,
    });
    cx.flush();
    if !ok {
        run.inconclusive("replay artefact cannot be parsed");
        run.floor("replay-artefact-parsed", 0, 1);
    }
    println!("REPLAY property=C14 {} reproduced_violations={}", path.display(), run.violation_count());
}

fn main() {
    let run = Run::from_args("C14", "exploration", RULE, 40, 480);
    let shared = Shared::new();
    if let Some(path) = run.replay.clone() {
        replay(&run, &shared, &path);
        run.finish();
    }
    run.assume("insert_at is used with indices 1..=job_activity_count()+1 only (index 0 / beyond the end place would displace a depot end: no documented meaning); remove_activity_at only with indices of job activities (documented panic otherwise); such raw draws are counted as not generated");
    run.assume("the same job / sub-job may be inserted several times (the container does not forbid it); the model then keeps one set entry and remove() drops all activities");
    run.assume("remove_activity_at is documented as 'Removes activity and its job from the tour': the model removes every activity of that job");
    run.assume("legs(): closed tour = pairs (i,i+1) with index i; open tour = the same pairs plus one single-activity leg [last] with index total-1 (also for the start-only open tour)");
    run.assume("Tour::end()/end_idx() are compared for closed tours only; for open tours their meaning is not stated");
    run.assume("free_actor/free_route return value is compared for actors of the registry only ('true iff it was in use'); for foreign / sliced-out actors only the state afterwards is compared (never offered, use_* returns false)");
    run.assume("next()/next_route(): asserted 'only free actors, no actor twice, at least one of every group which still has a free actor' under a harness Random returning min / max / uniform values of the closed interval; groups come from the harness's own fleet spec");
    run.assume("iteration order of jobs(), all(), available(), next() is unspecified and not compared; replay re-runs the literal op list (HashSet iteration order of the registry may differ between processes)");
    exhaustive(&run, &shared);
    random_part(&run, &shared);

    // evidence: distinct (state, op) pairs
    let mut distinct = 0u64;
    for shard in shared.shards.iter() {
        for k in shard.lock().unwrap().iter() {
            run.nontrivial(&format!("{k:016x}"));
            distinct += 1;
        }
    }
    run.note("distinct_state_op_pairs", json!(distinct));
    run.note("distinct_cap_hit", json!(shared.distinct_cap_hit.load(Ordering::Relaxed)));
    run.note("step_checks", json!(shared.step_checks.load(Ordering::Relaxed)));
    run.note("evaluations_unit", json!("one operation history (all steps compared)"));

    // floors: "observed nothing" is never a pass
    run.floor("registry histories on a fleet whose vehicles have identical shifts (actors differ by identity only)", run.observed("registry_fleets", "registry:twins7") + run.observed("registry_fleets", "registry_ctx:twins7"), 500);
    run.floor("contexts created from a solution with tours with and without jobs", run.observed("from_solution", "tours with and without jobs"), 200);
    run.floor("histories", run.evaluations(), 1000);
    run.floor("harness-panics-absent", (shared.harness_panics.load(Ordering::Relaxed) == 0) as u64, 1);
    for key in [
        "insert_at",
        "insert_last",
        "remove",
        "remove:absent-job",
        "remove:multi-job-several-activities",
        "remove_activity_at",
        "remove_activity_at:job-with-several-activities",
        "deep_copy:tour",
        "deep_copy:route",
        "deep_copy:route_ctx",
        "set_start",
        "set_end",
        "new:closed-actor",
        "new:open-actor",
        "touch:get_mut/all_activities_mut",
        "set_state",
    ] {
        run.floor(&format!("tour_ops[{key}]"), run.observed("tour_ops", key), 1);
    }
    for key in [
        "Registry::new",
        "RegistryContext::new",
        "use_actor:free",
        "use_actor:in-use",
        "use_actor:non-member",
        "free_actor:free",
        "free_actor:in-use",
        "get_route:free",
        "get_route:in-use",
        "use_route:free",
        "use_route:in-use",
        "free_route:free",
        "free_route:in-use",
        "deep_copy",
        "solution_ctx.deep_copy",
        "deep_slice",
        "all+available+next(x3) compared",
        "resources()+next_route(x3) compared",
    ] {
        run.floor(&format!("registry_ops[{key}]"), run.observed("registry_ops", key), 1);
    }
    run.finish();
}
