//! C10 – problem validation is total and matches its documented rules.
//!
//! Workload: a valid G1 document (plus seeded, still valid C10 enrichments: every task kind, relations, timestamped /
//! profile-less matrices, coordinates) which must be accepted, then ONE recorded mutation per judged document taken
//! from a catalogue (per documented rule: breakers and near-misses; per schema field: hostile values of the right
//! JSON type). Oracle O6 (`refvalidate`, written from the documentation) judges every document three-valued per rule.
use serde_json::{Map, Value, json};
use std::collections::{BTreeMap, BTreeSet};
use vverif::pragen::{GenCfg, generate};
use vverif::refvalidate::{self as o6, RESERVED, RULES, Report, TASK_KINDS, TimeParse, Tri, rfc3339};
use vverif::solverun::{ReadOutcome, read_problem_texts};
use vverif::timeutil::{T0, fmt_time};
use vverif::{Rng, Run, clip, mix, par_for};

#[derive(Clone, Debug)]
struct Doc {
    problem: Value,
    matrices: Vec<Value>,
}

#[derive(Clone, Copy, Debug, PartialEq, Eq)]
enum Role {
    /// Built to violate `rule`.
    Breaker,
    /// Built to stay just inside `rule` (or in its unspecified zone).
    Near,
    /// Hostile value of the right JSON type on a schema field.
    Field,
}

type Apply = Box<dyn Fn(&mut Doc, &mut Rng) -> bool + Send + Sync>;

struct Mutation {
    class: String,
    field: String,
    rule: &'static str,
    role: Role,
    apply: Apply,
}

// ---------------------------------------------------------------------------------------------
// small json helpers

fn ptr_mut<'a>(d: &'a mut Doc, ptr: &str) -> &'a mut Value {
    d.problem.pointer_mut(ptr).unwrap_or_else(|| panic!("harness: bad pointer {ptr}"))
}

fn obj<'a>(v: &'a mut Value) -> &'a mut Map<String, Value> {
    v.as_object_mut().expect("harness: object expected")
}

fn list<'a>(v: &'a Value, key: &str) -> &'a [Value] {
    static EMPTY: Vec<Value> = Vec::new();
    v.get(key).and_then(|x| x.as_array()).map(|a| a.as_slice()).unwrap_or(&EMPTY)
}

fn pick_s(rng: &mut Rng, items: Vec<String>) -> Option<String> {
    if items.is_empty() { None } else { Some(items[rng.usize_below(items.len())].clone()) }
}

fn t(secs: i64) -> String {
    fmt_time(T0 + secs)
}

fn dims_of(d: &Doc) -> usize {
    d.problem["fleet"]["vehicles"][0]["capacity"].as_array().map(|a| a.len()).unwrap_or(1).max(1)
}

fn n_jobs(d: &Doc) -> usize {
    list(&d.problem["plan"], "jobs").len()
}

/// JSON pointers of job places: `wh` ∈ pickup|delivery|service|replacement (first place of the first task of that
/// list), task2 (first place of the second pickup/delivery task), place2 (second place of a pickup/delivery task).
fn place_ptrs(d: &Doc, wh: &str) -> Vec<String> {
    let mut out = Vec::new();
    for (j, job) in list(&d.problem["plan"], "jobs").iter().enumerate() {
        for kind in TASK_KINDS {
            for (ti, task) in list(job, kind).iter().enumerate() {
                let np = list(task, "places").len();
                let base = format!("/plan/jobs/{j}/{kind}/{ti}/places");
                let hit = match wh {
                    "pickup" => kind == "pickups" && ti == 0,
                    "delivery" => kind == "deliveries" && ti == 0,
                    "service" => kind == "services" && ti == 0,
                    "replacement" => kind == "replacements" && ti == 0,
                    "task2" => ti == 1 && (kind == "pickups" || kind == "deliveries"),
                    _ => false,
                };
                if hit && np > 0 {
                    out.push(format!("{base}/0"));
                }
                if wh == "place2" && np > 1 && (kind == "pickups" || kind == "deliveries") {
                    out.push(format!("{base}/1"));
                }
            }
        }
    }
    out
}

/// JSON pointers of tasks: same selectors as `place_ptrs` without place2.
fn task_ptrs(d: &Doc, wh: &str) -> Vec<String> {
    place_ptrs(d, wh).into_iter().map(|p| p.rsplitn(3, '/').nth(2).unwrap().to_string()).collect()
}

fn place_field(wh: &str) -> String {
    let k = match wh {
        "pickup" => "pickups[0]",
        "delivery" => "deliveries[0]",
        "service" => "services[0]",
        "replacement" => "replacements[0]",
        "task2" => "<tasks>[1]",
        _ => "<tasks>[].places[1]",
    };
    if wh == "place2" { format!("plan.jobs[].{k}") } else { format!("plan.jobs[].{k}.places[0]") }
}

fn shift_ptrs(d: &Doc, pred: &dyn Fn(usize, usize, &Value, &Value) -> bool) -> Vec<String> {
    let mut out = Vec::new();
    for (v, vt) in list(&d.problem["fleet"], "vehicles").iter().enumerate() {
        for (s, sh) in list(vt, "shifts").iter().enumerate() {
            if pred(v, s, vt, sh) {
                out.push(format!("/fleet/vehicles/{v}/shifts/{s}"));
            }
        }
    }
    out
}

/// `(start.earliest, end.latest)` of a shift in seconds relative to T0 (end None for open shifts).
fn shift_times(sh: &Value) -> Option<(i64, Option<i64>)> {
    let st = match rfc3339(sh["start"]["earliest"].as_str()?) {
        TimeParse::Ok(x) => x as i64 - T0,
        _ => return None,
    };
    let en = match sh.get("end").filter(|e| !e.is_null()) {
        Some(e) => match rfc3339(e["latest"].as_str()?) {
            TimeParse::Ok(x) => Some(x as i64 - T0),
            _ => return None,
        },
        None => None,
    };
    Some((st, en))
}

fn vehicle_ids(d: &Doc) -> Vec<(usize, String)> {
    let mut out = Vec::new();
    for (v, vt) in list(&d.problem["fleet"], "vehicles").iter().enumerate() {
        for id in list(vt, "vehicleIds") {
            if let Some(id) = id.as_str() {
                out.push((v, id.to_string()));
            }
        }
    }
    out
}

fn related_jobs(d: &Doc) -> BTreeSet<String> {
    list(&d.problem["plan"], "relations").iter().flat_map(|r| list(r, "jobs").iter().filter_map(|x| x.as_str().map(|s| s.to_string()))).collect()
}

#[derive(PartialEq, Clone, Copy)]
enum JobShape {
    /// one task, one place, at most one window
    Simple,
    MultiPlace,
    MultiWindow,
    /// several tasks, each with one place and at most one window
    MultiTask,
}

fn job_shape(job: &Value) -> Option<JobShape> {
    let tasks: Vec<&Value> = TASK_KINDS.iter().flat_map(|k| list(job, k).iter()).collect();
    if tasks.is_empty() || tasks.iter().any(|t| list(t, "places").is_empty()) {
        return None;
    }
    let multi_place = tasks.iter().any(|t| list(t, "places").len() > 1);
    let multi_tw = tasks.iter().any(|t| list(t, "places").iter().any(|p| list(p, "times").len() > 1));
    Some(if multi_place {
        JobShape::MultiPlace
    } else if multi_tw {
        JobShape::MultiWindow
    } else if tasks.len() > 1 {
        JobShape::MultiTask
    } else {
        JobShape::Simple
    })
}

/// Ids of jobs of a shape which no relation mentions yet and which are not reserved words.
fn free_jobs(d: &Doc, shape: JobShape) -> Vec<String> {
    let used = related_jobs(d);
    list(&d.problem["plan"], "jobs")
        .iter()
        .filter(|j| job_shape(j) == Some(shape))
        .filter_map(|j| j["id"].as_str())
        .filter(|id| !used.contains(*id) && !RESERVED.contains(id) && *id != "recharge")
        .map(|s| s.to_string())
        .collect()
}

fn task_count(d: &Doc, id: &str) -> usize {
    list(&d.problem["plan"], "jobs").iter().find(|j| j["id"].as_str() == Some(id)).map(|j| TASK_KINDS.iter().map(|k| list(j, k).len()).sum()).unwrap_or(0)
}

fn add_relation(d: &mut Doc, rel: Value) {
    let plan = obj(&mut d.problem["plan"]);
    match plan.get_mut("relations").and_then(|r| r.as_array_mut()) {
        Some(r) => r.push(rel),
        None => {
            plan.insert("relations".into(), json!([rel]));
        }
    }
}

fn n_locations(d: &Doc) -> usize {
    let mut idx = BTreeSet::new();
    for (_, l) in o6::all_locations(&d.problem) {
        if let Some(i) = l["index"].as_u64() {
            idx.insert(i);
        }
    }
    idx.len()
}

fn unique_locations(d: &Doc) -> usize {
    o6::all_locations(&d.problem).iter().map(|(_, l)| l.to_string()).collect::<BTreeSet<_>>().len()
}

fn uses_indices(d: &Doc) -> bool {
    o6::all_locations(&d.problem).iter().any(|(_, l)| l.get("index").is_some())
}

fn some_location(d: &Doc, rng: &mut Rng) -> Value {
    let locs = o6::all_locations(&d.problem);
    locs[rng.usize_below(locs.len())].1.clone()
}

fn matrix_size(d: &Doc) -> Option<usize> {
    let n = d.matrices.first()?["distances"].as_array()?.len();
    let r = (n as f64).sqrt().round() as usize;
    (r * r == n).then_some(r)
}

fn resize_matrices(d: &mut Doc, new: usize) {
    let Some(old) = matrix_size(d) else { return };
    for m in d.matrices.iter_mut() {
        for key in ["distances", "travelTimes", "errorCodes"] {
            let Some(a) = m.get(key).and_then(|a| a.as_array()).cloned() else { continue };
            let mut out = Vec::with_capacity(new * new);
            for r in 0..new {
                for c in 0..new {
                    out.push(if r < old && c < old { a[r * old + c].clone() } else if key == "errorCodes" || r == c { json!(0) } else { json!(7 + ((r * 3 + c) % 11) as i64) });
                }
            }
            m[key] = Value::Array(out);
        }
    }
}

// ---------------------------------------------------------------------------------------------
// base documents: G1 + valid C10 enrichments

fn gen_base(rng: &mut Rng) -> (Doc, Vec<String>) {
    let cfg = GenCfg {
        min_jobs: 3,
        max_jobs: 12,
        p_required_breaks: 0.3,
        p_recharge: 0.25,
        p_clustering: 0.15,
        p_multi_places: 0.4,
        p_values: 0.3,
        p_order: 0.3,
        ..GenCfg::default()
    };
    let g = generate(rng, &cfg);
    let mut d = Doc { problem: g.problem, matrices: g.matrices };
    let mut tags: Vec<String> = vec![];
    let dims = dims_of(&d);
    let nloc = g.locations.max(1);
    let has_values = list(&d.problem["plan"], "jobs").iter().any(|j| j.get("value").is_some());
    let _ = has_values;
    let loc = |rng: &mut Rng| json!({"index": rng.usize_below(nloc)});
    let dem = |rng: &mut Rng| -> Value { json!((0..dims).map(|_| rng.range_i64(0, 2)).collect::<Vec<i64>>()) };
    // one job of each kind (seeded subset)
    let mut extra: Vec<Value> = vec![];
    if rng.chance(0.7) {
        let b = rng.range_i64(0, 500);
        extra.push(json!({"id": "c10_delivery", "deliveries": [{"places": [{"location": loc(rng), "duration": 5.0,
            "times": [[t(b), t(b + 100)], [t(b + 200), t(b + 300)], [t(b + 400), t(b + 900)]]}], "demand": dem(rng)}]}));
    }
    if rng.chance(0.7) {
        extra.push(json!({"id": "c10_pickup", "pickups": [{"places": [{"location": loc(rng), "duration": 0.0}], "demand": dem(rng)}]}));
    }
    if rng.chance(0.7) {
        let b = rng.range_i64(0, 500);
        extra.push(json!({"id": "c10_service", "services": [{"places": [{"location": loc(rng), "duration": 7.0, "times": [[t(b), t(b + 1000)]]}]}]}));
    }
    if rng.chance(0.7) {
        extra.push(json!({"id": "c10_replacement", "replacements": [{"places": [{"location": loc(rng), "duration": 3.0}], "demand": dem(rng)}]}));
    }
    if rng.chance(0.7) {
        let unit: Vec<i64> = (0..dims).map(|_| 1).collect();
        let two: Vec<i64> = (0..dims).map(|_| 2).collect();
        extra.push(json!({"id": "c10_pd",
            "pickups": [{"places": [{"location": loc(rng), "duration": 1.0, "tag": "c10p0"}], "demand": unit},
                        {"places": [{"location": loc(rng), "duration": 1.0, "tag": "c10p1"}], "demand": unit}],
            "deliveries": [{"places": [{"location": loc(rng), "duration": 1.0, "tag": "c10d0"}], "demand": two}]}));
    }
    if rng.chance(0.7) {
        let b = rng.range_i64(0, 500);
        extra.push(json!({"id": "c10_places", "deliveries": [{"places": [
            {"location": loc(rng), "duration": 2.0, "times": [[t(b), t(b + 100)], [t(b + 300), t(b + 600)]], "tag": "c10a"},
            {"location": loc(rng), "duration": 4.0, "tag": "c10b"}], "demand": dem(rng)}]}));
    }
    d.problem["plan"]["jobs"].as_array_mut().unwrap().extend(extra);

    // relations which obey E12xx
    if rng.chance(0.5) {
        tags.push("relations".into());
        let vids = vehicle_ids(&d);
        let n_rel = rng.range_usize(1, 2).min(vids.len());
        let mut vpick: Vec<usize> = (0..vids.len()).collect();
        rng.shuffle(&mut vpick);
        for r in 0..n_rel {
            let (v, vid) = vids[vpick[r]].clone();
            let shifts = list(&d.problem["fleet"]["vehicles"][v], "shifts").to_vec();
            let si = rng.usize_below(shifts.len());
            let shift = &shifts[si];
            let rtype = *rng.pick(&["any", "sequence", "strict"]);
            let mut simple = free_jobs(&d, JobShape::Simple);
            rng.shuffle(&mut simple);
            simple.truncate(rng.range_usize(1, 3));
            let mut ids: Vec<String> = simple;
            if rng.chance(0.4) {
                if let Some(mt) = pick_s(rng, free_jobs(&d, JobShape::MultiTask)) {
                    for _ in 0..task_count(&d, &mt) {
                        ids.push(mt.clone());
                    }
                }
            }
            if ids.is_empty() {
                continue;
            }
            if rtype != "any" && rng.chance(0.5) {
                ids.insert(0, "departure".into());
            }
            if shift.get("reloads").is_some() && rng.chance(0.3) {
                ids.insert(ids.len().min(1 + rng.usize_below(ids.len())), "reload".into());
                tags.push("relation-reload".into());
            }
            // only optional breaks become jobs a relation can name (a shift with required breaks only: own mutation class)
            if list(shift, "breaks").first().is_some_and(|b| b.get("places").is_some()) && rng.chance(0.3) {
                ids.push("break".into());
                tags.push("relation-break".into());
            }
            if shift.get("end").is_some() && rtype != "any" && rng.chance(0.3) {
                ids.push("arrival".into());
            }
            let mut rel = json!({"type": rtype, "jobs": ids, "vehicleId": vid});
            if si > 0 || rng.chance(0.3) {
                rel["shiftIndex"] = json!(si);
            }
            add_relation(&mut d, rel);
        }
    }

    // a multi-objective layer whose members all are objective-only features (tours, unassigned, arrival time) is rejected
    // by the reader with E0000 "empty feature is not allowed": probed by its own mutation class, flattened in base documents
    if let Some(objs) = d.problem.get("objectives").and_then(|o| o.as_array()).cloned() {
        let plain = ["minimize-tours", "maximize-tours", "minimize-unassigned", "minimize-arrival-time"];
        let mut flat = Vec::new();
        for o in objs {
            let members = list(&o, "objectives");
            if o["type"] == "multi-objective" && members.iter().all(|m| plain.contains(&m["type"].as_str().unwrap_or(""))) {
                flat.extend(members.iter().cloned());
            } else {
                flat.push(o);
            }
        }
        d.problem["objectives"] = Value::Array(flat);
    }

    // routing variants
    let single_profile = list(&d.problem["fleet"], "profiles").len() == 1;
    match rng.usize_below(10) {
        0 => {
            // time dependent: two timestamps per profile
            let ms = d.matrices.clone();
            d.matrices.clear();
            for m in ms {
                for k in 0..2 {
                    let mut c = m.clone();
                    c["timestamp"] = json!(t(k * 3600));
                    d.matrices.push(c);
                }
            }
            tags.push("time-dependent-matrices".into());
        }
        1 if single_profile => {
            obj(&mut d.matrices[0]).remove("profile");
            tags.push("matrix-without-profile".into());
        }
        2 | 3 => {
            // geocoordinates instead of indices; with or without the matrices
            fn conv(v: &mut Value) {
                match v {
                    Value::Object(m) => {
                        if let Some(i) = m.get("index").and_then(|i| i.as_u64()) {
                            *v = json!({"lat": 52.4 + i as f64 * 0.001, "lng": 13.2 + ((i * 7) % 31) as f64 * 0.001});
                        } else {
                            m.values_mut().for_each(conv);
                        }
                    }
                    Value::Array(a) => a.iter_mut().for_each(conv),
                    _ => {}
                }
            }
            conv(&mut d.problem);
            if rng.chance(0.5) {
                d.matrices.clear();
                tags.push("coordinates-approximated".into());
            } else {
                tags.push("coordinates-with-matrix".into());
            }
        }
        _ => tags.push("index-locations".into()),
    }
    for f in g.features.iter() {
        tags.push(f.clone());
    }
    (d, tags)
}

// ---------------------------------------------------------------------------------------------
// judging

fn in_domain(d: &Doc) -> bool {
    use std::io::BufReader;
    use vrp_pragmatic::format::problem::{deserialize_matrix, deserialize_problem};
    let p = serde_json::to_string(&d.problem).unwrap();
    if deserialize_problem(BufReader::new(p.as_bytes())).is_err() {
        return false;
    }
    d.matrices.iter().all(|m| deserialize_matrix(BufReader::new(serde_json::to_string(m).unwrap().as_bytes())).is_ok())
}

fn diff(a: &Value, b: &Value, path: &str, out: &mut Vec<Value>) {
    if out.len() >= 16 || a == b {
        return;
    }
    match (a, b) {
        (Value::Object(x), Value::Object(y)) => {
            let keys: BTreeSet<&String> = x.keys().chain(y.keys()).collect();
            for k in keys {
                diff(x.get(k).unwrap_or(&Value::Null), y.get(k).unwrap_or(&Value::Null), &format!("{path}.{k}"), out);
            }
        }
        (Value::Array(x), Value::Array(y)) if x.len() == y.len() && x.len() <= 4000 => {
            for i in 0..x.len() {
                diff(&x[i], &y[i], &format!("{path}[{i}]"), out);
            }
        }
        (Value::Array(x), Value::Array(y)) if y.len() > x.len() && x.iter().zip(y.iter()).all(|(p, q)| p == q) && y.len() - x.len() <= 3 => {
            for i in x.len()..y.len() {
                out.push(json!({"path": format!("{path}[{i}]"), "added": clip(&y[i].to_string(), 700)}));
            }
        }
        _ => out.push(json!({"path": path, "before": clip(&a.to_string(), 300), "after": clip(&b.to_string(), 700)})),
    }
}

fn doc_diff(base: &Doc, m: &Doc) -> Value {
    let mut out = Vec::new();
    diff(&base.problem, &m.problem, "problem", &mut out);
    diff(&Value::Array(base.matrices.clone()), &Value::Array(m.matrices.clone()), "matrices", &mut out);
    Value::Array(out)
}

struct Judged {
    outcome: String,
}

/// Judges one document; `base_unspec` are the open points of the accepted base document (None for a base).
fn judge(run: &Run, d: &Doc, class: &str, field: &str, case_seed: u64, base: Option<(&Doc, &BTreeSet<(String, String)>)>) -> Option<Judged> {
    if !in_domain(d) {
        run.observe("out-of-domain (does not deserialise)", class);
        run.inconclusive("mutant does not deserialise into the model");
        return None;
    }
    let rep: Report = o6::validate(&d.problem, &d.matrices);
    let ptxt = serde_json::to_string(&d.problem).unwrap();
    let mtxt: Vec<String> = d.matrices.iter().map(|m| serde_json::to_string(m).unwrap()).collect();
    let outcome = read_problem_texts(&ptxt, &mtxt);
    run.eval();
    let artefact = |extra: Value| {
        let small = ptxt.len() + mtxt.iter().map(|m| m.len()).sum::<usize>() < 400_000;
        json!({"case_seed": case_seed, "class": class, "field": field,
               "diff": base.map(|(b, _)| doc_diff(b, d)).unwrap_or(Value::Null),
               "o6_violated": rep.violated(), "o6_unspecified": rep.unspecified(),
               "problem": if small { d.problem.clone() } else { Value::Null }, "matrices": if small { json!(d.matrices) } else { Value::Null },
               "observed": extra})
    };
    for r in RULES {
        let k = match rep.tri(r) {
            Tri::Violated => "violating",
            Tri::Satisfied => "satisfying",
            Tri::Unspecified => "unspecified",
        };
        run.observe(&format!("rule documents {k}"), r);
    }
    let label = match &outcome {
        ReadOutcome::Ok(_) => {
            let v = rep.violated();
            for r in v.iter() {
                run.violation(
                    &format!("C10|wrong-accept|rule={r}|mut={class}"),
                    &format!("document accepted although the documented rule {r} is broken: {}", clip(&rep.why(r), 300)),
                    artefact(json!("Ok")),
                );
            }
            for r in RULES {
                if rep.tri(r) == Tri::Satisfied {
                    run.observe("rule agreements: satisfied and not reported", r);
                }
            }
            "Ok".to_string()
        }
        ReadOutcome::Err(codes, text) => {
            let set: BTreeSet<String> = codes.iter().cloned().collect();
            for code in set.iter() {
                if RULES.contains(&code.as_str()) {
                    match rep.tri(code) {
                        Tri::Satisfied => run.violation(
                            &format!("C10|wrong-reject|rule={code}|mut={class}"),
                            &format!("document rejected with {code} although the documented rule holds: {}", clip(text, 300)),
                            artefact(json!({"codes": codes, "text": clip(text, 600)})),
                        ),
                        Tri::Violated => run.observe("rule agreements: violated and reported", code),
                        Tri::Unspecified => run.observe("code reported on unspecified rule", code),
                    }
                } else if rep.violated().is_empty() {
                    let fresh_open = match base {
                        Some((_, bu)) => rep.unspecified_reasons().difference(bu).count(),
                        None => 0,
                    };
                    if fresh_open == 0 {
                        run.violation(
                            &format!("C10|wrong-reject|code={code}|mut={class}"),
                            &format!("document rejected with {code} although no documented rule is broken: {}", clip(text, 300)),
                            artefact(json!({"codes": codes, "text": clip(text, 600)})),
                        );
                    } else {
                        run.observe("other code while a rule is unspecified", &format!("{code}|{class}"));
                        run.inconclusive("undocumented code on a document with an unspecified rule");
                    }
                } else {
                    run.observe("other code alongside a broken rule", code);
                }
            }
            for r in rep.violated() {
                if set.contains(r) {
                    continue;
                }
                run.observe("broken rule not among reported codes (not a verdict)", r);
            }
            for r in RULES {
                if rep.tri(r) == Tri::Satisfied && !set.contains(*r) {
                    run.observe("rule agreements: satisfied and not reported", r);
                }
            }
            format!("Err{:?}", set.iter().collect::<Vec<_>>())
        }
        ReadOutcome::Panic(p) => {
            run.violation(
                &format!("C10|panic|field={field}|mut={class}"),
                &format!("read_pragmatic panicked on a well-formed document: {} at {}", clip(&p.message, 200), p.location),
                artefact(p.to_json()),
            );
            format!("panic@{}", p.file())
        }
    };
    Some(Judged { outcome: label })
}

fn run_case(run: &Run, cat: &[Mutation], case_idx: u64, per_base: usize) {
    let case_seed = mix(run.seed, case_idx);
    let mut rng = Rng::new(case_seed);
    let (base, tags) = gen_base(&mut rng);
    let base_rep = o6::validate(&base.problem, &base.matrices);
    if !base_rep.is_valid() {
        // generator and reference disagree: not a verdict about /repo
        run.observe("base rejected by O6", &base_rep.violated().join(","));
        run.inconclusive("base document not valid per O6");
        return;
    }
    let Some(j) = judge(run, &base, "none", "-", case_seed, None) else { return };
    run.observe("base outcome", &j.outcome);
    for tg in tags.iter() {
        run.observe("base features", tg);
    }
    if j.outcome != "Ok" {
        return;
    }
    let base_unspec = base_rep.unspecified_reasons();
    // round-robin over the catalogue so that every class is visited, random order inside a case
    let n = cat.len() as u64;
    for k in 0..per_base as u64 {
        if !run.has_time() {
            break;
        }
        let mut idx = ((case_idx * per_base as u64 + k) % n) as usize;
        let mut applied = None;
        for _try in 0..6 {
            let mut d = base.clone();
            let mut r = Rng::new(mix(case_seed, 1000 + idx as u64));
            // a mutation which is not about E1504 must not drop the last use of a location while matrices are supplied:
            // the reader then reports E1504 (known defect D7), which is probed by the E1504 classes on purpose
            let keeps_locations = |d: &Doc| cat[idx].rule == "E1504" || d.matrices.is_empty() || unique_locations(d) >= unique_locations(&base);
            if (cat[idx].apply)(&mut d, &mut r) && (d.problem != base.problem || d.matrices != base.matrices) && keeps_locations(&d) {
                applied = Some((idx, d));
                break;
            }
            run.observe("mutation not applicable", &cat[idx].class);
            idx = rng.usize_below(cat.len());
        }
        let Some((idx, d)) = applied else { continue };
        let m = &cat[idx];
        let Some(j) = judge(run, &d, &m.class, &m.field, case_seed, Some((&base, &base_unspec))) else { continue };
        run.nontrivial(&format!("{}|{}", m.class, j.outcome));
        run.observe("mutation outcomes", &format!("{} -> {}", m.class, j.outcome));
        run.observe("field classes", &m.field);
        run.observe("mutation classes judged", &m.class);
        let rep = o6::validate(&d.problem, &d.matrices);
        if !m.rule.is_empty() {
            let tri = rep.tri(m.rule);
            let k = match (m.role, tri) {
                (Role::Breaker, Tri::Violated) => "breaker: violated",
                (Role::Breaker, _) => "breaker: NOT violated per O6 (harness note)",
                (_, Tri::Satisfied) => "near-miss: satisfied",
                (_, Tri::Unspecified) => "near-miss: unspecified",
                (_, Tri::Violated) => "near-miss: violated per O6 (harness note)",
            };
            run.observe(&format!("intent {k}"), &format!("{}|{}", m.rule, m.class));
        }
        if run.wants_sample() && !m.rule.is_empty() {
            run.sample(json!({"case_seed": case_seed, "class": m.class, "field": m.field, "diff": doc_diff(&base, &d), "outcome": j.outcome, "o6_violated": rep.violated()}));
        }
    }
}

fn replay(run: &Run, path: &std::path::Path) {
    let Ok(text) = std::fs::read_to_string(path) else {
        run.inconclusive("cannot read artefact");
        return;
    };
    let Ok(doc) = serde_json::from_str::<Value>(&text) else {
        run.inconclusive("cannot parse artefact");
        return;
    };
    let a = &doc["artefact"];
    let (class, field) = (a["class"].as_str().unwrap_or("none").to_string(), a["field"].as_str().unwrap_or("-").to_string());
    if a["problem"].is_null() {
        run.inconclusive("artefact holds no literal document (too large); re-run the seed");
        return;
    }
    let d = Doc { problem: a["problem"].clone(), matrices: a["matrices"].as_array().cloned().unwrap_or_default() };
    if let Some(j) = judge(run, &d, &class, &field, a["case_seed"].as_u64().unwrap_or(0), None) {
        println!("replay: class={class} outcome={} o6_violated={:?}", j.outcome, o6::validate(&d.problem, &d.matrices).violated());
    }
}

fn main() {
    let run = Run::from_args(
        "C10",
        "exploration",
        "each case = one seeded valid document (G1 + valid enrichments; must be accepted) and single recorded mutations of it drawn round-robin \
         from a catalogue (per documented rule: breakers + near-misses, per schema field: hostile values of the right JSON type); every judged \
         document is compared with the reference validator O6 written from docs/.../errors/index.md; DISTINCT = distinct (mutation class, read outcome) \
         pairs; NON-TRIVIAL = the mutant still deserialises into the model and differs from its accepted base document",
        40,
        420,
    );
    if let Some(path) = run.replay.clone() {
        replay(&run, &path);
        run.finish();
    }
    run.assume("domain = documents which deserialise into vrp_pragmatic's model (serde errors E0000/E0001 on a type change are outside the property)");
    run.assume("boundary cases the documentation leaves open are 'unspecified' and never decide (list in refvalidate.rs header)");
    run.assume("only read_pragmatic is observed; failures which first show when the solver runs (e.g. InsertionContext assertions) are outside C10");
    run.assume("completeness of the reported code list (a broken rule missing from Err(codes)) is tabulated, not judged");
    let cat = catalogue();
    {
        let mut seen = BTreeSet::new();
        for m in cat.iter() {
            assert!(seen.insert(m.class.clone()), "harness: duplicate mutation class {}", m.class);
        }
    }
    run.note("catalogue_size", json!(cat.len()));
    let per_base = 12usize;
    let cases = run.by_tier(8_000u64, 60_000);
    par_for(16, cases, &|| !run.has_time(), &|i| run_case(&run, &cat, i, per_base));

    // floors
    run.floor("documents judged", run.evaluations(), 2000);
    run.floor("accepted base documents", run.observed("base outcome", "Ok"), 100);
    for r in RULES {
        run.floor(&format!("documents violating {r}"), run.observed("rule documents violating", r), 1);
        run.floor(&format!("documents satisfying {r}"), run.observed("rule documents satisfying", r), 1);
        run.floor(&format!("documents violating {r} and rejected with {r}"), run.observed("rule agreements: violated and reported", r), 1);
    }
    let fields: BTreeSet<String> = cat.iter().map(|m| m.field.clone()).collect();
    let mut missing = 0u64;
    for f in fields.iter() {
        if run.observed("field classes", f) == 0 {
            missing += 1;
            run.observe("field classes never judged", f);
        }
    }
    run.floor("field classes judged (all of the catalogue)", fields.len() as u64 - missing, fields.len() as u64);
    let judged = run.observed_keys("mutation classes judged").len() as u64;
    run.floor("mutation classes judged", judged, (cat.len() as u64 * 9) / 10);
    let mut per_rule: BTreeMap<&str, (u64, u64)> = BTreeMap::new();
    for m in cat.iter().filter(|m| !m.rule.is_empty()) {
        let e = per_rule.entry(m.rule).or_default();
        if m.role == Role::Breaker { e.0 += 1 } else { e.1 += 1 }
    }
    run.note("catalogue_per_rule_breakers_nearmisses", json!(per_rule.iter().map(|(r, (b, n))| (r.to_string(), json!([b, n]))).collect::<Map<String, Value>>()));
    run.finish();
}

// ---------------------------------------------------------------------------------------------
// the mutation catalogue

const BAD_TIMES: [&str; 6] = ["not-a-date", "", "2024-01-01T10:00:00", "2024-13-01T00:00:00Z", "1704067200", "2024-02-30T10:00:00Z"];

struct Cat {
    items: Vec<Mutation>,
}

impl Cat {
    fn add(&mut self, class: &str, field: &str, rule: &'static str, role: Role, apply: impl Fn(&mut Doc, &mut Rng) -> bool + Send + Sync + 'static) {
        self.items.push(Mutation { class: class.to_string(), field: field.to_string(), rule, role, apply: Box::new(apply) });
    }
}

/// Window-list defects and near-misses shared by job places, reloads and recharge stations: (name, role, builder).
fn window_variants() -> Vec<(&'static str, Role, fn(&mut Rng, i64) -> Value)> {
    fn bad(rng: &mut Rng) -> &'static str {
        BAD_TIMES[rng.usize_below(BAD_TIMES.len())]
    }
    vec![
        ("tw-reversed", Role::Breaker, |_, x| { json!([[t(x + 3600), t(x)]]) }),
        ("tw-intersecting", Role::Breaker, |_, x| { json!([[t(x), t(x + 4000)], [t(x + 3000), t(x + 7000)]]) }),
        ("tw-unparsable", Role::Breaker, |r, x| { if r.chance(0.5) { json!([[bad(r), t(x + 100)]]) } else { json!([[t(x), bad(r)]]) } }),
        ("tw-three-last-pair-intersects", Role::Breaker, |_, x| { json!([[t(x), t(x + 100)], [t(x + 200), t(x + 300)], [t(x + 250), t(x + 400)]]) }),
        ("tw-three-last-reversed", Role::Breaker, |_, x| { json!([[t(x), t(x + 100)], [t(x + 200), t(x + 300)], [t(x + 500), t(x + 400)]]) }),
        ("tw-three-last-unparsable", Role::Breaker, |r, x| { json!([[t(x), t(x + 100)], [t(x + 200), t(x + 300)], [t(x + 400), bad(r)]]) }),
        ("tw-three-first-and-last-intersect", Role::Breaker, |_, x| { json!([[t(x), t(x + 500)], [t(x + 1000), t(x + 1200)], [t(x + 400), t(x + 600)]]) }),
        ("tw-second-reversed", Role::Breaker, |_, x| { json!([[t(x), t(x + 100)], [t(x + 300), t(x + 200)]]) }),
        ("tw-one-string", Role::Breaker, |_, x| { json!([[t(x)]]) }),
        ("tw-three-strings", Role::Breaker, |_, x| { json!([[t(x), t(x + 100), t(x + 200)]]) }),
        ("tw-no-strings", Role::Breaker, |_, _| json!([[]])),
        ("tw-equal-bounds", Role::Near, |_, x| { json!([[t(x), t(x)]]) }),
        ("tw-touching", Role::Near, |_, x| { json!([[t(x), t(x + 100)], [t(x + 100), t(x + 200)]]) }),
        ("tw-empty-list", Role::Near, |_, _| json!([])),
        ("tw-three-valid", Role::Near, |_, x| { json!([[t(x), t(x + 100)], [t(x + 200), t(x + 300)], [t(x + 400), t(x + 500)]]) }),
        ("tw-valid-unsorted", Role::Near, |_, x| { json!([[t(x + 1000), t(x + 1100)], [t(x), t(x + 100)]]) }),
        ("tw-valid-zone-offset", Role::Near, |_, _| json!([["2024-01-01T01:00:00+01:00", "2024-01-01T00:30:00-01:00"]])),
        ("tw-valid-fraction", Role::Near, |_, _| json!([["2024-01-01T00:00:10.250Z", "2024-01-01T00:20:00.5Z"]])),
        ("tw-valid-far-future", Role::Near, |_, _| json!([["2024-01-01T00:00:00Z", "9999-12-31T23:59:59Z"]])),
        ("tw-valid-far-past", Role::Near, |_, _| json!([["1970-01-01T00:00:00Z", "2024-01-02T00:00:00Z"]])),
    ]
}

fn set_demand_like(d: &Doc, f: impl Fn(usize) -> i64) -> Value {
    json!((0..dims_of(d)).map(f).collect::<Vec<i64>>())
}

fn catalogue() -> Vec<Mutation> {
    let mut c = Cat { items: Vec::new() };
    use Role::*;
    let wheres = ["pickup", "delivery", "service", "replacement", "task2", "place2"];

    // ------------------------------------------------------------------ E1103 on job places
    for wh in wheres {
        for (name, role, build) in window_variants() {
            c.add(&format!("{name}@{wh}"), &format!("{}.times", place_field(wh)), "E1103", role, move |d, rng| {
                let Some(p) = pick_s(rng, place_ptrs(d, wh)) else { return false };
                let x = rng.range_i64(0, 1500);
                ptr_mut(d, &p)["times"] = build(rng, x);
                true
            });
        }
    }

    // ------------------------------------------------------------------ E1100 / E1104 job ids
    c.add("job-id-duplicate", "plan.jobs[].id", "E1100", Breaker, |d, rng| {
        let n = n_jobs(d);
        if n < 2 {
            return false;
        }
        let (a, mut b) = (rng.usize_below(n), rng.usize_below(n));
        if a == b {
            b = (a + 1) % n;
        }
        if related_jobs(d).contains(d.problem["plan"]["jobs"][b]["id"].as_str().unwrap_or("")) {
            return false;
        }
        let id = d.problem["plan"]["jobs"][a]["id"].clone();
        d.problem["plan"]["jobs"][b]["id"] = id;
        true
    });
    c.add("job-id-duplicate-last-two", "plan.jobs[].id", "E1100", Breaker, |d, _| {
        let n = n_jobs(d);
        if n < 2 || related_jobs(d).contains(d.problem["plan"]["jobs"][n - 1]["id"].as_str().unwrap_or("")) {
            return false;
        }
        let id = d.problem["plan"]["jobs"][n - 2]["id"].clone();
        d.problem["plan"]["jobs"][n - 1]["id"] = id;
        true
    });
    let rename = |class: &'static str, rule: &'static str, role: Role, new_id: fn(&Doc, &mut Rng) -> String| {
        (class, rule, role, new_id)
    };
    let renames = vec![
        rename("job-id-case-variant", "E1100", Near, |d, _| d.problem["plan"]["jobs"][0]["id"].as_str().unwrap_or("x").to_uppercase()),
        rename("job-id-equals-vehicle-id", "E1100", Near, |d, _| vehicle_ids(d).first().map(|v| v.1.clone()).unwrap_or("v".into())),
        rename("job-id-reserved-departure", "E1104", Breaker, |_, _| "departure".into()),
        rename("job-id-reserved-arrival", "E1104", Breaker, |_, _| "arrival".into()),
        rename("job-id-reserved-break", "E1104", Breaker, |_, _| "break".into()),
        rename("job-id-reserved-reload", "E1104", Breaker, |_, _| "reload".into()),
        rename("job-id-reserved-lookalike", "E1104", Near, |_, r| r.pick(&["Departure", "break1", "dispatch", "re-load", "ARRIVAL"]).to_string()),
        rename("job-id-recharge", "E1104", Near, |_, _| "recharge".into()),
        rename("job-id-empty-string", "", Field, |_, _| String::new()),
        rename("job-id-very-long", "", Field, |_, _| "x".repeat(20_000)),
        rename("job-id-unicode", "", Field, |_, _| "задание-ジョブ-\u{1F69A}\"\\\n".into()),
    ];
    for (class, rule, role, new_id) in renames {
        c.add(class, "plan.jobs[].id", rule, role, move |d, rng| {
            let used = related_jobs(d);
            let cands: Vec<usize> = (1..n_jobs(d)).filter(|j| !used.contains(d.problem["plan"]["jobs"][*j]["id"].as_str().unwrap_or(""))).collect();
            if cands.is_empty() {
                return false;
            }
            let j = *rng.pick(&cands);
            let id = new_id(d, rng);
            d.problem["plan"]["jobs"][j]["id"] = json!(id);
            true
        });
    }

    // ------------------------------------------------------------------ E1101 / E1107 demand
    for wh in ["pickup", "delivery", "replacement", "task2"] {
        c.add(&format!("demand-missing@{wh}"), "plan.jobs[].<tasks>[].demand", "E1101", Breaker, move |d, rng| {
            let cands: Vec<String> = task_ptrs(d, wh).into_iter().filter(|p| !p.contains("/services/")).collect();
            let Some(p) = pick_s(rng, cands) else { return false };
            if rng.chance(0.5) {
                obj(ptr_mut(d, &p)).remove("demand");
            } else {
                ptr_mut(d, &p)["demand"] = Value::Null;
            }
            true
        });
        c.add(&format!("demand-negative@{wh}"), "plan.jobs[].<tasks>[].demand", "E1107", Breaker, move |d, rng| {
            let cands: Vec<String> = task_ptrs(d, wh).into_iter().filter(|p| !p.contains("/services/")).collect();
            let Some(p) = pick_s(rng, cands) else { return false };
            let k = rng.usize_below(dims_of(d));
            let v = *rng.pick(&[-1i64, -7, i32::MIN as i64]);
            let mut dem = set_demand_like(d, |_| 1);
            dem[k] = json!(v);
            // keep pickup/delivery sums out of the picture: only jobs without the opposite list
            let job_ptr = p.rsplitn(3, '/').nth(2).unwrap().to_string();
            let job = ptr_mut(d, &job_ptr);
            if !list(job, "pickups").is_empty() && !list(job, "deliveries").is_empty() {
                return false;
            }
            ptr_mut(d, &p)["demand"] = dem;
            true
        });
    }
    c.add("demand-negative-last-dimension", "plan.jobs[].<tasks>[].demand", "E1107", Breaker, |d, rng| {
        let Some(p) = pick_s(rng, task_ptrs(d, "delivery")) else { return false };
        let job_ptr = p.rsplitn(3, '/').nth(2).unwrap().to_string();
        if !list(ptr_mut(d, &job_ptr), "pickups").is_empty() {
            return false;
        }
        let n = dims_of(d);
        ptr_mut(d, &p)["demand"] = set_demand_like(d, |k| if k + 1 == n { -1 } else { 2 });
        true
    });
    c.add("demand-negative-on-service", "plan.jobs[].services[].demand", "E1107", Breaker, |d, rng| {
        let Some(p) = pick_s(rng, task_ptrs(d, "service")) else { return false };
        ptr_mut(d, &p)["demand"] = set_demand_like(d, |_| -1);
        true
    });
    c.add("demand-on-service", "plan.jobs[].services[].demand", "E1101", Breaker, |d, rng| {
        let Some(p) = pick_s(rng, task_ptrs(d, "service")) else { return false };
        ptr_mut(d, &p)["demand"] = set_demand_like(d, |_| 1);
        true
    });
    c.add("demand-empty-list-on-service", "plan.jobs[].services[].demand", "E1101", Near, |d, rng| {
        let Some(p) = pick_s(rng, task_ptrs(d, "service")) else { return false };
        ptr_mut(d, &p)["demand"] = json!([]);
        true
    });
    c.add("demand-zero-on-service", "plan.jobs[].services[].demand", "E1101", Near, |d, rng| {
        let Some(p) = pick_s(rng, task_ptrs(d, "service")) else { return false };
        ptr_mut(d, &p)["demand"] = set_demand_like(d, |_| 0);
        true
    });
    let single_list_task = |d: &Doc, rng: &mut Rng, wh: &str| -> Option<String> {
        let cands: Vec<String> = task_ptrs(d, wh)
            .into_iter()
            .filter(|p| {
                let job_ptr = p.rsplitn(3, '/').nth(2).unwrap().to_string();
                let job = d.problem.pointer(&job_ptr).unwrap();
                list(job, "pickups").is_empty() || list(job, "deliveries").is_empty()
            })
            .collect();
        pick_s(rng, cands)
    };
    let demand_fields: Vec<(&'static str, &'static str, Role, fn(&Doc, &mut Rng) -> Value)> = vec![
        ("demand-zero", "E1101", Near, |d, _| set_demand_like(d, |_| 0)),
        ("demand-empty-list", "E1101", Near, |_, _| json!([])),
        ("demand-i32-max", "", Field, |d, _| set_demand_like(d, |_| i32::MAX as i64)),
        ("demand-nine-dimensions", "", Field, |_, _| json!([1, 1, 1, 1, 1, 1, 1, 1, 1])),
        ("demand-eight-dimensions", "", Field, |_, _| json!([1, 0, 0, 0, 0, 0, 0, 1])),
        ("demand-more-dimensions-than-capacity", "", Field, |d, _| json!((0..dims_of(d) + 1).map(|_| 1).collect::<Vec<i64>>())),
        ("demand-huge-dimension-count", "", Field, |_, _| json!(vec![1; 2000])),
    ];
    for (class, rule, role, val) in demand_fields {
        for wh in ["delivery", "pickup", "replacement"] {
            if wh != "delivery" && (class == "demand-huge-dimension-count" || class == "demand-eight-dimensions" || class == "demand-empty-list") {
                continue;
            }
            c.add(&format!("{class}@{wh}"), "plan.jobs[].<tasks>[].demand", rule, role, move |d, rng| {
                let Some(p) = single_list_task(d, rng, wh) else { return false };
                let v = val(d, rng);
                ptr_mut(d, &p)["demand"] = v;
                true
            });
        }
    }

    // ------------------------------------------------------------------ E1102 pickup and delivery sums
    let pd_jobs = |d: &Doc| -> Vec<usize> {
        list(&d.problem["plan"], "jobs")
            .iter()
            .enumerate()
            .filter(|(_, j)| !list(j, "pickups").is_empty() && !list(j, "deliveries").is_empty())
            .filter(|(_, j)| ["pickups", "deliveries"].iter().all(|k| list(j, k).iter().all(|t| t["demand"].is_array())))
            .map(|(i, _)| i)
            .collect()
    };
    c.add("pd-sum-mismatch-first-dimension", "plan.jobs[].deliveries[].demand", "E1102", Breaker, move |d, rng| {
        let js = pd_jobs(d);
        if js.is_empty() {
            return false;
        }
        let j = *rng.pick(&js);
        let v = &mut d.problem["plan"]["jobs"][j]["deliveries"][0]["demand"][0];
        *v = json!(v.as_i64().unwrap_or(0) + 1);
        true
    });
    c.add("pd-sum-mismatch-last-dimension", "plan.jobs[].pickups[].demand", "E1102", Breaker, move |d, rng| {
        let js = pd_jobs(d);
        if js.is_empty() {
            return false;
        }
        let j = *rng.pick(&js);
        let k = dims_of(d) - 1;
        let v = &mut d.problem["plan"]["jobs"][j]["pickups"][0]["demand"][k];
        *v = json!(v.as_i64().unwrap_or(0) + 2);
        true
    });
    c.add("pd-sum-mismatch-in-last-task", "plan.jobs[].pickups[].demand", "E1102", Breaker, move |d, rng| {
        let js: Vec<usize> = pd_jobs(d).into_iter().filter(|j| list(&d.problem["plan"]["jobs"][*j], "pickups").len() + list(&d.problem["plan"]["jobs"][*j], "deliveries").len() > 2).collect();
        if js.is_empty() {
            return false;
        }
        let j = *rng.pick(&js);
        let kind = if list(&d.problem["plan"]["jobs"][j], "pickups").len() > 1 { "pickups" } else { "deliveries" };
        let last = list(&d.problem["plan"]["jobs"][j], kind).len() - 1;
        let v = &mut d.problem["plan"]["jobs"][j][kind][last]["demand"][0];
        *v = json!(v.as_i64().unwrap_or(0) + 1);
        true
    });
    c.add("pd-sum-mismatch-delivery-zero", "plan.jobs[].deliveries[].demand", "E1102", Breaker, move |d, rng| {
        let js: Vec<usize> = pd_jobs(d);
        if js.is_empty() {
            return false;
        }
        let j = *rng.pick(&js);
        let zero = set_demand_like(d, |_| 0);
        let job = &mut d.problem["plan"]["jobs"][j];
        let total: i64 = list(job, "pickups").iter().map(|t| t["demand"][0].as_i64().unwrap_or(0)).sum();
        if total == 0 {
            return false;
        }
        for t in job["deliveries"].as_array_mut().unwrap() {
            t["demand"] = zero.clone();
        }
        true
    });
    c.add("pd-sum-kept-doubled", "plan.jobs[].pickups[].demand", "E1102", Near, move |d, rng| {
        let js = pd_jobs(d);
        if js.is_empty() {
            return false;
        }
        let j = *rng.pick(&js);
        for kind in ["pickups", "deliveries"] {
            for t in d.problem["plan"]["jobs"][j][kind].as_array_mut().unwrap() {
                for x in t["demand"].as_array_mut().unwrap() {
                    *x = json!(x.as_i64().unwrap_or(0) * 2);
                }
            }
        }
        true
    });
    c.add("pd-sum-kept-rebalanced-between-tasks", "plan.jobs[].pickups[].demand", "E1102", Near, move |d, rng| {
        let js: Vec<(usize, &str)> = pd_jobs(d)
            .into_iter()
            .filter_map(|j| ["pickups", "deliveries"].into_iter().find(|k| list(&d.problem["plan"]["jobs"][j], k).len() > 1).map(|k| (j, k)))
            .collect();
        if js.is_empty() {
            return false;
        }
        let (j, kind) = *rng.pick(&js);
        let a = d.problem["plan"]["jobs"][j][kind][0]["demand"][0].as_i64().unwrap_or(0);
        let b = d.problem["plan"]["jobs"][j][kind][1]["demand"][0].as_i64().unwrap_or(0);
        d.problem["plan"]["jobs"][j][kind][0]["demand"][0] = json!(a + b);
        d.problem["plan"]["jobs"][j][kind][1]["demand"][0] = json!(0);
        true
    });
    c.add("pd-dimension-count-differs", "plan.jobs[].deliveries[].demand", "E1102", Near, move |d, rng| {
        let js = pd_jobs(d);
        if js.is_empty() {
            return false;
        }
        let j = *rng.pick(&js);
        for t in d.problem["plan"]["jobs"][j]["deliveries"].as_array_mut().unwrap() {
            t["demand"].as_array_mut().unwrap().push(json!(0));
        }
        true
    });
    c.add("pd-sum-i32-overflow", "plan.jobs[].pickups[].demand", "E1102", Breaker, move |d, rng| {
        let js: Vec<usize> = pd_jobs(d).into_iter().filter(|j| list(&d.problem["plan"]["jobs"][*j], "pickups").len() > 1).collect();
        if js.is_empty() {
            return false;
        }
        let j = *rng.pick(&js);
        let mx = set_demand_like(d, |_| i32::MAX as i64);
        for kind in ["pickups", "deliveries"] {
            for t in d.problem["plan"]["jobs"][j][kind].as_array_mut().unwrap() {
                t["demand"] = mx.clone();
            }
        }
        // two pickups of i32::MAX against one delivery of i32::MAX
        list(&d.problem["plan"]["jobs"][j], "deliveries").len() == 1
    });
    c.add("pd-equal-i32-max", "plan.jobs[].pickups[].demand", "E1102", Near, move |d, rng| {
        let js: Vec<usize> = pd_jobs(d).into_iter().filter(|j| list(&d.problem["plan"]["jobs"][*j], "pickups").len() == 1 && list(&d.problem["plan"]["jobs"][*j], "deliveries").len() == 1).collect();
        if js.is_empty() {
            return false;
        }
        let j = *rng.pick(&js);
        let mx = set_demand_like(d, |_| i32::MAX as i64);
        d.problem["plan"]["jobs"][j]["pickups"][0]["demand"] = mx.clone();
        d.problem["plan"]["jobs"][j]["deliveries"][0]["demand"] = mx;
        true
    });

    // ------------------------------------------------------------------ E1105 empty job
    let unrelated_job = |d: &Doc, rng: &mut Rng| -> Option<usize> {
        let used = related_jobs(d);
        let cands: Vec<usize> = (0..n_jobs(d)).filter(|j| !used.contains(d.problem["plan"]["jobs"][*j]["id"].as_str().unwrap_or(""))).collect();
        if cands.is_empty() { None } else { Some(*rng.pick(&cands)) }
    };
    c.add("job-without-task-lists", "plan.jobs[].<tasks>", "E1105", Breaker, move |d, rng| {
        let Some(j) = unrelated_job(d, rng) else { return false };
        for k in TASK_KINDS {
            obj(&mut d.problem["plan"]["jobs"][j]).remove(k);
        }
        true
    });
    c.add("job-null-pickups-empty-deliveries", "plan.jobs[].<tasks>", "E1105", Breaker, move |d, rng| {
        let Some(j) = unrelated_job(d, rng) else { return false };
        for k in TASK_KINDS {
            obj(&mut d.problem["plan"]["jobs"][j]).remove(k);
        }
        d.problem["plan"]["jobs"][j]["pickups"] = Value::Null;
        d.problem["plan"]["jobs"][j]["deliveries"] = json!([]);
        true
    });
    c.add("job-all-task-lists-empty", "plan.jobs[].<tasks>", "E1105", Breaker, move |d, rng| {
        let Some(j) = unrelated_job(d, rng) else { return false };
        for k in TASK_KINDS {
            d.problem["plan"]["jobs"][j][k] = json!([]);
        }
        true
    });
    c.add("job-only-empty-services", "plan.jobs[].<tasks>", "E1105", Breaker, move |d, rng| {
        let Some(j) = unrelated_job(d, rng) else { return false };
        for k in TASK_KINDS {
            obj(&mut d.problem["plan"]["jobs"][j]).remove(k);
        }
        d.problem["plan"]["jobs"][j]["services"] = json!([]);
        true
    });
    c.add("job-extra-empty-task-list", "plan.jobs[].<tasks>", "E1105", Near, move |d, rng| {
        let Some(j) = unrelated_job(d, rng) else { return false };
        let missing: Vec<&str> = TASK_KINDS.iter().copied().filter(|k| d.problem["plan"]["jobs"][j].get(k).is_none()).collect();
        if missing.is_empty() || missing.len() == 4 {
            return false;
        }
        d.problem["plan"]["jobs"][j][*rng.pick(&missing)] = json!([]);
        true
    });

    // ------------------------------------------------------------------ E1106 durations
    for wh in wheres {
        c.add(&format!("duration-negative@{wh}"), &format!("{}.duration", place_field(wh)), "E1106", Breaker, move |d, rng| {
            let Some(p) = pick_s(rng, place_ptrs(d, wh)) else { return false };
            ptr_mut(d, &p)["duration"] = json!(*rng.pick(&[-10.0f64, -1.0, -0.5, -1e-9, -1e300]));
            true
        });
    }
    c.add("duration-zero", "plan.jobs[].<tasks>[].places[].duration", "E1106", Near, |d, rng| {
        let wh = *rng.pick(&["pickup", "delivery", "service", "replacement"]);
        let Some(p) = pick_s(rng, place_ptrs(d, wh)) else { return false };
        if ptr_mut(d, &p)["duration"].as_f64() == Some(0.) {
            return false;
        }
        ptr_mut(d, &p)["duration"] = json!(0.0);
        true
    });
    c.add("duration-1e300", "plan.jobs[].<tasks>[].places[].duration", "", Field, |d, rng| {
        let wh = *rng.pick(&["pickup", "delivery", "service", "replacement"]);
        let Some(p) = pick_s(rng, place_ptrs(d, wh)) else { return false };
        ptr_mut(d, &p)["duration"] = json!(1e300);
        true
    });

    // ------------------------------------------------------------------ other job fields
    c.add("jobs-empty-list", "plan.jobs", "", Field, |d, _| {
        // a pure field mutation: nothing else may refer to jobs, their values or orders
        let objectives = d.problem.get("objectives").map(|o| o.to_string()).unwrap_or_default();
        if d.problem["plan"].get("relations").is_some() || d.problem["plan"].get("clustering").is_some() || objectives.contains("maximize-value") || objectives.contains("tour-order") {
            return false;
        }
        d.problem["plan"]["jobs"] = json!([]);
        true
    });
    c.add("jobs-huge-list", "plan.jobs", "", Field, |d, _| {
        let proto = d.problem["plan"]["jobs"][0].clone();
        let jobs = d.problem["plan"]["jobs"].as_array_mut().unwrap();
        for i in 0..250 {
            let mut j = proto.clone();
            j["id"] = json!(format!("bulk{i}"));
            obj(&mut j).remove("group");
            jobs.push(j);
        }
        true
    });
    for wh in ["pickup", "delivery", "service", "replacement", "task2"] {
        c.add(&format!("places-empty@{wh}"), "plan.jobs[].<tasks>[].places", "", Field, move |d, rng| {
            let Some(p) = pick_s(rng, task_ptrs(d, wh)) else { return false };
            ptr_mut(d, &p)["places"] = json!([]);
            true
        });
    }
    c.add("places-huge-list", "plan.jobs[].<tasks>[].places", "", Field, |d, rng| {
        let Some(p) = pick_s(rng, task_ptrs(d, "delivery")) else { return false };
        let job_ptr = p.rsplitn(3, '/').nth(2).unwrap().to_string();
        if related_jobs(d).contains(ptr_mut(d, &job_ptr)["id"].as_str().unwrap_or("")) {
            return false;
        }
        let proto = ptr_mut(d, &p)["places"][0].clone();
        let places = ptr_mut(d, &p)["places"].as_array_mut().unwrap();
        for i in 0..60 {
            let mut x = proto.clone();
            x["tag"] = json!(format!("bulk{i}"));
            places.push(x);
        }
        true
    });
    c.add("times-huge-list", "plan.jobs[].<tasks>[].places[].times", "", Field, |d, rng| {
        let Some(p) = pick_s(rng, place_ptrs(d, "delivery")) else { return false };
        let job_ptr = p.rsplitn(5, '/').nth(4).unwrap().to_string();
        if related_jobs(d).contains(ptr_mut(d, &job_ptr)["id"].as_str().unwrap_or("")) {
            return false;
        }
        ptr_mut(d, &p)["times"] = json!((0..300).map(|i| json!([t(i * 20), t(i * 20 + 10)])).collect::<Vec<_>>());
        true
    });
    let order_vals: Vec<(&'static str, &'static str, Role, i64)> = vec![
        ("order-negative", "E1605", Breaker, -1),
        ("order-i32-min", "E1605", Breaker, i32::MIN as i64),
        ("order-zero", "E1605", Near, 0),
        ("order-one", "E1605", Near, 1),
        ("order-two", "E1605", Near, 2),
        ("order-i32-max", "", Field, i32::MAX as i64),
    ];
    for (class, rule, role, val) in order_vals {
        c.add(class, "plan.jobs[].<tasks>[].order", rule, role, move |d, rng| {
            let wh = *rng.pick(&["pickup", "delivery", "service", "replacement", "task2"]);
            let Some(p) = pick_s(rng, task_ptrs(d, wh)) else { return false };
            // negative orders are decided only under an `objectives` property (the *-with-default-objectives classes cover the rest)
            if ptr_mut(d, &p)["order"].as_i64() == Some(val) || (val < 0 && d.problem.get("objectives").is_none()) {
                return false;
            }
            ptr_mut(d, &p)["order"] = json!(val);
            true
        });
    }
    let value_vals: Vec<(&'static str, &'static str, Role, f64)> = vec![
        ("value-negative", "E1605", Breaker, -1.0),
        ("value-negative-huge", "E1605", Breaker, -1e300),
        ("value-zero", "E1605", Near, 0.0),
        ("value-fraction", "E1605", Near, 0.5),
        ("value-tiny", "E1605", Near, 1e-300),
        ("value-one", "E1605", Near, 1.0),
        ("value-1e300", "", Field, 1e300),
    ];
    for (class, rule, role, val) in value_vals {
        // on documents whose objectives (if any) already include maximize-value, so that E1607 stays out of the picture
        c.add(class, "plan.jobs[].value", rule, role, move |d, rng| {
            let cands: Vec<usize> = (0..n_jobs(d)).filter(|j| d.problem["plan"]["jobs"][*j].get("value").is_some()).collect();
            if cands.is_empty() {
                return false;
            }
            let j = *rng.pick(&cands);
            if d.problem["plan"]["jobs"][j]["value"].as_f64() == Some(val) {
                return false;
            }
            d.problem["plan"]["jobs"][j]["value"] = json!(val);
            true
        });
    }
    c.add("value-negative-with-default-objectives", "plan.jobs[].value", "E1605", Near, |d, rng| {
        if d.problem.get("objectives").is_some() {
            return false;
        }
        let j = rng.usize_below(n_jobs(d));
        d.problem["plan"]["jobs"][j]["value"] = json!(-3.0);
        true
    });
    c.add("order-negative-with-default-objectives", "plan.jobs[].<tasks>[].order", "E1605", Near, |d, rng| {
        if d.problem.get("objectives").is_some() {
            return false;
        }
        let Some(p) = pick_s(rng, task_ptrs(d, "delivery")) else { return false };
        ptr_mut(d, &p)["order"] = json!(-2);
        true
    });
    let skills: Vec<(&'static str, fn() -> Value)> = vec![
        ("job-skills-empty-lists", || json!({"allOf": [], "oneOf": [], "noneOf": []})),
        ("job-skills-empty-object", || json!({})),
        ("job-skills-contradictory", || json!({"allOf": ["s1"], "noneOf": ["s1"], "oneOf": ["s1"]})),
        ("job-skills-huge-list", || json!({"allOf": (0..3000).map(|i| format!("k{i}")).collect::<Vec<_>>()})),
        ("job-skills-duplicates-and-empty-string", || json!({"oneOf": ["", "", "s1", "s1"]})),
    ];
    for (class, val) in skills {
        c.add(class, "plan.jobs[].skills", "", Field, move |d, rng| {
            let j = rng.usize_below(n_jobs(d));
            d.problem["plan"]["jobs"][j]["skills"] = val();
            true
        });
    }
    c.add("job-group-empty-string", "plan.jobs[].group", "", Field, |d, rng| {
        let j = rng.usize_below(n_jobs(d));
        d.problem["plan"]["jobs"][j]["group"] = json!("");
        true
    });
    c.add("job-group-shared-by-all", "plan.jobs[].group", "", Field, |d, _| {
        for j in d.problem["plan"]["jobs"].as_array_mut().unwrap() {
            j["group"] = json!("everyone");
        }
        true
    });
    c.add("job-compatibility-empty-string", "plan.jobs[].compatibility", "", Field, |d, rng| {
        let j = rng.usize_below(n_jobs(d));
        d.problem["plan"]["jobs"][j]["compatibility"] = json!("");
        true
    });
    c.add("place-tag-empty-string", "plan.jobs[].<tasks>[].places[].tag", "", Field, |d, rng| {
        let wh = *rng.pick(&["pickup", "delivery", "service"]);
        let Some(p) = pick_s(rng, place_ptrs(d, wh)) else { return false };
        ptr_mut(d, &p)["tag"] = json!("");
        true
    });
    c.add("place-tags-all-equal", "plan.jobs[].<tasks>[].places[].tag", "", Field, |d, _| {
        let all: Vec<String> = ["pickup", "delivery", "service", "replacement", "task2", "place2"].iter().flat_map(|w| place_ptrs(d, w)).collect();
        for p in all {
            ptr_mut(d, &p)["tag"] = json!("same");
        }
        true
    });

    catalogue_relations(&mut c);
    catalogue_fleet(&mut c);
    catalogue_routing(&mut c);
    catalogue_objectives(&mut c);
    catalogue_clustering(&mut c);
    c.items
}

// ------------------------------------------------------------------ relations (each mutation appends relations)
fn pick_vehicle(d: &Doc, rng: &mut Rng) -> Option<(usize, String)> {
    let v = vehicle_ids(d);
    if v.is_empty() { None } else { Some(v[rng.usize_below(v.len())].clone()) }
}

fn rel_type(rng: &mut Rng) -> &'static str {
    *rng.pick(&["any", "sequence", "strict"])
}

fn catalogue_relations(c: &mut Cat) {
    use Role::*;
    const F: &str = "plan.relations[]";
    for ty in ["any", "sequence", "strict"] {
        c.add(&format!("relation-valid-{ty}"), F, "E1200", Near, move |d, rng| {
            let (Some((_, vid)), mut js) = (pick_vehicle(d, rng), free_jobs(d, JobShape::Simple)) else { return false };
            rng.shuffle(&mut js);
            js.truncate(rng.range_usize(1, 2));
            if js.is_empty() {
                return false;
            }
            add_relation(d, json!({"type": ty, "jobs": js, "vehicleId": vid}));
            true
        });
    }
    c.add("relation-unknown-job", "plan.relations[].jobs", "E1200", Breaker, |d, rng| {
        let (Some((_, vid)), Some(j)) = (pick_vehicle(d, rng), pick_s(rng, free_jobs(d, JobShape::Simple))) else { return false };
        let jobs = if rng.chance(0.5) { json!([j, "no_such_job"]) } else { json!(["no_such_job", j]) };
        add_relation(d, json!({"type": rel_type(rng), "jobs": jobs, "vehicleId": vid}));
        true
    });
    c.add("relation-only-unknown-job", "plan.relations[].jobs", "E1200", Breaker, |d, rng| {
        let Some((_, vid)) = pick_vehicle(d, rng) else { return false };
        add_relation(d, json!({"type": rel_type(rng), "jobs": ["no_such_job"], "vehicleId": vid}));
        true
    });
    c.add("relation-unknown-job-in-second-relation", "plan.relations[].jobs", "E1200", Breaker, |d, rng| {
        let (Some((_, vid)), mut js) = (pick_vehicle(d, rng), free_jobs(d, JobShape::Simple)) else { return false };
        if js.len() < 2 {
            return false;
        }
        rng.shuffle(&mut js);
        add_relation(d, json!({"type": "any", "jobs": [js[0]], "vehicleId": vid}));
        add_relation(d, json!({"type": "any", "jobs": [js[1], "ghost"], "vehicleId": vid}));
        true
    });
    c.add("relation-job-id-case-variant", "plan.relations[].jobs", "E1200", Breaker, |d, rng| {
        let (Some((_, vid)), Some(j)) = (pick_vehicle(d, rng), pick_s(rng, free_jobs(d, JobShape::Simple))) else { return false };
        let up = j.to_uppercase();
        if up == j || list(&d.problem["plan"], "jobs").iter().any(|x| x["id"].as_str() == Some(&up)) {
            return false;
        }
        add_relation(d, json!({"type": "any", "jobs": [up], "vehicleId": vid}));
        true
    });
    c.add("relation-unknown-vehicle", "plan.relations[].vehicleId", "E1201", Breaker, |d, rng| {
        let Some(j) = pick_s(rng, free_jobs(d, JobShape::Simple)) else { return false };
        add_relation(d, json!({"type": rel_type(rng), "jobs": [j], "vehicleId": *rng.pick(&["no_such_vehicle", ""])}));
        true
    });
    c.add("relation-vehicle-is-type-id", "plan.relations[].vehicleId", "E1201", Breaker, |d, rng| {
        let Some(j) = pick_s(rng, free_jobs(d, JobShape::Simple)) else { return false };
        let ty = d.problem["fleet"]["vehicles"][0]["typeId"].as_str().unwrap_or("").to_string();
        if vehicle_ids(d).iter().any(|v| v.1 == ty) {
            return false;
        }
        add_relation(d, json!({"type": "any", "jobs": [j], "vehicleId": ty}));
        true
    });
    c.add("relation-empty-jobs", "plan.relations[].jobs", "E1202", Breaker, |d, rng| {
        let Some((_, vid)) = pick_vehicle(d, rng) else { return false };
        add_relation(d, json!({"type": rel_type(rng), "jobs": [], "vehicleId": vid}));
        true
    });
    c.add("relation-only-reserved-ids", "plan.relations[].jobs", "E1202", Near, |d, rng| {
        let Some((_, vid)) = pick_vehicle(d, rng) else { return false };
        add_relation(d, json!({"type": rel_type(rng), "jobs": ["departure"], "vehicleId": vid}));
        true
    });
    c.add("relation-single-job", "plan.relations[].jobs", "E1202", Near, |d, rng| {
        let (Some((_, vid)), Some(j)) = (pick_vehicle(d, rng), pick_s(rng, free_jobs(d, JobShape::Simple))) else { return false };
        add_relation(d, json!({"type": "strict", "jobs": ["departure", j], "vehicleId": vid}));
        true
    });
    // E1203
    for (class, ty, shape, second, role) in [
        ("relation-strict-multi-place-job", "strict", JobShape::MultiPlace, false, Breaker),
        ("relation-sequence-multi-place-job", "sequence", JobShape::MultiPlace, false, Breaker),
        ("relation-strict-multi-window-job", "strict", JobShape::MultiWindow, false, Breaker),
        ("relation-sequence-multi-window-job", "sequence", JobShape::MultiWindow, false, Breaker),
        ("relation-strict-multi-place-job-listed-last", "strict", JobShape::MultiPlace, true, Breaker),
        ("relation-sequence-multi-window-job-listed-last", "sequence", JobShape::MultiWindow, true, Breaker),
        ("relation-any-multi-place-job", "any", JobShape::MultiPlace, false, Near),
        ("relation-any-multi-window-job", "any", JobShape::MultiWindow, false, Near),
    ] {
        c.add(class, "plan.relations[].jobs", "E1203", role, move |d, rng| {
            let (Some((_, vid)), cands) = (pick_vehicle(d, rng), free_jobs(d, shape)) else { return false };
            // single-task jobs only, so that E1207 stays out of the picture
            let cands: Vec<String> = cands.into_iter().filter(|id| task_count(d, id) == 1).collect();
            let Some(j) = pick_s(rng, cands) else { return false };
            let mut ids = vec![];
            if second {
                let Some(s) = pick_s(rng, free_jobs(d, JobShape::Simple)) else { return false };
                ids.push(s);
            }
            ids.push(j);
            add_relation(d, json!({"type": ty, "jobs": ids, "vehicleId": vid}));
            true
        });
    }
    c.add("relation-multi-place-job-in-second-relation", "plan.relations[].jobs", "E1203", Breaker, |d, rng| {
        let (Some((_, vid)), Some(s)) = (pick_vehicle(d, rng), pick_s(rng, free_jobs(d, JobShape::Simple))) else { return false };
        let cands: Vec<String> = free_jobs(d, JobShape::MultiPlace).into_iter().filter(|id| task_count(d, id) == 1).collect();
        let Some(j) = pick_s(rng, cands) else { return false };
        add_relation(d, json!({"type": "strict", "jobs": [s], "vehicleId": vid}));
        add_relation(d, json!({"type": "strict", "jobs": [j], "vehicleId": vid}));
        true
    });
    // E1204
    c.add("relation-job-assigned-to-two-vehicles", "plan.relations[].vehicleId", "E1204", Breaker, |d, rng| {
        let vs = vehicle_ids(d);
        let Some(j) = pick_s(rng, free_jobs(d, JobShape::Simple)) else { return false };
        if vs.len() < 2 {
            return false;
        }
        let a = rng.usize_below(vs.len());
        let b = (a + 1 + rng.usize_below(vs.len() - 1)) % vs.len();
        add_relation(d, json!({"type": "any", "jobs": [j], "vehicleId": vs[a].1}));
        add_relation(d, json!({"type": rel_type(rng), "jobs": [j], "vehicleId": vs[b].1}));
        true
    });
    c.add("relation-second-job-assigned-to-two-vehicles", "plan.relations[].vehicleId", "E1204", Breaker, |d, rng| {
        let vs = vehicle_ids(d);
        let mut js = free_jobs(d, JobShape::Simple);
        if vs.len() < 2 || js.len() < 3 {
            return false;
        }
        rng.shuffle(&mut js);
        add_relation(d, json!({"type": "any", "jobs": [js[0], js[1]], "vehicleId": vs[0].1}));
        add_relation(d, json!({"type": "any", "jobs": [js[2], js[1]], "vehicleId": vs[1].1}));
        true
    });
    c.add("relation-departure-with-two-vehicles", "plan.relations[].vehicleId", "E1204", Near, |d, rng| {
        let vs = vehicle_ids(d);
        let mut js = free_jobs(d, JobShape::Simple);
        if vs.len() < 2 || js.len() < 2 {
            return false;
        }
        rng.shuffle(&mut js);
        add_relation(d, json!({"type": "strict", "jobs": ["departure", js[0]], "vehicleId": vs[0].1}));
        add_relation(d, json!({"type": "strict", "jobs": ["departure", js[1]], "vehicleId": vs[1].1}));
        true
    });
    c.add("relation-job-twice-same-vehicle", "plan.relations[].vehicleId", "E1204", Near, |d, rng| {
        let (Some((_, vid)), Some(j)) = (pick_vehicle(d, rng), pick_s(rng, free_jobs(d, JobShape::Simple))) else { return false };
        add_relation(d, json!({"type": "any", "jobs": [j], "vehicleId": vid}));
        add_relation(d, json!({"type": "any", "jobs": [j], "vehicleId": vid}));
        true
    });
    // E1205
    for (class, role, pick) in [
        ("relation-shift-index-one-past-last", Breaker, 0u8),
        ("relation-shift-index-huge", Breaker, 1),
        ("relation-shift-index-u64-max", Breaker, 2),
        ("relation-shift-index-last-valid", Near, 3),
        ("relation-shift-index-explicit-zero", Near, 4),
    ] {
        c.add(class, "plan.relations[].shiftIndex", "E1205", role, move |d, rng| {
            let (Some((v, vid)), Some(j)) = (pick_vehicle(d, rng), pick_s(rng, free_jobs(d, JobShape::Simple))) else { return false };
            let n = list(&d.problem["fleet"]["vehicles"][v], "shifts").len() as u64;
            let idx = match pick {
                0 => n,
                1 => 1000,
                2 => u64::MAX,
                3 => n - 1,
                _ => 0,
            };
            add_relation(d, json!({"type": "any", "jobs": [j], "vehicleId": vid, "shiftIndex": idx}));
            true
        });
    }
    // E1206
    for (reserved, prop) in [("break", "breaks"), ("reload", "reloads"), ("arrival", "end")] {
        for defined in [false, true] {
            let class = format!("relation-{reserved}-{}", if defined { "defined" } else { "not-defined-on-shift" });
            c.add(&class, "plan.relations[].jobs", "E1206", if defined { Near } else { Breaker }, move |d, rng| {
                let Some(j) = pick_s(rng, free_jobs(d, JobShape::Simple)) else { return false };
                let mut cands = vec![];
                for (v, vid) in vehicle_ids(d) {
                    for (si, sh) in list(&d.problem["fleet"]["vehicles"][v], "shifts").iter().enumerate() {
                        let mut has = sh.get(prop).is_some_and(|x| !x.is_null() && x.as_array().is_none_or(|a| !a.is_empty()));
                        if prop == "breaks" && defined && !list(sh, "breaks").iter().all(|b| b.get("places").is_some()) {
                            has = false; // shifts with required breaks: own class below
                        }
                        if has == defined && sh.get(prop).is_none_or(|x| !x.is_array() || !x.as_array().unwrap().is_empty()) {
                            cands.push((vid.clone(), si));
                        }
                    }
                }
                if cands.is_empty() {
                    return false;
                }
                let (vid, si) = cands[rng.usize_below(cands.len())].clone();
                let ty = if reserved == "arrival" { "strict" } else { rel_type(rng) };
                let mut rel = json!({"type": ty, "jobs": [j, reserved], "vehicleId": vid});
                if si > 0 || rng.chance(0.3) {
                    rel["shiftIndex"] = json!(si);
                }
                add_relation(d, rel);
                true
            });
        }
    }
    c.add("relation-break-defined-on-other-shift-only", "plan.relations[].jobs", "E1206", Breaker, |d, rng| {
        let Some(j) = pick_s(rng, free_jobs(d, JobShape::Simple)) else { return false };
        for (v, vid) in vehicle_ids(d) {
            let shifts = list(&d.problem["fleet"]["vehicles"][v], "shifts");
            if shifts.len() < 2 {
                continue;
            }
            let has: Vec<bool> = shifts.iter().map(|s| s.get("breaks").is_some()).collect();
            if let (Some(without), true) = (has.iter().position(|h| !h), has.iter().any(|h| *h)) {
                add_relation(d, json!({"type": "any", "jobs": [j, "break"], "vehicleId": vid, "shiftIndex": without}));
                return true;
            }
        }
        false
    });
    c.add("relation-break-on-shift-with-required-breaks-only", "plan.relations[].jobs", "E1206", Near, |d, rng| {
        let Some(j) = pick_s(rng, free_jobs(d, JobShape::Simple)) else { return false };
        for (v, vid) in vehicle_ids(d) {
            for (si, sh) in list(&d.problem["fleet"]["vehicles"][v], "shifts").iter().enumerate() {
                let b = list(sh, "breaks");
                if !b.is_empty() && b.iter().all(|x| x.get("places").is_none()) {
                    add_relation(d, json!({"type": "any", "jobs": [j, "break"], "vehicleId": vid, "shiftIndex": si}));
                    return true;
                }
            }
        }
        false
    });
    for (reserved, prop) in [("break", "breaks"), ("reload", "reloads")] {
        c.add(&format!("relation-{reserved}-mentioned-more-often-than-defined"), "plan.relations[].jobs", "E1206", Near, move |d, rng| {
            let Some(j) = pick_s(rng, free_jobs(d, JobShape::Simple)) else { return false };
            for (v, vid) in vehicle_ids(d) {
                for (si, sh) in list(&d.problem["fleet"]["vehicles"][v], "shifts").iter().enumerate() {
                    let n = list(sh, prop).len();
                    if n > 0 && list(sh, prop).iter().all(|x| prop != "breaks" || x.get("places").is_some()) {
                        let mut ids = vec![j];
                        ids.extend((0..n + 1).map(|_| reserved.to_string()));
                        add_relation(d, json!({"type": "any", "jobs": ids, "vehicleId": vid, "shiftIndex": si}));
                        return true;
                    }
                }
            }
            false
        });
    }
    c.add("relation-recharge-id", "plan.relations[].jobs", "E1206", Near, |d, rng| {
        let (Some((_, vid)), Some(j)) = (pick_vehicle(d, rng), pick_s(rng, free_jobs(d, JobShape::Simple))) else { return false };
        add_relation(d, json!({"type": "any", "jobs": [j, "recharge"], "vehicleId": vid}));
        true
    });
    // E1207
    for (class, role, how) in [
        ("relation-multi-task-job-mentioned-once", Breaker, 0u8),
        ("relation-multi-task-job-one-mention-short", Breaker, 1),
        ("relation-multi-task-job-complete", Near, 2),
        ("relation-multi-task-job-mentioned-too-often", Near, 3),
        ("relation-strict-multi-task-job-complete", Near, 4),
    ] {
        c.add(class, "plan.relations[].jobs", "E1207", role, move |d, rng| {
            let (Some((_, vid)), Some(j)) = (pick_vehicle(d, rng), pick_s(rng, free_jobs(d, JobShape::MultiTask))) else { return false };
            let n = task_count(d, &j);
            let k = match how {
                0 => 1,
                1 => n - 1,
                2 | 4 => n,
                _ => n + 1,
            };
            if how == 1 && n < 3 {
                return false;
            }
            let ty = if how == 4 { "strict" } else { "any" };
            add_relation(d, json!({"type": ty, "jobs": vec![j; k], "vehicleId": vid}));
            true
        });
    }
    c.add("relation-jobs-huge-list", "plan.relations[].jobs", "", Field, |d, rng| {
        let (Some((_, vid)), Some(j)) = (pick_vehicle(d, rng), pick_s(rng, free_jobs(d, JobShape::Simple))) else { return false };
        add_relation(d, json!({"type": "any", "jobs": vec![j; 300], "vehicleId": vid}));
        true
    });
    c.add("relations-empty-list", "plan.relations", "", Field, |d, _| {
        if d.problem["plan"].get("relations").is_some() {
            return false;
        }
        d.problem["plan"]["relations"] = json!([]);
        true
    });
}

// ------------------------------------------------------------------ fleet
fn bad_time(rng: &mut Rng) -> &'static str {
    BAD_TIMES[rng.usize_below(BAD_TIMES.len())]
}

/// Picks a shift with parsable times; returns (pointer, start, end) – `closed` asks for a shift with an end.
fn pick_shift(d: &Doc, rng: &mut Rng, closed: bool, which: &dyn Fn(usize, usize) -> bool) -> Option<(String, i64, Option<i64>)> {
    let ptrs = shift_ptrs(d, &|v, s, _, sh| which(v, s) && shift_times(sh).is_some_and(|(_, e)| !closed || e.is_some()));
    let p = pick_s(rng, ptrs)?;
    let (st, en) = shift_times(d.problem.pointer(&p).unwrap())?;
    Some((p, st, en))
}

fn catalogue_fleet(c: &mut Cat) {
    use Role::*;
    // E1300 / E1301
    c.add("type-id-duplicate", "fleet.vehicles[].typeId", "E1300", Breaker, |d, rng| {
        let vs = d.problem["fleet"]["vehicles"].as_array_mut().unwrap();
        if vs.len() >= 2 && rng.chance(0.6) {
            let id = vs[0]["typeId"].clone();
            let last = vs.len() - 1;
            vs[last]["typeId"] = id;
        } else {
            let mut copy = vs[0].clone();
            copy["vehicleIds"] = json!(["c10_copy_1"]);
            vs.push(copy);
        }
        true
    });
    c.add("type-id-case-variant", "fleet.vehicles[].typeId", "E1300", Near, |d, _| {
        let vs = d.problem["fleet"]["vehicles"].as_array_mut().unwrap();
        let mut copy = vs[0].clone();
        copy["typeId"] = json!(copy["typeId"].as_str().unwrap_or("").to_uppercase());
        copy["vehicleIds"] = json!(["c10_copy_1"]);
        vs.push(copy);
        true
    });
    c.add("type-id-empty-string", "fleet.vehicles[].typeId", "", Field, |d, _| {
        d.problem["fleet"]["vehicles"][0]["typeId"] = json!("");
        true
    });
    c.add("vehicle-id-duplicate-within-type", "fleet.vehicles[].vehicleIds", "E1301", Breaker, |d, rng| {
        let n = list(&d.problem["fleet"], "vehicles").len();
        let v = rng.usize_below(n);
        let ids = d.problem["fleet"]["vehicles"][v]["vehicleIds"].as_array_mut().unwrap();
        if ids.is_empty() {
            return false;
        }
        let id = ids[rng.usize_below(ids.len())].clone();
        ids.push(id);
        true
    });
    c.add("vehicle-id-duplicate-across-types", "fleet.vehicles[].vehicleIds", "E1301", Breaker, |d, _| {
        let vs = d.problem["fleet"]["vehicles"].as_array_mut().unwrap();
        let id = vs[0]["vehicleIds"][0].clone();
        if vs.len() >= 2 {
            let last = vs.len() - 1;
            vs[last]["vehicleIds"].as_array_mut().unwrap().push(id);
        } else {
            let mut copy = vs[0].clone();
            copy["typeId"] = json!("c10_type_copy");
            copy["vehicleIds"] = json!(["c10_other", id]);
            vs.push(copy);
        }
        true
    });
    c.add("vehicle-id-equals-type-id", "fleet.vehicles[].vehicleIds", "E1301", Near, |d, _| {
        let ty = d.problem["fleet"]["vehicles"][0]["typeId"].clone();
        if vehicle_ids(d).iter().any(|v| Some(v.1.as_str()) == ty.as_str()) {
            return false;
        }
        d.problem["fleet"]["vehicles"][0]["vehicleIds"].as_array_mut().unwrap().push(ty);
        true
    });
    c.add("vehicle-ids-empty-list", "fleet.vehicles[].vehicleIds", "", Field, |d, rng| {
        let n = list(&d.problem["fleet"], "vehicles").len();
        let v = rng.usize_below(n);
        let mine: Vec<String> = vehicle_ids(d).into_iter().filter(|x| x.0 == v).map(|x| x.1).collect();
        if list(&d.problem["plan"], "relations").iter().any(|r| mine.iter().any(|m| r["vehicleId"].as_str() == Some(m))) {
            return false;
        }
        d.problem["fleet"]["vehicles"][v]["vehicleIds"] = json!([]);
        true
    });
    c.add("vehicle-id-empty-string", "fleet.vehicles[].vehicleIds", "", Field, |d, _| {
        d.problem["fleet"]["vehicles"][0]["vehicleIds"].as_array_mut().unwrap().push(json!(""));
        true
    });
    c.add("vehicle-ids-huge-list", "fleet.vehicles[].vehicleIds", "", Field, |d, _| {
        let ids = d.problem["fleet"]["vehicles"][0]["vehicleIds"].as_array_mut().unwrap();
        for i in 0..300 {
            ids.push(json!(format!("bulk_v{i}")));
        }
        true
    });
    c.add("vehicles-empty-list", "fleet.vehicles", "", Field, |d, _| {
        if d.problem["plan"].get("relations").is_some() {
            return false;
        }
        d.problem["fleet"]["vehicles"] = json!([]);
        true
    });
    c.add("vehicles-huge-list", "fleet.vehicles", "", Field, |d, _| {
        let vs = d.problem["fleet"]["vehicles"].as_array_mut().unwrap();
        let proto = vs[0].clone();
        for i in 0..120 {
            let mut x = proto.clone();
            x["typeId"] = json!(format!("bulk_t{i}"));
            x["vehicleIds"] = json!([format!("bulk_t{i}_0")]);
            vs.push(x);
        }
        true
    });
    c.add("shifts-empty-list", "fleet.vehicles[].shifts", "", Field, |d, rng| {
        let n = list(&d.problem["fleet"], "vehicles").len();
        let v = rng.usize_below(n);
        let mine: Vec<String> = vehicle_ids(d).into_iter().filter(|x| x.0 == v).map(|x| x.1).collect();
        if list(&d.problem["plan"], "relations").iter().any(|r| mine.iter().any(|m| r["vehicleId"].as_str() == Some(m))) {
            return false;
        }
        d.problem["fleet"]["vehicles"][v]["shifts"] = json!([]);
        true
    });

    // E1302 and the undocumented shift time fields
    type Which = fn(usize, usize) -> bool;
    let anyw: Which = |_, _| true;
    let second_shift: Which = |_, s| s >= 1;
    let second_type: Which = |v, _| v >= 1;
    for (suffix, which) in [("", anyw), ("@second-shift", second_shift), ("@second-type", second_type)] {
        c.add(&format!("shift-start-earliest-unparsable{suffix}"), "fleet.vehicles[].shifts[].start.earliest", "E1302", Breaker, move |d, rng| {
            let Some((p, _, _)) = pick_shift(d, rng, false, &which) else { return false };
            // keep offset breaks out of the picture (E1307 compares earliest with latest)
            if ptr_mut(d, &p)["start"].get("latest").is_some() {
                return false;
            }
            ptr_mut(d, &p)["start"]["earliest"] = json!(bad_time(rng));
            true
        });
        c.add(&format!("shift-end-latest-unparsable{suffix}"), "fleet.vehicles[].shifts[].end.latest", "E1302", Breaker, move |d, rng| {
            let Some((p, _, _)) = pick_shift(d, rng, true, &which) else { return false };
            ptr_mut(d, &p)["end"]["latest"] = json!(bad_time(rng));
            true
        });
        c.add(&format!("shift-end-before-start{suffix}"), "fleet.vehicles[].shifts[].end.latest", "E1302", Breaker, move |d, rng| {
            let Some((p, st, _)) = pick_shift(d, rng, true, &which) else { return false };
            ptr_mut(d, &p)["end"]["latest"] = json!(t(st - *rng.pick(&[1i64, 3600, 86_400 * 400])));
            true
        });
    }
    // E1302 quantifies over the whole shift list of a type ("time windows rules defined for jobs in E1103": the windows must not
    // intersect), in any order of listing: three shifts of which the first and the last intersect, with a disjoint one in between
    for (name, role, offsets) in [
        ("shifts-three-first-and-last-intersect", Breaker, [(0i64, 1000i64), (2000, 3000), (500, 1500)]),
        ("shifts-three-identical-first-and-last", Breaker, [(2000, 3000), (0, 1000), (2000, 3000)]),
        ("shifts-three-disjoint-listed-out-of-order", Near, [(4000, 5000), (0, 1000), (2000, 3000)]),
    ] {
        c.add(name, "fleet.vehicles[].shifts", "E1302", role, move |d, rng| {
            let n = list(&d.problem["fleet"], "vehicles").len();
            let v = rng.usize_below(n);
            let mine: Vec<String> = vehicle_ids(d).into_iter().filter(|x| x.0 == v).map(|x| x.1).collect();
            // relations pin jobs to a shift of the vehicle: leave such types alone
            if list(&d.problem["plan"], "relations").iter().any(|r| mine.iter().any(|m| r["vehicleId"].as_str() == Some(m))) {
                return false;
            }
            let Some(first) = list(&d.problem["fleet"]["vehicles"][v], "shifts").first().cloned() else { return false };
            let Some((st, Some(_))) = shift_times(&first) else { return false };
            let mut shifts = Vec::new();
            for (a, b) in offsets {
                let mut sh = first.clone();
                let o = obj(&mut sh);
                // breaks / reloads / recharges carry absolute times of the original shift
                o.remove("breaks");
                o.remove("reloads");
                o.remove("recharges");
                sh["start"]["earliest"] = json!(t(st + a));
                obj(&mut sh["start"]).remove("latest");
                sh["end"]["latest"] = json!(t(st + b));
                obj(&mut sh["end"]).remove("earliest");
                shifts.push(sh);
            }
            d.problem["fleet"]["vehicles"][v]["shifts"] = Value::Array(shifts);
            true
        });
    }
    c.add("shift-end-equals-start", "fleet.vehicles[].shifts[].end.latest", "E1302", Near, |d, rng| {
        let Some((p, st, _)) = pick_shift(d, rng, true, &|_, _| true) else { return false };
        ptr_mut(d, &p)["end"]["latest"] = json!(t(st));
        true
    });
    c.add("shift-times-zone-offset-spelling", "fleet.vehicles[].shifts[].start.earliest", "E1302", Near, |d, rng| {
        let Some((p, st, _)) = pick_shift(d, rng, false, &|_, _| true) else { return false };
        if ptr_mut(d, &p)["start"].get("latest").is_some() {
            return false;
        }
        let s = fmt_time(T0 + st + 3600).replace('Z', "+01:00");
        ptr_mut(d, &p)["start"]["earliest"] = json!(s);
        true
    });
    c.add("shift-far-future-end", "fleet.vehicles[].shifts[].end.latest", "E1302", Near, |d, rng| {
        let Some((p, _, _)) = pick_shift(d, rng, true, &|v, _| v == 0) else { return false };
        if list(&d.problem["fleet"]["vehicles"][0], "shifts").len() > 1 {
            return false;
        }
        ptr_mut(d, &p)["end"]["latest"] = json!("9999-12-31T23:59:59Z");
        true
    });
    c.add("start-latest-unparsable", "fleet.vehicles[].shifts[].start.latest", "", Field, |d, rng| {
        let Some((p, _, _)) = pick_shift(d, rng, false, &|_, _| true) else { return false };
        if !list(ptr_mut(d, &p), "breaks").is_empty() {
            return false;
        }
        ptr_mut(d, &p)["start"]["latest"] = json!(bad_time(rng));
        true
    });
    c.add("start-latest-before-earliest", "fleet.vehicles[].shifts[].start.latest", "", Field, |d, rng| {
        let Some((p, st, _)) = pick_shift(d, rng, false, &|_, _| true) else { return false };
        if !list(ptr_mut(d, &p), "breaks").is_empty() {
            return false;
        }
        ptr_mut(d, &p)["start"]["latest"] = json!(t(st - 600));
        true
    });
    c.add("start-latest-after-end", "fleet.vehicles[].shifts[].start.latest", "", Field, |d, rng| {
        let Some((p, _, Some(en))) = pick_shift(d, rng, true, &|_, _| true) else { return false };
        if !list(ptr_mut(d, &p), "breaks").is_empty() {
            return false;
        }
        ptr_mut(d, &p)["start"]["latest"] = json!(t(en + 600));
        true
    });
    c.add("start-latest-equals-earliest", "fleet.vehicles[].shifts[].start.latest", "", Field, |d, rng| {
        let Some((p, st, _)) = pick_shift(d, rng, false, &|_, _| true) else { return false };
        if ptr_mut(d, &p)["start"]["latest"].as_str() == Some(&t(st)) {
            return false;
        }
        ptr_mut(d, &p)["start"]["latest"] = json!(t(st));
        true
    });
    c.add("end-earliest-unparsable", "fleet.vehicles[].shifts[].end.earliest", "", Field, |d, rng| {
        let Some((p, _, _)) = pick_shift(d, rng, true, &|_, _| true) else { return false };
        ptr_mut(d, &p)["end"]["earliest"] = json!(bad_time(rng));
        true
    });
    c.add("end-earliest-valid", "fleet.vehicles[].shifts[].end.earliest", "", Field, |d, rng| {
        let Some((p, st, _)) = pick_shift(d, rng, true, &|_, _| true) else { return false };
        ptr_mut(d, &p)["end"]["earliest"] = json!(t(st + 1));
        true
    });
    c.add("end-earliest-after-latest", "fleet.vehicles[].shifts[].end.earliest", "", Field, |d, rng| {
        let Some((p, _, Some(en))) = pick_shift(d, rng, true, &|_, _| true) else { return false };
        ptr_mut(d, &p)["end"]["earliest"] = json!(t(en + 1000));
        true
    });

    // E1303 breaks: the mutation replaces the break list of one shift
    const BF: &str = "fleet.vehicles[].shifts[].breaks[]";
    type BreakBuild = fn(&mut Rng, i64, Option<i64>) -> Option<Value>;
    fn place() -> Value {
        json!([{"duration": 10.0}])
    }
    let tw_breaks: Vec<(&'static str, Role, bool, BreakBuild)> = vec![
        ("break-tw-reversed", Breaker, false, |_, st, _| Some(json!([{"time": [t(st + 600), t(st + 300)], "places": place()}]))),
        ("break-tw-unparsable", Breaker, false, |r, st, _| Some(json!([{"time": if r.chance(0.5) { json!([bad_time(r), t(st + 300)]) } else { json!([t(st + 100), bad_time(r)]) }, "places": place()}]))),
        ("break-tw-after-shift", Breaker, true, |_, _, en| Some(json!([{"time": [t(en? + 7200), t(en? + 10_800)], "places": place()}]))),
        ("break-tw-before-shift", Breaker, false, |_, st, _| Some(json!([{"time": [t(st - 10_800), t(st - 7200)], "places": place()}]))),
        ("break-tw-one-string", Breaker, false, |_, st, _| Some(json!([{"time": [t(st + 100)], "places": place()}]))),
        ("break-tw-three-strings", Breaker, false, |_, st, _| Some(json!([{"time": [t(st + 100), t(st + 200), t(st + 300)], "places": place()}]))),
        ("break-time-empty-list", Breaker, false, |_, _, _| Some(json!([{"time": [], "places": place()}]))),
        ("breaks-intersecting-windows", Breaker, true, |_, st, en| {
            let len = en? - st;
            Some(json!([{"time": [t(st + len / 4), t(st + len / 2)], "places": place()}, {"time": [t(st + len / 3), t(st + len / 2 + 5)], "places": place()}]))
        }),
        ("break-tw-second-break-reversed", Breaker, true, |_, st, en| {
            let len = en? - st;
            Some(json!([{"time": [t(st + len / 8), t(st + len / 4)], "places": place()}, {"time": [t(st + len / 2 + 60), t(st + len / 2)], "places": place()}]))
        }),
        ("break-tw-second-break-after-shift", Breaker, true, |_, st, en| {
            let len = en? - st;
            Some(json!([{"time": [t(st + len / 8), t(st + len / 4)], "places": place()}, {"time": [t(en? + 7200), t(en? + 9000)], "places": place()}]))
        }),
        ("break-required-after-shift", Breaker, true, |_, _, en| Some(json!([{"time": {"earliest": t(en? + 7200), "latest": t(en? + 7300)}, "duration": 10.0}]))),
        ("break-required-before-shift", Breaker, false, |_, st, _| Some(json!([{"time": {"earliest": t(st - 7300), "latest": t(st - 7200)}, "duration": 10.0}]))),
        ("break-tw-inside-shift", Near, true, |_, st, en| { let len = en? - st; Some(json!([{"time": [t(st + len / 4), t(st + len / 2)], "places": place()}])) }),
        ("break-two-disjoint-windows", Near, true, |_, st, en| {
            let len = en? - st;
            Some(json!([{"time": [t(st + len / 8), t(st + len / 4)], "places": place()}, {"time": [t(st + len / 2), t(st + len / 2 + len / 8)], "places": place()}]))
        }),
        ("break-required-inside-shift", Near, true, |_, st, en| { let len = en? - st; Some(json!([{"time": {"earliest": t(st + len / 3), "latest": t(st + len / 3 + 30)}, "duration": 10.0}])) }),
        ("break-required-exact-time", Near, true, |_, st, en| { let len = en? - st; Some(json!([{"time": {"earliest": t(st + len / 3), "latest": t(st + len / 3)}, "duration": 10.0}])) }),
        ("break-tw-partially-outside-shift", Near, true, |_, _, en| Some(json!([{"time": [t(en? - 30), t(en? + 3600)], "places": place()}]))),
        ("break-tw-equal-bounds", Near, true, |_, st, en| { let len = en? - st; Some(json!([{"time": [t(st + len / 4), t(st + len / 4)], "places": place()}])) }),
        ("break-required-latest-before-earliest", Near, true, |_, st, en| { let len = en? - st; Some(json!([{"time": {"earliest": t(st + len / 2), "latest": t(st + len / 3)}, "duration": 10.0}])) }),
        ("break-required-time-unparsable", Near, false, |r, st, _| Some(json!([{"time": {"earliest": bad_time(r), "latest": t(st + 300)}, "duration": 10.0}]))),
        ("break-places-empty-list", Field, true, |_, st, en| { let len = en? - st; Some(json!([{"time": [t(st + len / 4), t(st + len / 2)], "places": []}])) }),
        ("break-place-duration-negative", Field, true, |_, st, en| { let len = en? - st; Some(json!([{"time": [t(st + len / 4), t(st + len / 2)], "places": [{"duration": -10.0}]}])) }),
        ("break-place-duration-1e300", Field, true, |_, st, en| { let len = en? - st; Some(json!([{"time": [t(st + len / 4), t(st + len / 2)], "places": [{"duration": 1e300}]}])) }),
        ("break-required-duration-negative", Field, true, |_, st, en| { let len = en? - st; Some(json!([{"time": {"earliest": t(st + len / 3), "latest": t(st + len / 3 + 30)}, "duration": -10.0}])) }),
        ("break-required-duration-1e300", Field, true, |_, st, en| { let len = en? - st; Some(json!([{"time": {"earliest": t(st + len / 3), "latest": t(st + len / 3 + 30)}, "duration": 1e300}])) }),
        ("break-policies", Field, true, |r, st, en| { let len = en? - st; Some(json!([{"time": [t(st + len / 4), t(st + len / 2)], "places": place(), "policy": *r.pick(&["skip-if-no-intersection", "skip-if-arrival-before-end"])}])) }),
        ("break-many-places-with-tags", Field, true, |_, st, en| { let len = en? - st; Some(json!([{"time": [t(st + len / 4), t(st + len / 2)], "places": (0..40).map(|i| json!({"duration": 5.0 + i as f64, "tag": format!("b{i}")})).collect::<Vec<_>>()}])) }),
        ("breaks-empty-list", Field, false, |_, _, _| Some(json!([]))),
    ];
    for (class, role, closed, build) in tw_breaks {
        c.add(class, BF, if role == Field { "" } else { "E1303" }, role, move |d, rng| {
            let rel_break = list(&d.problem["plan"], "relations").iter().any(|r| list(r, "jobs").iter().any(|j| j == "break"));
            if rel_break {
                return false;
            }
            let Some((p, st, en)) = pick_shift(d, rng, closed, &|_, _| true) else { return false };
            let Some(b) = build(rng, st, en) else { return false };
            ptr_mut(d, &p)["breaks"] = b;
            true
        });
    }
    // offset breaks: start.latest is pinned to start.earliest (E1307) unless the class is about E1307
    type OffBuild = fn(i64) -> Value; // argument: shift length
    let off_breaks: Vec<(&'static str, &'static str, Role, u8, OffBuild)> = vec![
        ("offset-break-latest-equal", "E1307", Near, 0, |len| json!([{"time": [(len / 4) as f64, (len / 2) as f64], "places": [{"duration": 10.0}]}])),
        ("offset-break-latest-missing", "E1307", Breaker, 1, |len| json!([{"time": [(len / 4) as f64, (len / 2) as f64], "places": [{"duration": 10.0}]}])),
        ("offset-break-latest-differs", "E1307", Breaker, 2, |len| json!([{"time": [(len / 4) as f64, (len / 2) as f64], "places": [{"duration": 10.0}]}])),
        ("required-offset-break-latest-equal", "E1307", Near, 0, |len| json!([{"time": {"earliest": (len / 4) as f64, "latest": (len / 4 + 60) as f64}, "duration": 10.0}])),
        ("required-offset-break-latest-missing", "E1307", Breaker, 1, |len| json!([{"time": {"earliest": (len / 4) as f64, "latest": (len / 4 + 60) as f64}, "duration": 10.0}])),
        ("required-offset-break-latest-differs", "E1307", Breaker, 2, |len| json!([{"time": {"earliest": (len / 4) as f64, "latest": (len / 4 + 60) as f64}, "duration": 10.0}])),
        ("offset-break-second-of-two-latest-missing", "E1307", Breaker, 1, |len| json!([{"time": [t(len / 8), t(len / 6)], "places": [{"duration": 10.0}]}, {"time": [(len / 3) as f64, (len / 2) as f64], "places": [{"duration": 10.0}]}])),
        ("offset-break-negative", "", Field, 0, |len| json!([{"time": [-(len as f64), -1.0], "places": [{"duration": 10.0}]}])),
        ("offset-break-reversed", "", Field, 0, |len| json!([{"time": [(len / 2) as f64, (len / 4) as f64], "places": [{"duration": 10.0}]}])),
        ("offset-break-one-number", "", Field, 0, |len| json!([{"time": [(len / 2) as f64], "places": [{"duration": 10.0}]}])),
        ("offset-break-three-numbers", "", Field, 0, |len| json!([{"time": [(len / 4) as f64, (len / 3) as f64, (len / 2) as f64], "places": [{"duration": 10.0}]}])),
        ("offset-break-1e300", "", Field, 0, |_| json!([{"time": [1e300, 1e300], "places": [{"duration": 10.0}]}])),
        ("offset-break-beyond-shift", "", Field, 0, |len| json!([{"time": [(len * 3) as f64, (len * 4) as f64], "places": [{"duration": 10.0}]}])),
        ("required-offset-break-negative", "", Field, 0, |_| json!([{"time": {"earliest": -100.0, "latest": -50.0}, "duration": 10.0}])),
        ("required-offset-break-reversed", "", Field, 0, |len| json!([{"time": {"earliest": (len / 2) as f64, "latest": (len / 4) as f64}, "duration": 10.0}])),
        ("required-offset-break-1e300", "", Field, 0, |_| json!([{"time": {"earliest": 1e300, "latest": 1e300}, "duration": 10.0}])),
    ];
    for (class, rule, role, latest_mode, build) in off_breaks {
        c.add(class, "fleet.vehicles[].shifts[].breaks[].time", rule, role, move |d, rng| {
            let rel_break = list(&d.problem["plan"], "relations").iter().any(|r| list(r, "jobs").iter().any(|j| j == "break"));
            if rel_break {
                return false;
            }
            let Some((p, st, Some(en))) = pick_shift(d, rng, true, &|_, _| true) else { return false };
            // window breaks in the two-break class are absolute: shift them to the shift start
            let mut b = build(en - st);
            if class == "offset-break-second-of-two-latest-missing" {
                b[0]["time"] = json!([t(st + (en - st) / 8), t(st + (en - st) / 6)]);
            }
            ptr_mut(d, &p)["breaks"] = b;
            match latest_mode {
                0 => ptr_mut(d, &p)["start"]["latest"] = json!(t(st)),
                1 => {
                    obj(&mut ptr_mut(d, &p)["start"]).remove("latest");
                }
                _ => ptr_mut(d, &p)["start"]["latest"] = json!(t(st + *rng.pick(&[1i64, 60, 600]))),
            }
            true
        });
    }
    c.add("window-break-without-start-latest", "fleet.vehicles[].shifts[].start.latest", "E1307", Near, |d, rng| {
        let ptrs = shift_ptrs(d, &|_, _, _, sh| {
            sh["start"].get("latest").is_some() && !list(sh, "breaks").is_empty() && list(sh, "breaks").iter().all(|b| b["time"].as_array().is_some_and(|a| a.iter().all(|x| x.is_string())))
        });
        let Some(p) = pick_s(rng, ptrs) else { return false };
        obj(&mut ptr_mut(d, &p)["start"]).remove("latest");
        true
    });

    // E1304 reloads: the mutation replaces the reload list of one shift
    const RF: &str = "fleet.vehicles[].shifts[].reloads[]";
    for (name, role, build) in window_variants() {
        if name.contains("far-") || name.contains("zone-offset") || name.contains("fraction") {
            continue; // absolute instants: covered on job places
        }
        let class = format!("reload-{name}");
        // E1304 leaves intersections inside one reload open (see refvalidate)
        let role = if name.contains("intersect") { Near } else { role };
        c.add(&class, "fleet.vehicles[].shifts[].reloads[].times", "E1304", role, move |d, rng| {
            let rel = list(&d.problem["plan"], "relations").iter().any(|r| list(r, "jobs").iter().any(|j| j == "reload"));
            // the generic windows span up to two hours: an open shift holds them all
            let Some((p, st, None)) = pick_shift(d, rng, false, &|_, _| true) else { return false };
            if rel {
                return false;
            }
            let loc = some_location(d, rng);
            ptr_mut(d, &p)["reloads"] = json!([{"location": loc, "duration": 5.0, "times": build(rng, st + 10)}]);
            true
        });
    }
    type ReloadBuild = fn(i64, i64, Value) -> Value; // (start, end, location)
    let reloads: Vec<(&'static str, &'static str, Role, ReloadBuild)> = vec![
        ("reload-after-shift", "E1304", Breaker, |_, en, l| json!([{"location": l, "duration": 5.0, "times": [[t(en + 7200), t(en + 9000)]]}])),
        ("reload-before-shift", "E1304", Breaker, |st, _, l| json!([{"location": l, "duration": 5.0, "times": [[t(st - 9000), t(st - 7200)]]}])),
        ("reload-second-window-after-shift", "E1304", Breaker, |st, en, l| json!([{"location": l, "duration": 5.0, "times": [[t(st + 10), t(st + (en - st) / 2)], [t(en + 7200), t(en + 9000)]]}])),
        ("reload-second-reload-reversed", "E1304", Breaker, |st, en, l| json!([{"location": l, "duration": 5.0, "times": [[t(st + 10), t(en - 10)]]}, {"location": l, "duration": 5.0, "times": [[t(st + 500), t(st + 100)]]}])),
        ("reload-second-reload-after-shift", "E1304", Breaker, |_, en, l| json!([{"location": l, "duration": 5.0}, {"location": l, "duration": 5.0, "times": [[t(en + 7200), t(en + 9000)]]}])),
        ("reload-inside-shift", "E1304", Near, |st, en, l| json!([{"location": l, "duration": 5.0, "times": [[t(st + 10), t(en - 10)]]}])),
        ("reloads-intersecting-each-other", "E1304", Near, |st, en, l| json!([{"location": l, "duration": 5.0, "times": [[t(st + 10), t(en - 10)]]}, {"location": l, "duration": 5.0, "times": [[t(st + 20), t(en - 20)]]}])),
        ("reload-partially-outside-shift", "E1304", Near, |_, en, l| json!([{"location": l, "duration": 5.0, "times": [[t(en - 30), t(en + 3600)]]}])),
        ("reload-duration-negative", "", Field, |_, _, l| json!([{"location": l, "duration": -5.0}])),
        ("reload-duration-1e300", "", Field, |_, _, l| json!([{"location": l, "duration": 1e300}])),
        ("reload-tag-empty-string", "", Field, |_, _, l| json!([{"location": l, "duration": 5.0, "tag": ""}])),
        ("reloads-empty-list", "", Field, |_, _, _| json!([])),
        ("reloads-huge-list", "", Field, |_, _, l| json!((0..60).map(|i| json!({"location": l, "duration": 5.0, "tag": format!("r{i}")})).collect::<Vec<_>>())),
    ];
    for (class, rule, role, build) in reloads {
        c.add(class, RF, rule, role, move |d, rng| {
            if list(&d.problem["plan"], "relations").iter().any(|r| list(r, "jobs").iter().any(|j| j == "reload")) {
                return false;
            }
            let Some((p, st, Some(en))) = pick_shift(d, rng, true, &|_, _| true) else { return false };
            let loc = some_location(d, rng);
            ptr_mut(d, &p)["reloads"] = build(st, en, loc);
            true
        });
    }

    // E1308 resources
    c.add("resource-id-duplicate", "fleet.resources[].id", "E1308", Breaker, |d, _| {
        let cap = set_demand_like(d, |_| 10);
        let fleet = obj(&mut d.problem["fleet"]);
        match fleet.get_mut("resources").and_then(|r| r.as_array_mut()).filter(|r| !r.is_empty()) {
            Some(r) => {
                let copy = r[0].clone();
                r.push(copy);
            }
            None => {
                fleet.insert("resources".into(), json!([{"type": "reload", "id": "c10res", "capacity": cap}, {"type": "reload", "id": "c10res", "capacity": cap}]));
            }
        }
        true
    });
    for (class, role, mode) in [
        ("reload-resource-unknown-id", Breaker, 0u8),
        ("reload-resource-without-resources-section", Breaker, 1),
        ("reload-resource-defined", Near, 2),
        ("resource-defined-unused", Near, 3),
    ] {
        c.add(class, "fleet.vehicles[].shifts[].reloads[].resourceId", "E1308", role, move |d, rng| {
            let cap = set_demand_like(d, |_| 10);
            let has_section = d.problem["fleet"].get("resources").is_some();
            match mode {
                1 if has_section => return false,
                0 | 2 | 3 if !has_section => d.problem["fleet"]["resources"] = json!([]),
                _ => {}
            }
            if mode >= 2 {
                d.problem["fleet"]["resources"].as_array_mut().unwrap().push(json!({"type": "reload", "id": "c10res", "capacity": cap}));
            }
            if mode == 3 {
                return true;
            }
            if list(&d.problem["plan"], "relations").iter().any(|r| list(r, "jobs").iter().any(|j| j == "reload")) {
                return false;
            }
            let Some((p, _, _)) = pick_shift(d, rng, false, &|_, _| true) else { return false };
            let loc = some_location(d, rng);
            let rid = if mode == 2 { "c10res" } else { "no_such_resource" };
            ptr_mut(d, &p)["reloads"] = json!([{"location": loc, "duration": 5.0, "resourceId": rid}]);
            true
        });
    }
    let res_fields: Vec<(&'static str, fn(&Doc) -> Value)> = vec![
        ("resources-empty-list", |_| json!([])),
        ("resource-capacity-empty", |_| json!([{"type": "reload", "id": "c10res", "capacity": []}])),
        ("resource-capacity-nine-dimensions", |_| json!([{"type": "reload", "id": "c10res", "capacity": [1, 1, 1, 1, 1, 1, 1, 1, 1]}])),
        ("resource-capacity-negative", |d| json!([{"type": "reload", "id": "c10res", "capacity": set_demand_like(d, |_| -5)}])),
        ("resource-capacity-zero", |d| json!([{"type": "reload", "id": "c10res", "capacity": set_demand_like(d, |_| 0)}])),
        ("resource-capacity-i32-max", |d| json!([{"type": "reload", "id": "c10res", "capacity": set_demand_like(d, |_| i32::MAX as i64)}])),
        ("resource-id-empty-string", |d| json!([{"type": "reload", "id": "", "capacity": set_demand_like(d, |_| 5)}])),
    ];
    for (class, build) in res_fields {
        c.add(class, "fleet.resources[]", "", Field, move |d, rng| {
            if d.problem["fleet"].get("resources").is_some() {
                return false;
            }
            if list(&d.problem["plan"], "relations").iter().any(|r| list(r, "jobs").iter().any(|j| j == "reload")) {
                return false;
            }
            let res = build(d);
            // used by a reload, so that the reader has to look at it
            if let (Some(rid), Some((p, _, _))) = (res[0]["id"].as_str().map(|s| s.to_string()), pick_shift(d, rng, false, &|_, _| true)) {
                let loc = some_location(d, rng);
                ptr_mut(d, &p)["reloads"] = json!([{"location": loc, "duration": 5.0, "resourceId": rid}]);
            }
            d.problem["fleet"]["resources"] = res;
            true
        });
    }

    // E1306 costs
    type CostEdit = fn(&mut Value);
    let costs: Vec<(&'static str, &'static str, Role, bool, CostEdit)> = vec![
        ("costs-distance-and-time-zero", "E1306", Breaker, false, |c| { c["distance"] = json!(0.0); c["time"] = json!(0.0); }),
        ("costs-distance-and-time-zero@last-type", "E1306", Breaker, true, |c| { c["distance"] = json!(0); c["time"] = json!(0); }),
        ("costs-distance-zero-time-tiny", "E1306", Near, false, |c| { c["distance"] = json!(0.0); c["time"] = json!(1e-7); }),
        ("costs-time-zero-distance-tiny", "E1306", Near, false, |c| { c["distance"] = json!(1e-300); c["time"] = json!(0.0); }),
        ("costs-fixed-zero-only", "E1306", Near, false, |c| { c["fixed"] = json!(0.0); c["distance"] = json!(1.0); }),
        ("costs-distance-negative", "", Field, false, |c| { c["distance"] = json!(-1.0); }),
        ("costs-time-negative", "", Field, false, |c| { c["time"] = json!(-1.0); }),
        ("costs-fixed-negative", "", Field, false, |c| { c["fixed"] = json!(-100.0); }),
        ("costs-1e300", "", Field, false, |c| { c["fixed"] = json!(1e300); c["distance"] = json!(1e300); c["time"] = json!(1e300); }),
    ];
    for (class, rule, role, last, edit) in costs {
        c.add(class, "fleet.vehicles[].costs", rule, role, move |d, rng| {
            let n = list(&d.problem["fleet"], "vehicles").len();
            if last && n < 2 {
                return false;
            }
            let v = if last { n - 1 } else { rng.usize_below(n) };
            edit(&mut d.problem["fleet"]["vehicles"][v]["costs"]);
            true
        });
    }

    // other vehicle fields
    type VEdit = fn(&Doc, &mut Value);
    let vfields: Vec<(&'static str, &'static str, VEdit)> = vec![
        ("capacity-empty-list", "fleet.vehicles[].capacity", |_, v| v["capacity"] = json!([])),
        ("capacity-nine-dimensions", "fleet.vehicles[].capacity", |_, v| v["capacity"] = json!([9, 9, 9, 9, 9, 9, 9, 9, 9])),
        ("capacity-eight-dimensions", "fleet.vehicles[].capacity", |_, v| v["capacity"] = json!([9, 9, 9, 9, 9, 9, 9, 9])),
        ("capacity-negative", "fleet.vehicles[].capacity", |d, v| v["capacity"] = set_demand_like(d, |_| -1)),
        ("capacity-zero", "fleet.vehicles[].capacity", |d, v| v["capacity"] = set_demand_like(d, |_| 0)),
        ("capacity-i32-max", "fleet.vehicles[].capacity", |d, v| v["capacity"] = set_demand_like(d, |_| i32::MAX as i64)),
        ("capacity-i32-min", "fleet.vehicles[].capacity", |d, v| v["capacity"] = set_demand_like(d, |_| i32::MIN as i64)),
        ("capacity-more-dimensions-than-demand", "fleet.vehicles[].capacity", |d, v| v["capacity"] = json!((0..dims_of(d) + 2).map(|_| 5).collect::<Vec<i64>>())),
        ("vehicle-skills-empty-list", "fleet.vehicles[].skills", |_, v| v["skills"] = json!([])),
        ("vehicle-skills-duplicates", "fleet.vehicles[].skills", |_, v| v["skills"] = json!(["s1", "s1", "", ""])),
        ("vehicle-skills-huge-list", "fleet.vehicles[].skills", |_, v| v["skills"] = json!((0..3000).map(|i| format!("k{i}")).collect::<Vec<_>>())),
        ("limits-empty-object", "fleet.vehicles[].limits", |_, v| v["limits"] = json!({})),
        ("limit-max-distance-zero", "fleet.vehicles[].limits", |_, v| v["limits"] = json!({"maxDistance": 0.0})),
        ("limit-max-distance-negative", "fleet.vehicles[].limits", |_, v| v["limits"] = json!({"maxDistance": -1.0})),
        ("limit-max-distance-1e300", "fleet.vehicles[].limits", |_, v| v["limits"] = json!({"maxDistance": 1e300})),
        ("limit-max-duration-zero", "fleet.vehicles[].limits", |_, v| v["limits"] = json!({"maxDuration": 0.0})),
        ("limit-max-duration-negative", "fleet.vehicles[].limits", |_, v| v["limits"] = json!({"maxDuration": -1.0})),
        ("limit-shift-time-alias", "fleet.vehicles[].limits", |_, v| v["limits"] = json!({"shiftTime": 1000.0})),
        ("limit-tour-size-zero", "fleet.vehicles[].limits", |_, v| v["limits"] = json!({"tourSize": 0})),
        ("limit-tour-size-u64-max", "fleet.vehicles[].limits", |_, v| v["limits"] = json!({"tourSize": u64::MAX})),
        ("profile-scale-zero", "fleet.vehicles[].profile.scale", |_, v| v["profile"]["scale"] = json!(0.0)),
        ("profile-scale-negative", "fleet.vehicles[].profile.scale", |_, v| v["profile"]["scale"] = json!(-1.0)),
        ("profile-scale-1e300", "fleet.vehicles[].profile.scale", |_, v| v["profile"]["scale"] = json!(1e300)),
        ("profile-scale-tiny", "fleet.vehicles[].profile.scale", |_, v| v["profile"]["scale"] = json!(1e-300)),
    ];
    for (class, field, edit) in vfields {
        c.add(class, field, "", Field, move |d, rng| {
            let n = list(&d.problem["fleet"], "vehicles").len();
            let v = rng.usize_below(n);
            let snapshot = d.clone();
            edit(&snapshot, &mut d.problem["fleet"]["vehicles"][v]);
            true
        });
    }

    // recharges (experimental feature): replaces the recharges of one shift
    type RcBuild = fn(&mut Rng, Value) -> Value;
    let recharges: Vec<(&'static str, RcBuild)> = vec![
        ("recharge-valid", |_, l| json!({"maxDistance": 50.0, "stations": [{"location": l, "duration": 10.0}]})),
        ("recharge-max-distance-zero", |_, l| json!({"maxDistance": 0.0, "stations": [{"location": l, "duration": 10.0}]})),
        ("recharge-max-distance-negative", |_, l| json!({"maxDistance": -5.0, "stations": [{"location": l, "duration": 10.0}]})),
        ("recharge-max-distance-1e300", |_, l| json!({"maxDistance": 1e300, "stations": [{"location": l, "duration": 10.0}]})),
        ("recharge-stations-empty-list", |_, _| json!({"maxDistance": 50.0, "stations": []})),
        ("recharge-stations-huge-list", |_, l| json!({"maxDistance": 50.0, "stations": (0..60).map(|i| json!({"location": l, "duration": 1.0, "tag": format!("s{i}")})).collect::<Vec<_>>()})),
        ("recharge-station-duration-negative", |_, l| json!({"maxDistance": 50.0, "stations": [{"location": l, "duration": -10.0}]})),
        ("recharge-station-times-valid", |_, l| json!({"maxDistance": 50.0, "stations": [{"location": l, "duration": 10.0, "times": [[t(0), t(100_000)]]}]})),
        ("recharge-station-times-unparsable", |r, l| json!({"maxDistance": 50.0, "stations": [{"location": l, "duration": 10.0, "times": [[bad_time(r), t(100_000)]]}]})),
        ("recharge-station-times-reversed", |_, l| json!({"maxDistance": 50.0, "stations": [{"location": l, "duration": 10.0, "times": [[t(5000), t(1000)]]}]})),
        ("recharge-station-times-intersecting", |_, l| json!({"maxDistance": 50.0, "stations": [{"location": l, "duration": 10.0, "times": [[t(0), t(5000)], [t(4000), t(9000)]]}]})),
        ("recharge-station-times-empty-list", |_, l| json!({"maxDistance": 50.0, "stations": [{"location": l, "duration": 10.0, "times": []}]})),
        ("recharge-station-window-one-string", |_, l| json!({"maxDistance": 50.0, "stations": [{"location": l, "duration": 10.0, "times": [[t(0)]]}]})),
    ];
    for (class, build) in recharges {
        c.add(class, "fleet.vehicles[].shifts[].recharges", "", Field, move |d, rng| {
            let Some((p, _, _)) = pick_shift(d, rng, false, &|_, _| true) else { return false };
            let loc = some_location(d, rng);
            ptr_mut(d, &p)["recharges"] = build(rng, loc);
            true
        });
    }
}

// ------------------------------------------------------------------ routing: profiles, locations, matrices
fn other_kind_location(d: &Doc) -> Value {
    if uses_indices(d) { json!({"lat": 52.5, "lng": 13.4}) } else { json!({"index": 0}) }
}

fn catalogue_routing(c: &mut Cat) {
    use Role::*;
    c.add("profile-name-duplicate", "fleet.profiles[].name", "E1500", Breaker, |d, _| {
        let p = d.problem["fleet"]["profiles"].as_array_mut().unwrap();
        if p.is_empty() {
            return false;
        }
        let mut copy = p[0].clone();
        copy["speed"] = json!(12.0);
        p.push(copy);
        true
    });
    c.add("profile-name-duplicate-of-last", "fleet.profiles[].name", "E1500", Breaker, |d, _| {
        let p = d.problem["fleet"]["profiles"].as_array_mut().unwrap();
        if p.len() < 2 {
            return false;
        }
        let copy = p[p.len() - 1].clone();
        p.push(copy);
        true
    });
    c.add("profile-added-with-matrix", "fleet.profiles[].name", "E1500", Near, |d, _| {
        // a further, unused profile together with its matrices (all matrices carry profile names)
        if d.matrices.iter().any(|m| m.get("profile").is_none()) {
            return false;
        }
        let first = d.problem["fleet"]["profiles"][0]["name"].as_str().unwrap_or("").to_string();
        d.problem["fleet"]["profiles"].as_array_mut().unwrap().push(json!({"name": "c10_extra"}));
        let copies: Vec<Value> = d.matrices.iter().filter(|m| m["profile"].as_str() == Some(&first)).cloned().collect();
        for mut m in copies {
            m["profile"] = json!("c10_extra");
            d.matrices.push(m);
        }
        true
    });
    c.add("profiles-empty-list", "fleet.profiles", "E1501", Breaker, |d, _| {
        d.problem["fleet"]["profiles"] = json!([]);
        true
    });
    for (class, v) in [("profile-speed-zero", 0.0f64), ("profile-speed-negative", -10.0), ("profile-speed-1e300", 1e300), ("profile-speed-tiny", 1e-300)] {
        c.add(class, "fleet.profiles[].speed", "", Field, move |d, _| {
            d.problem["fleet"]["profiles"][0]["speed"] = json!(v);
            true
        });
    }
    c.add("profile-name-empty-string", "fleet.profiles[].name", "", Field, |d, _| {
        // renamed consistently everywhere: no rule is touched
        let old = d.problem["fleet"]["profiles"][0]["name"].as_str().unwrap_or("").to_string();
        d.problem["fleet"]["profiles"][0]["name"] = json!("");
        for v in d.problem["fleet"]["vehicles"].as_array_mut().unwrap() {
            if v["profile"]["matrix"].as_str() == Some(&old) {
                v["profile"]["matrix"] = json!("");
            }
        }
        if d.problem["plan"]["clustering"]["profile"]["matrix"].as_str() == Some(&old) {
            d.problem["plan"]["clustering"]["profile"]["matrix"] = json!("");
        }
        for m in d.matrices.iter_mut() {
            if m["profile"].as_str() == Some(&old) {
                m["profile"] = json!("");
            }
        }
        true
    });
    // E1505
    c.add("vehicle-profile-unknown", "fleet.vehicles[].profile.matrix", "E1505", Breaker, |d, rng| {
        let n = list(&d.problem["fleet"], "vehicles").len();
        d.problem["fleet"]["vehicles"][rng.usize_below(n)]["profile"]["matrix"] = json!(*rng.pick(&["no_such_profile", "", "CAR"]));
        true
    });
    c.add("vehicle-profile-unknown@last-type", "fleet.vehicles[].profile.matrix", "E1505", Breaker, |d, _| {
        let n = list(&d.problem["fleet"], "vehicles").len();
        if n < 2 {
            return false;
        }
        d.problem["fleet"]["vehicles"][n - 1]["profile"]["matrix"] = json!("no_such_profile");
        true
    });
    c.add("vehicle-profile-unknown-but-named-by-a-matrix", "fleet.vehicles[].profile.matrix", "E1505", Breaker, |d, rng| {
        // routing data is supplied under the undeclared name: the name is still not one of fleet.profiles
        if d.matrices.is_empty() || d.matrices.iter().any(|m| m.get("profile").and_then(|p| p.as_str()).is_none()) {
            return false;
        }
        let first = d.matrices[0]["profile"].as_str().unwrap_or("").to_string();
        let copies: Vec<Value> = d.matrices.iter().filter(|m| m["profile"].as_str() == Some(&first)).cloned().collect();
        for mut m in copies {
            m["profile"] = json!("c10_routed");
            d.matrices.push(m);
        }
        let n = list(&d.problem["fleet"], "vehicles").len();
        d.problem["fleet"]["vehicles"][rng.usize_below(n)]["profile"]["matrix"] = json!("c10_routed");
        true
    });
    // E1502
    let targets: Vec<(&'static str, &'static str)> = vec![
        ("job-place", "plan.jobs[].<tasks>[].places[].location"),
        ("last-job-place", "plan.jobs[].<tasks>[].places[].location"),
        ("shift-start", "fleet.vehicles[].shifts[].start.location"),
        ("shift-end", "fleet.vehicles[].shifts[].end.location"),
        ("break-place", "fleet.vehicles[].shifts[].breaks[].places[].location"),
        ("reload", "fleet.vehicles[].shifts[].reloads[].location"),
        ("recharge-station", "fleet.vehicles[].shifts[].recharges.stations[].location"),
    ];
    fn loc_paths(d: &Doc, target: &str) -> Vec<String> {
        let all: Vec<String> = o6::all_locations(&d.problem).into_iter().map(|(p, _)| format!("/{}", p.replace("].", "/").replace('[', "/").replace(']', "").replace('.', "/"))).collect();
        let f: Vec<String> = match target {
            "job-place" | "last-job-place" => all.into_iter().filter(|p| p.starts_with("/plan/jobs")).collect(),
            "shift-start" => all.into_iter().filter(|p| p.ends_with("/start/location")).collect(),
            "shift-end" => all.into_iter().filter(|p| p.ends_with("/end/location")).collect(),
            "break-place" => all.into_iter().filter(|p| p.contains("/breaks/")).collect(),
            "reload" => all.into_iter().filter(|p| p.contains("/reloads/")).collect(),
            _ => all.into_iter().filter(|p| p.contains("/recharges/")).collect(),
        };
        if target == "last-job-place" { f.into_iter().last().into_iter().collect() } else { f }
    }
    for (target, field) in targets.clone() {
        c.add(&format!("location-kind-mixed@{target}"), field, "E1502", Breaker, move |d, rng| {
            let Some(p) = pick_s(rng, loc_paths(d, target)) else { return false };
            let other = other_kind_location(d);
            *ptr_mut(d, &p) = other;
            true
        });
    }
    for (target, field) in [targets[0], targets[2], targets[3]] {
        c.add(&format!("location-custom-unknown@{target}"), field, "E1502", Near, move |d, rng| {
            let Some(p) = pick_s(rng, loc_paths(d, target)) else { return false };
            *ptr_mut(d, &p) = json!({"type": "unknown"});
            true
        });
    }
    c.add("location-coordinates-out-of-range", "plan.jobs[].<tasks>[].places[].location", "", Field, |d, rng| {
        if uses_indices(d) {
            return false;
        }
        let Some(p) = pick_s(rng, loc_paths(d, "job-place")) else { return false };
        *ptr_mut(d, &p) = rng.pick(&[json!({"lat": 91.0, "lng": 181.0}), json!({"lat": 1e300, "lng": -1e300}), json!({"lat": -90.0, "lng": 180.0})]).clone();
        // a new unique location may exceed a supplied matrix: only without matrices
        d.matrices.is_empty()
    });
    // E1503 / E1504
    c.add("matrices-dropped", "matrices", "E1503", Breaker, |d, _| {
        if !uses_indices(d) || d.matrices.is_empty() {
            return false;
        }
        d.matrices.clear();
        true
    });
    c.add("matrix-too-small", "matrices[].distances", "E1504", Breaker, |d, rng| {
        let Some(n) = matrix_size(d) else { return false };
        if !uses_indices(d) || n_locations(d) != n || n < 3 {
            return false;
        }
        resize_matrices(d, n - *rng.pick(&[1usize, 2]));
        true
    });
    c.add("matrix-too-small-for-coordinates", "matrices[].distances", "E1504", Breaker, |d, _| {
        let Some(n) = matrix_size(d) else { return false };
        if uses_indices(d) || n < 3 {
            return false;
        }
        resize_matrices(d, n - 1);
        true
    });
    c.add("location-index-beyond-matrix", "plan.jobs[].<tasks>[].places[].location", "E1504", Breaker, |d, rng| {
        let Some(n) = matrix_size(d) else { return false };
        if !uses_indices(d) {
            return false;
        }
        let wh = *rng.pick(&["job-place", "shift-start"]);
        let Some(p) = pick_s(rng, loc_paths(d, wh)) else { return false };
        *ptr_mut(d, &p) = json!({"index": n as u64 + *rng.pick(&[1u64, 5, 1_000_000, u32::MAX as u64])});
        true
    });
    c.add("location-index-equals-matrix-size", "plan.jobs[].<tasks>[].places[].location", "E1504", Near, |d, rng| {
        let Some(n) = matrix_size(d) else { return false };
        if !uses_indices(d) {
            return false;
        }
        // replace every use of one location, so that the amount of locations stays the same
        let Some(p) = pick_s(rng, loc_paths(d, "job-place")) else { return false };
        let old = ptr_mut(d, &p).clone();
        let all: Vec<String> = targets_all(d);
        for q in all {
            if *ptr_mut(d, &q) == old {
                *ptr_mut(d, &q) = json!({"index": n});
            }
        }
        true
    });
    fn targets_all(d: &Doc) -> Vec<String> {
        ["job-place", "shift-start", "shift-end", "break-place", "reload", "recharge-station"].iter().flat_map(|t| loc_paths(d, t)).collect()
    }
    c.add("matrix-larger-than-needed", "matrices[].distances", "E1504", Near, |d, rng| {
        let Some(n) = matrix_size(d) else { return false };
        resize_matrices(d, n + *rng.pick(&[1usize, 3]));
        true
    });
    c.add("matrix-larger-sparse-index", "plan.jobs[].<tasks>[].places[].location", "E1504", Near, |d, rng| {
        let Some(n) = matrix_size(d) else { return false };
        if !uses_indices(d) {
            return false;
        }
        resize_matrices(d, n + 5);
        let Some(p) = pick_s(rng, loc_paths(d, "job-place")) else { return false };
        let old = ptr_mut(d, &p).clone();
        for q in targets_all(d) {
            if *ptr_mut(d, &q) == old {
                *ptr_mut(d, &q) = json!({"index": n + 4});
            }
        }
        true
    });
    c.add("location-indices-sparse-same-matrix", "plan.jobs[].<tasks>[].places[].location", "E1504", Near, |d, rng| {
        // one location merged into another: fewer distinct indices than the matrix has rows, max index unchanged or lower
        let Some(n) = matrix_size(d) else { return false };
        if !uses_indices(d) || n < 4 {
            return false;
        }
        let (from, to) = (json!({"index": rng.usize_below(n - 1)}), json!({"index": n - 1}));
        let mut hit = false;
        for q in targets_all(d) {
            if *ptr_mut(d, &q) == from {
                *ptr_mut(d, &q) = to.clone();
                hit = true;
            }
        }
        hit
    });
    // E0002 and matrix fields
    type MEdit = fn(&mut Doc, &mut Rng) -> bool;
    let medits: Vec<(&'static str, &'static str, &'static str, Role, MEdit)> = vec![
        ("matrix-timestamp-on-some", "matrices[].timestamp", "E0002", Breaker, |d, _| {
            if d.matrices.len() < 2 || d.matrices.iter().any(|m| m.get("timestamp").is_some()) {
                return false;
            }
            d.matrices[0]["timestamp"] = json!(t(0));
            true
        }),
        ("matrix-timestamp-missing-on-one", "matrices[].timestamp", "E0002", Breaker, |d, _| {
            if d.matrices.len() < 2 || d.matrices.iter().any(|m| m.get("timestamp").is_none()) {
                return false;
            }
            let last = d.matrices.len() - 1;
            obj(&mut d.matrices[last]).remove("timestamp");
            true
        }),
        ("matrix-profile-on-some", "matrices[].profile", "E0002", Breaker, |d, _| {
            if d.matrices.len() < 2 || d.matrices.iter().any(|m| m.get("timestamp").is_some() || m.get("profile").is_none()) {
                return false;
            }
            obj(&mut d.matrices[1]).remove("profile");
            true
        }),
        ("matrix-timestamps-without-profile", "matrices[].profile", "E0002", Breaker, |d, _| {
            if d.matrices.is_empty() || d.matrices.iter().any(|m| m.get("timestamp").is_none()) {
                return false;
            }
            obj(&mut d.matrices[0]).remove("profile");
            true
        }),
        ("matrix-missing-for-profile", "matrices", "E0002", Near, |d, _| {
            if d.matrices.len() < 2 || d.matrices.iter().any(|m| m.get("timestamp").is_some()) {
                return false;
            }
            d.matrices.pop();
            true
        }),
        ("matrix-for-undeclared-profile", "matrices[].profile", "E0002", Near, |d, _| {
            if d.matrices.is_empty() || d.matrices.iter().any(|m| m.get("timestamp").is_some() || m.get("profile").is_none()) {
                return false;
            }
            let mut m = d.matrices[0].clone();
            m["profile"] = json!("undeclared");
            d.matrices.push(m);
            true
        }),
        ("matrix-profile-renamed-unknown", "matrices[].profile", "E0002", Near, |d, _| {
            if d.matrices.is_empty() || d.matrices[0].get("profile").is_none() {
                return false;
            }
            d.matrices[0]["profile"] = json!("undeclared");
            true
        }),
        ("matrix-duplicate-for-profile", "matrices", "E0002", Near, |d, _| {
            if d.matrices.is_empty() || d.matrices.iter().any(|m| m.get("timestamp").is_some()) {
                return false;
            }
            let m = d.matrices[0].clone();
            d.matrices.push(m);
            true
        }),
        ("matrix-timestamps-equal", "matrices[].timestamp", "E0002", Near, |d, _| {
            if d.matrices.len() < 2 || d.matrices.iter().any(|m| m.get("timestamp").is_none()) {
                return false;
            }
            let ts = d.matrices[0]["timestamp"].clone();
            d.matrices[1]["timestamp"] = ts;
            true
        }),
        ("matrix-timestamp-unparsable", "matrices[].timestamp", "", Field, |d, rng| {
            if d.matrices.is_empty() || d.matrices.iter().any(|m| m.get("timestamp").is_none()) {
                return false;
            }
            let i = rng.usize_below(d.matrices.len());
            d.matrices[i]["timestamp"] = json!(bad_time(rng));
            true
        }),
        ("matrix-single-with-unparsable-timestamp", "matrices[].timestamp", "", Field, |d, rng| {
            if d.matrices.len() != 1 || d.matrices[0].get("profile").is_none() {
                return false;
            }
            d.matrices[0]["timestamp"] = json!(bad_time(rng));
            true
        }),
        ("matrix-single-with-timestamp", "matrices[].timestamp", "", Field, |d, _| {
            if d.matrices.len() != 1 || d.matrices[0].get("profile").is_none() {
                return false;
            }
            d.matrices[0]["timestamp"] = json!(t(0));
            true
        }),
        ("matrix-non-square", "matrices[].distances", "", Field, |d, rng| {
            if d.matrices.is_empty() {
                return false;
            }
            let i = rng.usize_below(d.matrices.len());
            for k in ["distances", "travelTimes", "errorCodes"] {
                if let Some(a) = d.matrices[i].get_mut(k).and_then(|a| a.as_array_mut()) {
                    a.pop();
                }
            }
            true
        }),
        ("matrix-travel-times-shorter", "matrices[].travelTimes", "", Field, |d, rng| {
            if d.matrices.is_empty() {
                return false;
            }
            let i = rng.usize_below(d.matrices.len());
            let a = d.matrices[i]["travelTimes"].as_array_mut().unwrap();
            let keep = a.len() / 2;
            a.truncate(keep);
            true
        }),
        ("matrix-distances-longer", "matrices[].distances", "", Field, |d, _| {
            if d.matrices.is_empty() {
                return false;
            }
            let a = d.matrices[0]["distances"].as_array_mut().unwrap();
            let n = a.len();
            a.extend((0..n).map(|_| json!(1)));
            true
        }),
        ("matrix-empty-arrays", "matrices[].distances", "", Field, |d, _| {
            if d.matrices.is_empty() {
                return false;
            }
            d.matrices[0]["distances"] = json!([]);
            d.matrices[0]["travelTimes"] = json!([]);
            obj(&mut d.matrices[0]).remove("errorCodes");
            true
        }),
        ("matrix-error-codes-shorter", "matrices[].errorCodes", "", Field, |d, _| {
            if d.matrices.is_empty() {
                return false;
            }
            d.matrices[0]["errorCodes"] = json!([0, 0, 1]);
            true
        }),
        ("matrix-error-codes-empty", "matrices[].errorCodes", "", Field, |d, _| {
            if d.matrices.is_empty() {
                return false;
            }
            d.matrices[0]["errorCodes"] = json!([]);
            true
        }),
        ("matrix-error-codes-all-set", "matrices[].errorCodes", "", Field, |d, _| {
            if d.matrices.is_empty() {
                return false;
            }
            let n = d.matrices[0]["distances"].as_array().unwrap().len();
            d.matrices[0]["errorCodes"] = json!(vec![1; n]);
            true
        }),
        ("matrix-error-codes-negative", "matrices[].errorCodes", "", Field, |d, _| {
            if d.matrices.is_empty() {
                return false;
            }
            let n = d.matrices[0]["distances"].as_array().unwrap().len();
            d.matrices[0]["errorCodes"] = json!((0..n).map(|i| if i % 7 == 3 { i64::MIN } else { 0 }).collect::<Vec<_>>());
            true
        }),
        ("matrix-negative-values", "matrices[].distances", "", Field, |d, _| {
            if d.matrices.is_empty() {
                return false;
            }
            for k in ["distances", "travelTimes"] {
                for (i, x) in d.matrices[0][k].as_array_mut().unwrap().iter_mut().enumerate() {
                    if i % 3 == 1 {
                        *x = json!(-(x.as_i64().unwrap_or(1)) - 1);
                    }
                }
            }
            true
        }),
        ("matrix-i64-extremes", "matrices[].distances", "", Field, |d, _| {
            if d.matrices.is_empty() {
                return false;
            }
            for k in ["distances", "travelTimes"] {
                for (i, x) in d.matrices[0][k].as_array_mut().unwrap().iter_mut().enumerate() {
                    if i % 5 == 2 {
                        *x = json!(if i % 2 == 0 { i64::MAX } else { i64::MIN });
                    }
                }
            }
            true
        }),
        ("matrix-nonzero-diagonal", "matrices[].distances", "", Field, |d, _| {
            let Some(n) = matrix_size(d) else { return false };
            for i in 0..n {
                d.matrices[0]["distances"][i * n + i] = json!(5);
                d.matrices[0]["travelTimes"][i * n + i] = json!(9);
            }
            true
        }),
        ("matrix-durations-alias", "matrices[].travelTimes", "", Field, |d, _| {
            if d.matrices.is_empty() {
                return false;
            }
            let tt = obj(&mut d.matrices[0]).remove("travelTimes").unwrap();
            d.matrices[0]["durations"] = tt;
            true
        }),
        ("matrix-supplied-twice-for-coordinates-without-profile", "matrices[].profile", "", Field, |d, _| {
            if uses_indices(d) || d.matrices.len() != 1 {
                return false;
            }
            obj(&mut d.matrices[0]).remove("profile");
            let m = d.matrices[0].clone();
            d.matrices.push(m);
            true
        }),
    ];
    for (class, field, rule, role, edit) in medits {
        c.add(class, field, rule, role, edit);
    }
}

// ------------------------------------------------------------------ objectives
/// A lexicographic list which obeys E1600–E1607 for this document.
fn plain_objectives(d: &Doc) -> Vec<Value> {
    let jobs = list(&d.problem["plan"], "jobs");
    let valued = jobs.iter().any(|j| j.get("value").is_some());
    let mut o = vec![json!({"type": "minimize-unassigned"})];
    if valued {
        o.push(json!({"type": "maximize-value"}));
    }
    o.push(json!({"type": "minimize-tours"}));
    o.push(json!({"type": "minimize-cost"}));
    o
}

fn has_value_gt_zero(d: &Doc) -> bool {
    list(&d.problem["plan"], "jobs").iter().any(|j| j["value"].as_f64().is_some_and(|v| v != 0.))
}

fn has_order(d: &Doc) -> bool {
    list(&d.problem["plan"], "jobs").iter().any(|j| TASK_KINDS.iter().any(|k| list(j, k).iter().any(|t| t["order"].as_i64().is_some_and(|o| o != 0))))
}

fn multi(objs: Vec<Value>) -> Value {
    json!({"type": "multi-objective", "strategy": {"name": "sum"}, "objectives": objs})
}

fn catalogue_objectives(c: &mut Cat) {
    use Role::*;
    type OBuild = fn(&Doc, &mut Rng) -> Option<Vec<Value>>;
    let cost = || json!({"type": "minimize-cost"});
    let _ = cost;
    let lists: Vec<(&'static str, &'static str, Role, OBuild)> = vec![
        ("objectives-empty-list", "E1600", Breaker, |_, _| Some(vec![])),
        ("objectives-plain-valid", "E1600", Near, |d, _| Some(plain_objectives(d))),
        ("objective-duplicate", "E1601", Breaker, |d, r| {
            let mut o = plain_objectives(d);
            let dup = o[r.usize_below(o.len() - 1)].clone(); // never the cost objective
            o.insert(r.usize_below(o.len()), dup);
            Some(o)
        }),
        ("objective-duplicate-last-two", "E1601", Breaker, |d, _| {
            let mut o = plain_objectives(d);
            o.push(json!({"type": "minimize-arrival-time"}));
            o.push(json!({"type": "minimize-arrival-time"}));
            Some(o)
        }),
        ("objective-duplicate-different-parameters", "E1601", Breaker, |d, _| {
            let mut o = plain_objectives(d);
            o.insert(1, json!({"type": "minimize-unassigned", "breaks": 2.0}));
            Some(o)
        }),
        ("objective-duplicate-across-layer", "E1601", Breaker, |d, _| {
            let mut o = plain_objectives(d);
            let n = o.len();
            o[n - 2] = multi(vec![json!({"type": "minimize-tours"}), json!({"type": "minimize-unassigned"})]);
            Some(o)
        }),
        ("objective-duplicate-within-layer", "E1601", Breaker, |d, _| {
            let mut o = plain_objectives(d);
            let n = o.len();
            o[n - 2] = multi(vec![json!({"type": "balance-distance"}), json!({"type": "balance-distance"})]);
            Some(o)
        }),
        ("objective-duplicate-cost", "E1601", Breaker, |d, _| {
            let mut o = plain_objectives(d);
            o.push(json!({"type": "minimize-cost"}));
            Some(o)
        }),
        ("objectives-without-cost", "E1602", Breaker, |d, _| {
            let mut o = plain_objectives(d);
            o.pop();
            Some(o)
        }),
        ("objectives-without-cost-single", "E1602", Breaker, |d, _| if has_value_gt_zero(d) { None } else { Some(vec![json!({"type": "minimize-unassigned"})]) }),
        ("objectives-without-cost-with-layer", "E1602", Breaker, |d, _| {
            let mut o = plain_objectives(d);
            o.pop();
            o.push(multi(vec![json!({"type": "balance-distance"}), json!({"type": "balance-duration"})]));
            Some(o)
        }),
        ("objectives-cost-inside-layer", "E1602", Near, |d, _| {
            let mut o = plain_objectives(d);
            o.pop();
            o.push(multi(vec![json!({"type": "minimize-distance"}), json!({"type": "balance-max-load"})]));
            Some(o)
        }),
        ("objectives-cost-only", "E1602", Near, |d, r| if has_value_gt_zero(d) { None } else { Some(vec![json!({"type": *r.pick(&["minimize-cost", "minimize-distance", "minimize-duration"])})]) }),
        ("objectives-two-different-costs", "E1606", Breaker, |d, _| {
            let mut o = plain_objectives(d);
            o.push(json!({"type": "minimize-distance"}));
            Some(o)
        }),
        ("objectives-three-costs", "E1606", Breaker, |d, _| {
            let mut o = plain_objectives(d);
            o.push(json!({"type": "minimize-distance"}));
            o.push(json!({"type": "minimize-duration"}));
            Some(o)
        }),
        ("objectives-two-costs-across-layer", "E1606", Breaker, |d, _| {
            let mut o = plain_objectives(d);
            o.insert(1, multi(vec![json!({"type": "minimize-duration"}), json!({"type": "balance-activities"})]));
            Some(o)
        }),
        ("objectives-two-costs-within-layer", "E1606", Breaker, |d, _| {
            let mut o = plain_objectives(d);
            o.pop();
            o.push(multi(vec![json!({"type": "minimize-duration"}), json!({"type": "minimize-distance"})]));
            Some(o)
        }),
        ("value-objective-without-valued-jobs", "E1603", Breaker, |d, _| {
            if list(&d.problem["plan"], "jobs").iter().any(|j| j.get("value").is_some()) {
                return None;
            }
            let mut o = plain_objectives(d);
            o.insert(1, json!({"type": "maximize-value"}));
            Some(o)
        }),
        ("value-objective-inside-layer-without-valued-jobs", "E1603", Breaker, |d, _| {
            if list(&d.problem["plan"], "jobs").iter().any(|j| j.get("value").is_some()) {
                return None;
            }
            let mut o = plain_objectives(d);
            o[0] = multi(vec![json!({"type": "minimize-unassigned"}), json!({"type": "maximize-value"})]);
            Some(o)
        }),
        ("order-objective-without-ordered-tasks", "E1604", Breaker, |d, _| {
            if list(&d.problem["plan"], "jobs").iter().any(|j| TASK_KINDS.iter().any(|k| list(j, k).iter().any(|t| t.get("order").is_some()))) {
                return None;
            }
            let mut o = plain_objectives(d);
            o.insert(1, json!({"type": "tour-order"}));
            Some(o)
        }),
        ("order-objective-inside-layer-without-ordered-tasks", "E1604", Breaker, |d, _| {
            if list(&d.problem["plan"], "jobs").iter().any(|j| TASK_KINDS.iter().any(|k| list(j, k).iter().any(|t| t.get("order").is_some()))) {
                return None;
            }
            let mut o = plain_objectives(d);
            let n = o.len();
            o[n - 2] = multi(vec![json!({"type": "minimize-tours"}), json!({"type": "tour-order"})]);
            Some(o)
        }),
        ("order-objective-inside-layer-with-ordered-tasks", "E1604", Near, |d, _| {
            if !has_order(d) {
                return None;
            }
            let mut o = plain_objectives(d);
            let n = o.len();
            o[n - 2] = multi(vec![json!({"type": "minimize-tours"}), json!({"type": "tour-order"})]);
            Some(o)
        }),
        ("order-objective-with-ordered-tasks", "E1604", Near, |d, r| {
            if !has_order(d) {
                return None;
            }
            let mut o = plain_objectives(d);
            o.insert(1, if r.chance(0.5) { json!({"type": "tour-order"}) } else { json!({"type": "tour-order", "isConstrained": false}) });
            Some(o)
        }),
        ("valued-jobs-without-value-objective", "E1607", Breaker, |d, _| {
            if !has_value_gt_zero(d) {
                return None;
            }
            Some(plain_objectives(d).into_iter().filter(|o| o["type"] != "maximize-value").collect())
        }),
        ("value-objective-inside-layer", "E1607", Near, |d, _| {
            if !has_value_gt_zero(d) {
                return None;
            }
            let mut o: Vec<Value> = plain_objectives(d).into_iter().filter(|o| o["type"] != "maximize-value").collect();
            o[0] = multi(vec![json!({"type": "minimize-unassigned"}), json!({"type": "maximize-value"})]);
            Some(o)
        }),
        ("value-objective-with-parameters", "E1607", Near, |d, _| {
            if !has_value_gt_zero(d) {
                return None;
            }
            let mut o: Vec<Value> = plain_objectives(d).into_iter().filter(|o| o["type"] != "maximize-value").collect();
            o.insert(0, json!({"type": "maximize-value", "breaks": 50.0}));
            Some(o)
        }),
        ("multi-objective-layer-of-objective-only-members", "", Field, |d, r| {
            let mut o: Vec<Value> = plain_objectives(d).into_iter().filter(|o| o["type"] != "minimize-tours").collect();
            let pair = *r.pick(&[("minimize-tours", "minimize-arrival-time"), ("maximize-tours", "minimize-arrival-time"), ("minimize-tours", "maximize-tours")]);
            let n = o.len();
            o.insert(n - 1, multi(vec![json!({"type": pair.0}), json!({"type": pair.1})]));
            Some(o)
        }),
        ("multi-objective-layer-unassigned-with-tours", "", Field, |d, _| {
            let mut o: Vec<Value> = plain_objectives(d).into_iter().filter(|o| o["type"] != "minimize-tours" && o["type"] != "minimize-unassigned").collect();
            o.insert(0, multi(vec![json!({"type": "minimize-unassigned"}), json!({"type": "minimize-tours"})]));
            Some(o)
        }),
        ("multi-objective-layer-tours-with-balance", "", Field, |d, r| {
            let mut o: Vec<Value> = plain_objectives(d).into_iter().filter(|o| o["type"] != "minimize-tours").collect();
            let n = o.len();
            o.insert(n - 1, multi(vec![json!({"type": "minimize-tours"}), json!({"type": *r.pick(&["balance-max-load", "balance-activities", "balance-distance", "balance-duration", "fast-service"])})]));
            Some(o)
        }),
        ("objectives-only-one-multi-objective-layer", "", Field, |d, _| Some(vec![multi(plain_objectives(d))])),
        ("objectives-two-multi-objective-layers", "", Field, |d, _| {
            let mut o = plain_objectives(d);
            let cost = o.pop().unwrap();
            Some(vec![multi(o), multi(vec![cost, json!({"type": "balance-max-load"})])])
        }),
        ("multi-objective-empty-layer", "", Field, |d, _| {
            let mut o = plain_objectives(d);
            o.insert(1, multi(vec![]));
            Some(o)
        }),
        ("multi-objective-single-member", "", Field, |d, _| {
            let mut o = plain_objectives(d);
            let cost = o.pop().unwrap();
            o.push(multi(vec![cost]));
            Some(o)
        }),
        ("multi-objective-nested-in-layer", "", Field, |d, _| {
            let mut o = plain_objectives(d);
            let cost = o.pop().unwrap();
            o.push(multi(vec![cost, multi(vec![json!({"type": "balance-distance"}), json!({"type": "balance-duration"})])]));
            Some(o)
        }),
        ("multi-objective-weights-shorter", "", Field, |d, _| {
            let mut o = plain_objectives(d);
            let cost = o.pop().unwrap();
            o.push(json!({"type": "multi-objective", "strategy": {"name": "weighted-sum", "weights": [1.0]}, "objectives": [cost, {"type": "balance-max-load"}]}));
            Some(o)
        }),
        ("multi-objective-weights-longer", "", Field, |d, _| {
            let mut o = plain_objectives(d);
            let cost = o.pop().unwrap();
            o.push(json!({"type": "multi-objective", "strategy": {"name": "weighted-sum", "weights": [1.0, 2.0, 3.0]}, "objectives": [cost, {"type": "balance-max-load"}]}));
            Some(o)
        }),
        ("multi-objective-weights-empty", "", Field, |d, _| {
            let mut o = plain_objectives(d);
            let cost = o.pop().unwrap();
            o.push(json!({"type": "multi-objective", "strategy": {"name": "weighted-sum", "weights": []}, "objectives": [cost, {"type": "balance-max-load"}]}));
            Some(o)
        }),
        ("multi-objective-weights-hostile", "", Field, |d, r| {
            let mut o = plain_objectives(d);
            let cost = o.pop().unwrap();
            let w = r.pick(&[json!([-1.0, -2.0]), json!([0.0, 0.0]), json!([1e300, 1e300]), json!([1e-300, 0.0])]).clone();
            o.push(json!({"type": "multi-objective", "strategy": {"name": "weighted-sum", "weights": w}, "objectives": [cost, {"type": "balance-max-load"}]}));
            Some(o)
        }),
        ("objective-breaks-parameter-hostile", "", Field, |d, r| {
            let mut o = plain_objectives(d);
            o[0] = json!({"type": "minimize-unassigned", "breaks": *r.pick(&[-1.0f64, 0.0, 1e300, 1e-300])});
            Some(o)
        }),
        ("value-objective-breaks-parameter-hostile", "", Field, |d, r| {
            if !has_value_gt_zero(d) {
                return None;
            }
            let mut o: Vec<Value> = plain_objectives(d).into_iter().filter(|o| o["type"] != "maximize-value").collect();
            o.insert(1, json!({"type": "maximize-value", "breaks": *r.pick(&[-1.0f64, 0.0, 1e300])}));
            Some(o)
        }),
        ("compact-tour-radius-zero", "", Field, |d, _| {
            let mut o = plain_objectives(d);
            o.push(json!({"type": "compact-tour", "job_radius": 0}));
            Some(o)
        }),
        ("compact-tour-radius-valid-and-huge", "", Field, |d, r| {
            let mut o = plain_objectives(d);
            o.push(json!({"type": "compact-tour", "job_radius": *r.pick(&[1u64, 2, 1_000_000, u64::MAX])}));
            Some(o)
        }),
        // objectives.md spells the parameters `options: {jobRadius, threshold, distance}`, the model reads `job_radius`:
        // the documented spelling does not deserialise (tabulated as out-of-domain, never a verdict)
        ("compact-tour-documented-spelling", "", Field, |d, _| {
            let mut o = plain_objectives(d);
            o.push(json!({"type": "compact-tour", "options": {"jobRadius": 2, "threshold": 2, "distance": 0.1}}));
            Some(o)
        }),
        ("hierarchical-areas-levels", "", Field, |d, r| {
            let mut o = plain_objectives(d);
            o.push(json!({"type": "hierarchical-areas", "levels": *r.pick(&[0u64, 1, 2, 3])}));
            Some(o)
        }),
        ("objectives-every-scalar-type-once", "", Field, |d, _| {
            let mut o = plain_objectives(d);
            for ty in ["maximize-tours", "minimize-arrival-time", "fast-service", "balance-max-load", "balance-activities", "balance-distance", "balance-duration"] {
                o.push(json!({"type": ty}));
            }
            Some(o)
        }),
        ("objectives-minimize-and-maximize-tours", "", Field, |d, _| {
            let mut o = plain_objectives(d);
            o.push(json!({"type": "maximize-tours"}));
            Some(o)
        }),
    ];
    for (class, rule, role, build) in lists {
        c.add(class, "objectives", rule, role, move |d, rng| {
            let Some(o) = build(d, rng) else { return false };
            d.problem["objectives"] = Value::Array(o);
            true
        });
    }
    c.add("value-objective-all-job-values-zero", "plan.jobs[].value", "E1603", Breaker, |d, _| {
        if !list(&d.problem, "objectives").iter().any(|o| o["type"] == "maximize-value") {
            return false;
        }
        for j in d.problem["plan"]["jobs"].as_array_mut().unwrap() {
            if j.get("value").is_some() {
                j["value"] = json!(0.0);
            }
        }
        true
    });
    c.add("value-objective-job-values-removed", "plan.jobs[].value", "E1603", Breaker, |d, _| {
        if !list(&d.problem, "objectives").iter().any(|o| o["type"] == "maximize-value") {
            return false;
        }
        for j in d.problem["plan"]["jobs"].as_array_mut().unwrap() {
            obj(j).remove("value");
        }
        true
    });
    c.add("order-objective-task-orders-removed", "plan.jobs[].<tasks>[].order", "E1604", Breaker, |d, _| {
        if !list(&d.problem, "objectives").iter().any(|o| o["type"] == "tour-order") {
            return false;
        }
        for j in d.problem["plan"]["jobs"].as_array_mut().unwrap() {
            for k in TASK_KINDS {
                if let Some(ts) = j.get_mut(k).and_then(|x| x.as_array_mut()) {
                    for tk in ts {
                        obj(tk).remove("order");
                    }
                }
            }
        }
        true
    });
    c.add("job-value-added-under-custom-objectives", "plan.jobs[].value", "E1607", Breaker, |d, rng| {
        if d.problem.get("objectives").is_none() || has_value_gt_zero(d) || list(&d.problem["plan"], "jobs").iter().any(|j| j.get("value").is_some()) {
            return false;
        }
        // objectives without maximize-value (also not nested)
        if d.problem["objectives"].to_string().contains("maximize-value") {
            return false;
        }
        let j = rng.usize_below(n_jobs(d));
        d.problem["plan"]["jobs"][j]["value"] = json!(5.0);
        true
    });
    c.add("job-value-added-under-default-objectives", "plan.jobs[].value", "E1607", Near, |d, rng| {
        if d.problem.get("objectives").is_some() {
            return false;
        }
        let j = rng.usize_below(n_jobs(d));
        d.problem["plan"]["jobs"][j]["value"] = json!(5.0);
        true
    });
}

// ------------------------------------------------------------------ clustering
fn catalogue_clustering(c: &mut Cat) {
    use Role::*;
    fn base(d: &Doc) -> Value {
        let p = d.problem["fleet"]["profiles"][0]["name"].clone();
        json!({"type": "vicinity", "profile": {"matrix": p}, "threshold": {"duration": 30.0, "distance": 20.0, "minSharedTime": 10.0, "smallestTimeWindow": 5.0, "maxJobsPerCluster": 3},
               "visiting": "continue", "serving": {"type": "original", "parking": 5.0}})
    }
    type CEdit = fn(&Doc, &mut Value, &mut Rng);
    let edits: Vec<(&'static str, &'static str, Role, CEdit)> = vec![
        ("clustering-valid", "", Field, |_, c, r| c["visiting"] = json!(*r.pick(&["continue", "return"]))),
        ("clustering-profile-unknown", "E1505", Breaker, |_, c, _| c["profile"]["matrix"] = json!("no_such_profile")),
        ("clustering-profile-scale-hostile", "", Field, |_, c, r| c["profile"]["scale"] = json!(*r.pick(&[0.0f64, -1.0, 1e300]))),
        ("clustering-threshold-duration-hostile", "", Field, |_, c, r| c["threshold"]["duration"] = json!(*r.pick(&[0.0f64, -1.0, 1e300]))),
        ("clustering-threshold-distance-hostile", "", Field, |_, c, r| c["threshold"]["distance"] = json!(*r.pick(&[0.0f64, -1.0, 1e300]))),
        ("clustering-min-shared-time-hostile", "", Field, |_, c, r| c["threshold"]["minSharedTime"] = json!(*r.pick(&[0.0f64, -1.0, 1e300]))),
        ("clustering-smallest-time-window-hostile", "", Field, |_, c, r| c["threshold"]["smallestTimeWindow"] = json!(*r.pick(&[0.0f64, -1.0, 1e300]))),
        ("clustering-max-jobs-per-cluster-hostile", "", Field, |_, c, r| c["threshold"]["maxJobsPerCluster"] = json!(*r.pick(&[0u64, 1, u64::MAX]))),
        ("clustering-optional-thresholds-omitted", "", Field, |_, c, _| c["threshold"] = json!({"duration": 30.0, "distance": 20.0})),
        ("clustering-serving-multiplier-hostile", "", Field, |_, c, r| c["serving"] = json!({"type": "multiplier", "value": *r.pick(&[0.0f64, -1.0, 1e300, 0.5]), "parking": 5.0})),
        ("clustering-serving-fixed-hostile", "", Field, |_, c, r| c["serving"] = json!({"type": "fixed", "value": *r.pick(&[0.0f64, -1.0, 1e300, 3.0]), "parking": 5.0})),
        ("clustering-parking-hostile", "", Field, |_, c, r| c["serving"] = json!({"type": "original", "parking": *r.pick(&[0.0f64, -1.0, 1e300])})),
        ("clustering-exclude-empty-list", "", Field, |_, c, _| c["filtering"] = json!({"excludeJobIds": []})),
        ("clustering-exclude-unknown-and-duplicate-ids", "", Field, |d, c, _| c["filtering"] = json!({"excludeJobIds": ["no_such_job", "no_such_job", d.problem["plan"]["jobs"][0]["id"], d.problem["plan"]["jobs"][0]["id"]]})),
        ("clustering-exclude-all-jobs", "", Field, |d, c, _| c["filtering"] = json!({"excludeJobIds": list(&d.problem["plan"], "jobs").iter().map(|j| j["id"].clone()).collect::<Vec<_>>()})),
    ];
    for (class, rule, role, edit) in edits {
        c.add(class, "plan.clustering", rule, role, move |d, rng| {
            let mut cl = if d.problem["plan"].get("clustering").is_some() && rng.chance(0.5) { d.problem["plan"]["clustering"].clone() } else { base(d) };
            let snapshot = d.clone();
            edit(&snapshot, &mut cl, rng);
            d.problem["plan"]["clustering"] = cl;
            true
        });
    }
}
