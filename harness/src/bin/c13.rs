//! C13 – scientific instance files are read faithfully (exploration, reference model).
//!
//! A generated instance model `I` is printed in the Solomon, Li&Lim and TSPLIB (CVRP, EUC_2D) grammars, parsed
//! with the real public readers (`read_solomon` / `read_lilim` / `read_tsplib`, rounded and not rounded, through the
//! `String` impl, the `BufReader` impl and vrp-cli's `get_formats` table) and the returned core `Problem` is compared
//! field by field with `I` by an oracle that only knows the file's numbers. Second clause: a constructive solve of the
//! parsed problem is replayed against the FILE's numbers by an own simulation. Third clause: complete solutions are
//! written with `write_solomon` / `write_tsplib` and read back with `read_init_solution`.
//!
//! The readers print two log lines per parse through a hard-wired `println!` logger; to keep the check's
//! output readable the binary re-executes itself once and drops exactly those lines (see `filter_child`).

use serde_json::{Value, json};
use std::collections::{BTreeMap, BTreeSet, HashMap};
use std::io::{BufRead, BufReader, BufWriter, Write};
use std::sync::{Arc, Condvar, Mutex};
use vverif::{Rng, Run, clip, mix, par_for};

use vrp_core::construction::features::{JobDemandDimension, VehicleCapacityDimension};
use vrp_core::construction::heuristics::{ActivityContext, InsertionContext, MoveContext, RouteContext};
use vrp_core::models::common::{Schedule, SingleDimLoad, TimeSpan, TimeWindow};
use vrp_core::models::problem::{Job, JobIdDimension, Single, TravelTime};
use vrp_core::models::solution::{Activity, Place as TourPlace, Registry, Route, Tour};
use vrp_core::models::{Problem, Solution};
use vrp_core::rosomaxa::evolution::TelemetryMode;
use vrp_core::solver::search::*;
use vrp_core::solver::{
    ElitismPopulation, RefinementContext, Solver, TargetHeuristicGroup, TargetSearchOperator, VrpConfigBuilder, create_default_heuristic_operator,
    create_scalar_operator_probability, get_static_heuristic_from_heuristic_group,
};
use vrp_core::utils::{DefaultRandom, Environment, Parallelism, Random};
use vrp_scientific::common::{CoordIndexExtraProperty, read_init_solution};
use vrp_scientific::lilim::LilimProblem;
use vrp_scientific::solomon::{SolomonProblem, SolomonSolution};
use vrp_scientific::tsplib::{TsplibProblem, TsplibSolution};

// ---------------------------------------------------------------------------------------------
// instance model

#[derive(Clone, Copy, Debug, PartialEq, Eq, Hash, PartialOrd, Ord)]
enum Fmt {
    Solomon,
    Lilim,
    Tsplib,
}

impl Fmt {
    fn name(self) -> &'static str {
        match self {
            Fmt::Solomon => "solomon",
            Fmt::Lilim => "lilim",
            Fmt::Tsplib => "tsplib",
        }
    }
    fn timed(self) -> bool {
        self != Fmt::Tsplib
    }
}

/// One line of the file. `demand` is signed for Li&Lim (pickup > 0, delivery < 0); `partner` is the sibling's
/// number for Li&Lim (0 = none). For TSPLIB `id` is the node number (1-based).
#[derive(Clone, Debug)]
struct Node {
    id: usize,
    x: i32,
    y: i32,
    demand: i32,
    ready: i32,
    due: i32,
    service: i32,
    partner: usize,
}

#[derive(Clone, Debug)]
struct Style {
    sep: u8,        // 0 aligned columns, 1 single space (+ trailing space), 2 tab, 3 mixed runs of blanks/tabs
    crlf: bool,     // \r\n line ends
    final_nl: bool, // file ends with a line end
    float_fmt: u8,  // TSPLIB coordinates: 0 int, 1 "x.0", 2 "x.00000", 3 "x.xxxxxe+NN", 4 mixed per value
    colon: u8,      // TSPLIB "KEY : v" / "KEY: v" / "KEY :v"
    lead: bool,     // TSPLIB rows start with a blank (as A-n32-k5)
    trail: bool,    // TSPLIB section names / rows end with a blank (as A-n32-k5)
    ws_seed: u64,
    name: String,
}

#[derive(Clone, Debug)]
struct Inst {
    fmt: Fmt,
    vehicles: usize,
    capacity: i32,
    depot: Node,
    customers: Vec<Node>,      // ascending id
    planted: Vec<Vec<usize>>,  // routes (customer ids) that are feasible by construction under exact Euclid
    style: Style,
}

impl Inst {
    fn cust(&self, id: usize) -> Option<&Node> {
        self.customers.iter().find(|c| c.id == id)
    }
    fn nodes(&self) -> impl Iterator<Item = &Node> {
        std::iter::once(&self.depot).chain(self.customers.iter())
    }
    /// Id of the job / task the reader is expected to expose for the customer (see assumptions).
    fn job_id(&self, c: &Node) -> String {
        match self.fmt {
            Fmt::Solomon => c.id.to_string(),
            Fmt::Lilim => format!("c{}", c.id),
            Fmt::Tsplib => (c.id - 1).to_string(),
        }
    }
    fn to_json(&self) -> Value {
        let node = |n: &Node| json!([n.id, n.x, n.y, n.demand, n.ready, n.due, n.service, n.partner]);
        json!({
            "format": self.fmt.name(), "vehicles": self.vehicles, "capacity": self.capacity,
            "columns": "id,x,y,demand,ready,due,service,partner",
            "depot": node(&self.depot),
            "customers": self.customers.iter().map(node).collect::<Vec<_>>(),
        })
    }
}

// ---------------------------------------------------------------------------------------------
// oracle arithmetic: Euclid and rounded Euclid from the file's integer coordinates

fn sq_dist(a: &Node, b: &Node) -> i64 {
    let dx = a.x as i64 - b.x as i64;
    let dy = a.y as i64 - b.y as i64;
    dx * dx + dy * dy
}

fn euclid(n: i64) -> f64 {
    (n as f64).sqrt()
}

/// Nearest integer to sqrt(n), decided in integer arithmetic: (2r-1)^2 <= 4n < (2r+1)^2.
fn euclid_rounded(n: i64) -> f64 {
    let mut r = (n as f64).sqrt().round() as i64;
    let mut guard = 0;
    while (2 * r + 1) * (2 * r + 1) <= 4 * n && guard < 8 {
        r += 1;
        guard += 1;
    }
    while r > 0 && (2 * r - 1) * (2 * r - 1) > 4 * n && guard < 16 {
        r -= 1;
        guard += 1;
    }
    r as f64
}

fn dist(a: &Node, b: &Node, rounded: bool) -> f64 {
    let n = sq_dist(a, b);
    if rounded { euclid_rounded(n) } else { euclid(n) }
}

// ---------------------------------------------------------------------------------------------
// generators

struct Base {
    coords: Vec<(i32, i32)>, // [0] depot, 1..=n customers
    grid: &'static str,
    dup: bool,
}

fn gen_base(rng: &mut Rng) -> Base {
    let n = if rng.chance(0.25) { rng.range_usize(3, 8) } else { rng.range_usize(3, 40) };
    let (grid, lo, hi) = match rng.weighted(&[0.25, 0.42, 0.13, 0.1, 0.1]) {
        0 => ("small", 0, 12),
        1 => ("classic", 0, 100),
        2 => ("large", 0, 20_000),
        3 => ("signed", -60, 60),
        _ => ("huge", 0, 1_000_000),
    };
    let p_dup = *rng.pick(&[0.0, 0.1, 0.35]);
    let mut coords: Vec<(i32, i32)> = Vec::with_capacity(n + 1);
    let mut dup = false;
    for i in 0..=n {
        if i > 0 && rng.chance(p_dup) {
            let j = rng.usize_below(i);
            coords.push(coords[j]);
        } else {
            coords.push((rng.range_i64(lo, hi) as i32, rng.range_i64(lo, hi) as i32));
        }
        if coords[..i].contains(&coords[i]) {
            dup = true;
        }
    }
    Base { coords, grid, dup }
}

fn gen_style(rng: &mut Rng) -> Style {
    Style {
        sep: rng.weighted(&[0.4, 0.2, 0.2, 0.2]) as u8,
        crlf: rng.chance(0.1),
        final_nl: rng.chance(0.6),
        float_fmt: rng.weighted(&[0.3, 0.15, 0.25, 0.1, 0.2]) as u8,
        colon: rng.weighted(&[0.6, 0.25, 0.15]) as u8,
        lead: rng.chance(0.4),
        trail: rng.chance(0.4),
        ws_seed: rng.next_u64(),
        name: format!("G{}", rng.below(100_000)),
    }
}

/// Splits `order` into consecutive routes of random length.
fn split_routes(rng: &mut Rng, order: &[usize], max_len: usize) -> Vec<Vec<usize>> {
    let mut routes = vec![];
    let mut i = 0;
    while i < order.len() {
        let len = rng.range_usize(1, max_len.max(1)).min(order.len() - i);
        routes.push(order[i..i + len].to_vec());
        i += len;
    }
    routes
}

/// Gives every customer a window and the depot a horizon such that the planted routes are feasible under exact
/// Euclidean travel times (service starts at max(arrival, ready); arrival <= due).
fn plant_windows(rng: &mut Rng, depot: &mut Node, customers: &mut [Node], routes: &[Vec<usize>]) {
    let width_mode = rng.weighted(&[0.35, 0.3, 0.15, 0.2]);
    depot.ready = if rng.chance(0.8) { 0 } else { rng.range_i64(1, 40) as i32 };
    let mut horizon: f64 = depot.ready as f64;
    for route in routes {
        let mut t = depot.ready as f64;
        let mut prev = depot.clone();
        for &id in route {
            let idx = customers.iter().position(|c| c.id == id).expect("planted id");
            let arr = t + dist(&prev, &customers[idx], false);
            let w = |rng: &mut Rng| -> i64 {
                let m = if width_mode == 3 { rng.usize_below(3) } else { width_mode };
                match m {
                    0 => rng.range_i64(0, 2),
                    1 => rng.range_i64(0, 40),
                    _ => rng.range_i64(0, 600),
                }
            };
            let ready = if rng.chance(0.2) { arr.ceil() as i64 + rng.range_i64(1, 15) } else { (arr.floor() as i64 - w(rng)).max(0) };
            let start = arr.max(ready as f64);
            let due = start.ceil() as i64 + w(rng);
            let c = &mut customers[idx];
            c.ready = ready as i32;
            c.due = due as i32;
            t = start + c.service as f64;
            prev = c.clone();
        }
        horizon = horizon.max(t + dist(&prev, depot, false));
    }
    let slack = if rng.chance(0.6) { rng.range_i64(0, 3) } else { rng.range_i64(50, 1000) };
    depot.due = horizon.ceil() as i32 + slack as i32;
}

fn gen_service(rng: &mut Rng, n: usize) -> Vec<i32> {
    match rng.weighted(&[0.15, 0.25, 0.15, 0.45]) {
        0 => vec![0; n],
        1 => vec![10; n],
        2 => vec![90; n],
        _ => (0..n).map(|_| rng.range_i64(0, 30) as i32).collect(),
    }
}

fn gen_solomon(rng: &mut Rng, base: &Base) -> Inst {
    let n = base.coords.len() - 1;
    let service = gen_service(rng, n);
    let mut customers: Vec<Node> = (1..=n)
        .map(|i| Node {
            id: i,
            x: base.coords[i].0,
            y: base.coords[i].1,
            demand: if rng.chance(0.03) { 0 } else { rng.range_i64(1, 40) as i32 },
            ready: 0,
            due: 0,
            service: service[i - 1],
            partner: 0,
        })
        .collect();
    let mut depot = Node { id: 0, x: base.coords[0].0, y: base.coords[0].1, demand: 0, ready: 0, due: 0, service: 0, partner: 0 };
    let mut order: Vec<usize> = (1..=n).collect();
    rng.shuffle(&mut order);
    let max_len = *rng.pick(&[3usize, 6, 10, 20]);
    let planted = split_routes(rng, &order, max_len);
    let peak = planted.iter().map(|r| r.iter().map(|id| customers[id - 1].demand).sum::<i32>()).max().unwrap_or(0);
    let capacity = (peak + if rng.chance(0.6) { 0 } else { rng.range_i64(1, 10) as i32 }).max(1);
    plant_windows(rng, &mut depot, &mut customers, &planted);
    let vehicles = planted.len() + rng.usize_below(3);
    Inst { fmt: Fmt::Solomon, vehicles, capacity, depot, customers, planted, style: gen_style(rng) }
}

fn gen_lilim(rng: &mut Rng, base: &Base) -> Inst {
    let n = base.coords.len() - 1;
    let pairs = (n / 2).max(2);
    let m = 2 * pairs;
    let service = gen_service(rng, m);
    let mut customers: Vec<Node> = (1..=m)
        .map(|i| {
            let c = base.coords[1 + (i - 1) % n];
            Node { id: i, x: c.0, y: c.1, demand: 0, ready: 0, due: 0, service: service[i - 1], partner: 0 }
        })
        .collect();
    let mut depot = Node { id: 0, x: base.coords[0].0, y: base.coords[0].1, demand: 0, ready: 0, due: 0, service: 0, partner: 0 };
    let mut ids: Vec<usize> = (1..=m).collect();
    rng.shuffle(&mut ids);
    let pair_list: Vec<(usize, usize)> = ids.chunks(2).map(|c| (c[0], c[1])).collect();
    for &(p, d) in pair_list.iter() {
        let q = rng.range_i64(1, 30) as i32;
        customers[p - 1].demand = q;
        customers[p - 1].partner = d;
        customers[d - 1].demand = -q;
        customers[d - 1].partner = p;
    }
    // routes: groups of pairs, random interleaving with pickup before its delivery
    let max_pairs = *rng.pick(&[1usize, 2, 4, 8]);
    let groups = split_routes(rng, &(0..pair_list.len()).collect::<Vec<_>>(), max_pairs);
    let mut planted = vec![];
    let mut peak = 0;
    for g in groups {
        let mut seq: Vec<usize> = g.iter().flat_map(|&k| [pair_list[k].0, pair_list[k].1]).collect();
        rng.shuffle(&mut seq);
        for &k in g.iter() {
            let (p, d) = pair_list[k];
            let ip = seq.iter().position(|&v| v == p).unwrap();
            let id = seq.iter().position(|&v| v == d).unwrap();
            if id < ip {
                seq.swap(ip, id);
            }
        }
        let mut load = 0;
        for id in seq.iter() {
            load += customers[id - 1].demand;
            peak = peak.max(load);
        }
        planted.push(seq);
    }
    let max_q = customers.iter().map(|c| c.demand).max().unwrap_or(1);
    let capacity = (peak + if rng.chance(0.6) { 0 } else { rng.range_i64(1, 10) as i32 }).max(max_q);
    plant_windows(rng, &mut depot, &mut customers, &planted);
    let vehicles = planted.len() + rng.usize_below(3);
    Inst { fmt: Fmt::Lilim, vehicles, capacity, depot, customers, planted, style: gen_style(rng) }
}

fn gen_tsplib(rng: &mut Rng, base: &Base) -> Inst {
    let n = base.coords.len() - 1;
    let depot_node = if rng.chance(0.45) { 1 } else { rng.range_usize(1, n + 1) };
    let depot = Node { id: depot_node, x: base.coords[0].0, y: base.coords[0].1, demand: 0, ready: 0, due: 0, service: 0, partner: 0 };
    let mut customers = vec![];
    let mut next = 1;
    for node in 1..=n + 1 {
        if node == depot_node {
            continue;
        }
        let c = base.coords[next];
        next += 1;
        customers.push(Node {
            id: node,
            x: c.0,
            y: c.1,
            demand: if rng.chance(0.03) { 0 } else { rng.range_i64(1, 40) as i32 },
            ready: 0,
            due: 0,
            service: 0,
            partner: 0,
        });
    }
    let mut order: Vec<usize> = customers.iter().map(|c| c.id).collect();
    rng.shuffle(&mut order);
    let max_len = *rng.pick(&[3usize, 6, 10, 20]);
    let planted = split_routes(rng, &order, max_len);
    let dem = |id: usize| customers.iter().find(|c| c.id == id).map(|c| c.demand).unwrap_or(0);
    let peak = planted.iter().map(|r| r.iter().map(|&id| dem(id)).sum::<i32>()).max().unwrap_or(0);
    let capacity = (peak + if rng.chance(0.6) { 0 } else { rng.range_i64(1, 10) as i32 }).max(1);
    Inst { fmt: Fmt::Tsplib, vehicles: n + 1, capacity, depot, customers, planted, style: gen_style(rng) }
}

// ---------------------------------------------------------------------------------------------
// printers (the three grammars as read off the bundled files and the readers)

fn join_row(cols: &[String], widths: &[usize], style: &Style, ws: &mut Rng) -> String {
    match style.sep {
        0 => cols.iter().zip(widths.iter()).map(|(c, w)| format!("{c:>w$}", w = *w)).collect::<String>(),
        1 => format!("{} ", cols.join(" ")),
        2 => cols.join("\t"),
        _ => {
            let mut s = String::new();
            if ws.chance(0.5) {
                s.push_str(&" ".repeat(ws.range_usize(1, 4)));
            }
            for (i, c) in cols.iter().enumerate() {
                if i > 0 {
                    if ws.chance(0.3) { s.push('\t') } else { s.push_str(&" ".repeat(ws.range_usize(1, 5))) }
                }
                s.push_str(c);
            }
            if ws.chance(0.3) {
                s.push(' ');
            }
            s
        }
    }
}

fn finish_lines(lines: Vec<String>, style: &Style) -> String {
    let nl = if style.crlf { "\r\n" } else { "\n" };
    let mut s = lines.join(nl);
    if style.final_nl {
        s.push_str(nl);
    }
    s
}

fn print_solomon(inst: &Inst) -> String {
    let st = &inst.style;
    let mut ws = Rng::new(st.ws_seed);
    let mut lines = vec![
        st.name.clone(),
        String::new(),
        "VEHICLE".to_string(),
        "NUMBER     CAPACITY".to_string(),
        join_row(&[inst.vehicles.to_string(), inst.capacity.to_string()], &[4, 12], st, &mut ws),
        String::new(),
        "CUSTOMER".to_string(),
        "CUST NO.  XCOORD.   YCOORD.    DEMAND   READY TIME  DUE DATE   SERVICE   TIME".to_string(),
        String::new(),
    ];
    for n in inst.nodes() {
        let cols: Vec<String> = [n.id as i64, n.x as i64, n.y as i64, n.demand as i64, n.ready as i64, n.due as i64, n.service as i64]
            .iter()
            .map(|v| v.to_string())
            .collect();
        lines.push(join_row(&cols, &[5, 8, 11, 11, 11, 11, 11], st, &mut ws));
    }
    finish_lines(lines, st)
}

fn print_lilim(inst: &Inst) -> String {
    let st = &inst.style;
    let mut ws = Rng::new(st.ws_seed);
    // the bundled files are tab separated; aligned style is mapped onto tabs as well
    let st2 = Style { sep: if st.sep == 0 { 2 } else { st.sep }, ..st.clone() };
    let mut lines = vec![join_row(&[inst.vehicles.to_string(), inst.capacity.to_string(), "1".to_string()], &[0, 0, 0], &st2, &mut ws)];
    for n in inst.nodes() {
        let (pi, di) = if n.demand > 0 { (0, n.partner) } else if n.demand < 0 { (n.partner, 0) } else { (0, 0) };
        let cols: Vec<String> =
            [n.id as i64, n.x as i64, n.y as i64, n.demand as i64, n.ready as i64, n.due as i64, n.service as i64, pi as i64, di as i64]
                .iter()
                .map(|v| v.to_string())
                .collect();
        lines.push(join_row(&cols, &[0; 9], &st2, &mut ws));
    }
    finish_lines(lines, st)
}

fn fmt_coord(v: i32, style: &Style, ws: &mut Rng) -> String {
    let f = if style.float_fmt == 4 { ws.usize_below(4) as u8 } else { style.float_fmt };
    match f {
        0 => v.to_string(),
        1 => format!("{v}.0"),
        2 => format!("{:.5}", v as f64),
        _ => {
            let s = format!("{:.5e}", v as f64); // e.g. 3.80000e1
            let (mant, exp) = s.split_once('e').unwrap_or((&s, "0"));
            let e: i32 = exp.parse().unwrap_or(0);
            format!("{mant}e{}{:02}", if e < 0 { '-' } else { '+' }, e.abs())
        }
    }
}

fn print_tsplib(inst: &Inst) -> String {
    let st = &inst.style;
    let mut ws = Rng::new(st.ws_seed);
    let kv = |k: &str, v: &str| match st.colon {
        0 => format!("{k} : {v}"),
        1 => format!("{k}: {v}"),
        _ => format!("{k} :{v}"),
    };
    let t = if st.trail { " " } else { "" };
    let l = if st.lead { " " } else { "" };
    let mut nodes: Vec<&Node> = inst.nodes().collect();
    nodes.sort_by_key(|n| n.id);
    let mut lines = vec![
        kv("NAME", &st.name),
        kv("COMMENT", &format!("(generated, No of trucks: {}, Optimal value: 0)", inst.planted.len())),
        kv("TYPE", "CVRP"),
        kv("DIMENSION", &nodes.len().to_string()),
        format!("{}{t}", kv("EDGE_WEIGHT_TYPE", "EUC_2D")),
        kv("CAPACITY", &inst.capacity.to_string()),
        format!("NODE_COORD_SECTION{t}"),
    ];
    for n in nodes.iter() {
        let gap = if st.sep == 2 { "\t".to_string() } else if st.sep == 3 { " ".repeat(ws.range_usize(1, 5)) } else { " ".to_string() };
        lines.push(format!("{l}{}{gap}{}{gap}{}{t}", n.id, fmt_coord(n.x, st, &mut ws), fmt_coord(n.y, st, &mut ws)));
    }
    lines.push(format!("DEMAND_SECTION{t}"));
    // every line of a section carries its node id: the sections need not list the nodes in the same order
    let mut by_demand_line = nodes.clone();
    let mut order = Rng::new(st.ws_seed ^ 0x0D3A_4D5E);
    match order.below(10) {
        0 | 1 => order.shuffle(&mut by_demand_line),
        2 => by_demand_line.reverse(),
        _ => {}
    }
    for n in by_demand_line.iter() {
        lines.push(format!("{l}{} {}{t}", n.id, n.demand));
    }
    lines.push(format!("DEPOT_SECTION{t}"));
    lines.push(format!("{l}{}{t}{t}", inst.depot.id));
    lines.push(format!("{l}-1{t}{t}"));
    lines.push(format!("EOF{t}"));
    finish_lines(lines, st)
}

fn print_inst(inst: &Inst) -> String {
    match inst.fmt {
        Fmt::Solomon => print_solomon(inst),
        Fmt::Lilim => print_lilim(inst),
        Fmt::Tsplib => print_tsplib(inst),
    }
}

// ---------------------------------------------------------------------------------------------
// driving the real readers

#[derive(Clone, Copy, Debug, PartialEq, Eq)]
enum Api {
    Str, // impl for String
    Buf, // impl for BufReader<R>
    Cli, // vrp_cli::extensions::solve::formats::get_formats (File based)
}

impl Api {
    fn name(self) -> &'static str {
        match self {
            Api::Str => "String::read_*",
            Api::Buf => "BufReader::read_*",
            Api::Cli => "vrp-cli get_formats",
        }
    }
}

fn tmp_dir() -> std::path::PathBuf {
    let dir = std::env::temp_dir().join(format!("verif-c13-{}", std::process::id()));
    let _ = std::fs::create_dir_all(&dir);
    dir
}

fn quiet_random() -> Arc<dyn Random> {
    Arc::new(DefaultRandom::default())
}

fn parse(fmt: Fmt, text: &str, rounded: bool, api: Api, tag: u64) -> Result<Problem, String> {
    match api {
        Api::Str => match fmt {
            Fmt::Solomon => text.to_string().read_solomon(rounded),
            Fmt::Lilim => text.to_string().read_lilim(rounded),
            Fmt::Tsplib => text.to_string().read_tsplib(rounded),
        }
        .map_err(|e| e.to_string()),
        Api::Buf => match fmt {
            Fmt::Solomon => BufReader::new(text.as_bytes()).read_solomon(rounded),
            Fmt::Lilim => BufReader::new(text.as_bytes()).read_lilim(rounded),
            Fmt::Tsplib => BufReader::new(text.as_bytes()).read_tsplib(rounded),
        }
        .map_err(|e| e.to_string()),
        Api::Cli => {
            let path = tmp_dir().join(format!("p-{tag:016x}-{}-{}.txt", fmt.name(), rounded));
            std::fs::write(&path, text).map_err(|e| format!("harness: cannot write temp file: {e}"))?;
            let file = std::fs::File::open(&path).map_err(|e| format!("harness: cannot open temp file: {e}"))?;
            let formats = vrp_cli::extensions::solve::formats::get_formats(rounded, quiet_random());
            let res = match formats.get(fmt.name()) {
                Some((reader, _, _, _)) => (reader.0)(file, None).map_err(|e| e.to_string()),
                None => Err("harness: format not registered in get_formats".to_string()),
            };
            let _ = std::fs::remove_file(&path);
            res
        }
    }
}

// ---------------------------------------------------------------------------------------------
// clause 1: field-by-field comparison of the parsed problem with the model

struct Mis {
    field: String, // signature component(s), e.g. "demand-missing" or "distance|requested=exact|observed=rounded"
    detail: String,
    at: Option<(usize, usize)>, // clause 2: (route, stop) at which the file's numbers are first broken
}

#[derive(Default)]
struct Handles {
    task_to_customer: HashMap<usize, usize>, // Arc<Single> address -> customer number
    loc_of: HashMap<usize, usize>,           // node number (depot included) -> core Location, only where verified
    flagged: BTreeSet<String>,               // leading field components with a mismatch
}

fn push(mis: &mut Vec<Mis>, field: &str, detail: String) {
    // keep the first few literal examples per field; the count is kept in the detail of the first
    if mis.iter().filter(|m| m.field == field).count() < 1 {
        mis.push(Mis { field: field.to_string(), detail, at: None });
    }
}

fn push_at(mis: &mut Vec<Mis>, field: &str, detail: String, at: (usize, usize)) {
    if mis.iter().filter(|m| m.field == field).count() < 1 {
        mis.push(Mis { field: field.to_string(), detail, at: Some(at) });
    }
}

fn digits_of(id: &str) -> Option<usize> {
    let t = id.trim_start_matches(|c: char| !c.is_ascii_digit());
    if t.is_empty() || !t.chars().all(|c| c.is_ascii_digit()) { None } else { t.parse().ok() }
}

#[derive(Clone, Copy, PartialEq)]
enum DemandKind {
    Static,
    DynPickup,
    DynDelivery,
}

/// Compares one task (core `Single`) with the file line of its customer.
fn check_task(
    inst: &Inst,
    node: &Node,
    single: &Arc<Single>,
    coords: Option<&Vec<(i32, i32)>>,
    static_slots: &mut BTreeSet<&'static str>,
    horizon: f64,
    mis: &mut Vec<Mis>,
    handles: &mut Handles,
) {
    let who = format!("customer {}", node.id);
    handles.task_to_customer.insert(Arc::as_ptr(single) as usize, node.id);
    if single.places.len() != 1 {
        push(mis, "place-shape", format!("{who}: {} places, the file gives exactly one", single.places.len()));
        return;
    }
    let place = &single.places[0];
    // location through the public coord index
    match (place.location, coords) {
        (Some(loc), Some(coords)) => match coords.get(loc) {
            Some(&(x, y)) if (x, y) == (node.x, node.y) => {
                handles.loc_of.insert(node.id, loc);
            }
            Some(&(x, y)) => push(mis, "location", format!("{who}: file ({}, {}), coord index[{loc}] = ({x}, {y})", node.x, node.y)),
            None => push(mis, "location", format!("{who}: location {loc} outside the coord index ({} entries)", coords.len())),
        },
        (None, _) => push(mis, "place-shape", format!("{who}: place without location")),
        (_, None) => {}
    }
    // service time
    let exp_service = if inst.fmt == Fmt::Tsplib { 0. } else { node.service as f64 };
    if place.duration != exp_service {
        push(mis, "service-time", format!("{who}: file {exp_service}, problem {}", place.duration));
    }
    // time window
    if inst.fmt.timed() {
        let ok = place.times.len() == 1
            && matches!(&place.times[0], TimeSpan::Window(tw) if tw.start == node.ready as f64 && tw.end == node.due as f64);
        if !ok {
            push(mis, "time-window", format!("{who}: file [{}, {}], problem {:?}", node.ready, node.due, place.times));
        }
    } else {
        let free = place.times.iter().all(|t| matches!(t, TimeSpan::Window(tw) if tw.start <= 0. && tw.end >= horizon));
        if !free {
            push(mis, "time-window", format!("{who}: TSPLIB CVRP has no windows, problem {:?}", place.times));
        }
    }
    // demand
    let kind = match inst.fmt {
        Fmt::Lilim if node.demand > 0 => DemandKind::DynPickup,
        Fmt::Lilim => DemandKind::DynDelivery,
        _ => DemandKind::Static,
    };
    match single.dimens.get_job_demand::<SingleDimLoad>() {
        None => push(mis, "demand-missing", format!("{who}: file demand {}, task has no demand dimension (get_job_demand = None)", node.demand)),
        Some(d) => {
            let t = (d.pickup.0.value, d.pickup.1.value, d.delivery.0.value, d.delivery.1.value);
            let shown = format!("pickup(static {}, dynamic {}) delivery(static {}, dynamic {})", t.0, t.1, t.2, t.3);
            let change = d.change().value;
            match kind {
                DemandKind::Static => {
                    let q = node.demand;
                    if t.1 != 0 || t.3 != 0 || (t.0 != 0 && t.2 != 0) {
                        push(mis, "demand-kind", format!("{who}: file demand {q} is a plain depot-loaded amount, problem {shown}"));
                    } else {
                        let (v, slot) = if t.2 != 0 { (t.2, "delivery") } else if t.0 != 0 { (t.0, "pickup") } else { (0, "zero") };
                        if v != q {
                            let f = if q != 0 && v == -q { "demand-sign" } else { "demand-value" };
                            push(mis, f, format!("{who}: file demand {q}, problem {shown}"));
                        } else if slot != "zero" {
                            static_slots.insert(slot);
                        }
                    }
                }
                DemandKind::DynPickup | DemandKind::DynDelivery => {
                    let q = node.demand.abs();
                    let exp = if kind == DemandKind::DynPickup { (0, q, 0, 0) } else { (0, 0, 0, q) };
                    if t != exp {
                        let nz = |t: (i32, i32, i32, i32)| [t.0 != 0, t.1 != 0, t.2 != 0, t.3 != 0];
                        let f = if change == -node.demand {
                            "demand-sign"
                        } else if nz(t) != nz(exp) {
                            "demand-kind"
                        } else {
                            "demand-value"
                        };
                        push(
                            mis,
                            f,
                            format!(
                                "{who}: file demand {} => expected pickup(static {}, dynamic {}) delivery(static {}, dynamic {}) i.e. load change {}, problem {shown} i.e. load change {change}",
                                node.demand, exp.0, exp.1, exp.2, exp.3, node.demand
                            ),
                        );
                    }
                }
            }
        }
    }
}

fn compare(inst: &Inst, problem: &Problem, rounded: bool) -> (Vec<Mis>, Handles) {
    let mut mis: Vec<Mis> = vec![];
    let mut handles = Handles::default();
    let coord_index = problem.extras.get_coord_index();
    if coord_index.is_none() {
        push(&mut mis, "coord-index-missing", "extras.get_coord_index() = None".to_string());
    }
    let coords = coord_index.as_ref().map(|c| &c.locations);
    let max_d = inst.nodes().flat_map(|a| inst.nodes().map(move |b| euclid(sq_dist(a, b)))).fold(0., f64::max);
    let horizon = 2. * (inst.customers.len() as f64 + 1.) * (max_d + 1.);
    let mut static_slots: BTreeSet<&'static str> = BTreeSet::new();

    // ---- jobs
    let jobs = problem.jobs.all();
    if problem.jobs.size() != jobs.len() {
        push(&mut mis, "job-count", format!("jobs.size() = {} but jobs.all() has {}", problem.jobs.size(), jobs.len()));
    }
    match inst.fmt {
        Fmt::Solomon | Fmt::Tsplib => {
            let mut by_id: BTreeMap<String, Vec<&Arc<Single>>> = BTreeMap::new();
            for job in jobs.iter() {
                match job {
                    Job::Single(s) => match s.dimens.get_job_id() {
                        Some(id) => by_id.entry(id.clone()).or_default().push(s),
                        None => push(&mut mis, "job-id-missing", "a job without id".to_string()),
                    },
                    Job::Multi(_) => push(&mut mis, "job-kind", "multi job in a format with single-stop customers".to_string()),
                }
            }
            let expected: BTreeMap<String, &Node> = inst.customers.iter().map(|c| (inst.job_id(c), c)).collect();
            let missing: Vec<&String> = expected.keys().filter(|k| !by_id.contains_key(*k)).collect();
            let extra: Vec<&String> = by_id.keys().filter(|k| !expected.contains_key(*k)).collect();
            let dups: Vec<&String> = by_id.iter().filter(|(_, v)| v.len() > 1).map(|(k, _)| k).collect();
            if !missing.is_empty() || !extra.is_empty() || !dups.is_empty() {
                let depot_id = if inst.fmt == Fmt::Solomon { inst.depot.id.to_string() } else { (inst.depot.id - 1).to_string() };
                let hint = if extra.iter().any(|e| **e == depot_id) { " (the depot's number appears as a customer)" } else { "" };
                push(
                    &mut mis,
                    "job-ids",
                    format!("{} customers in the file, {} jobs; ids missing {:?}, unexpected {:?}, duplicated {:?}{hint}", expected.len(), jobs.len(), missing, extra, dups),
                );
            }
            for (id, node) in expected.iter() {
                if let Some(list) = by_id.get(id) {
                    check_task(inst, node, list[0], coords, &mut static_slots, horizon, &mut mis, &mut handles);
                }
            }
            if static_slots.len() > 1 {
                push(&mut mis, "demand-kind", "some customers are static deliveries and others static pickups".to_string());
            }
        }
        Fmt::Lilim => {
            let pickups: Vec<&Node> = inst.customers.iter().filter(|c| c.demand > 0).collect();
            if jobs.len() != pickups.len() {
                push(&mut mis, "job-count", format!("{} pickup-delivery pairs in the file, {} jobs", pickups.len(), jobs.len()));
            }
            let mut covered: BTreeMap<usize, usize> = BTreeMap::new();
            for (pos, job) in jobs.iter().enumerate() {
                let Job::Multi(multi) = job else {
                    push(&mut mis, "job-kind", "single job where a pickup-delivery pair is expected".to_string());
                    continue;
                };
                if multi.jobs.len() != 2 {
                    push(&mut mis, "job-kind", format!("pair job with {} tasks", multi.jobs.len()));
                    continue;
                }
                let ids: Vec<Option<usize>> =
                    multi.jobs.iter().map(|s| s.dimens.get_job_id().and_then(|id| digits_of(id)).filter(|n| inst.cust(*n).is_some())).collect();
                let raw: Vec<Option<&String>> = multi.jobs.iter().map(|s| s.dimens.get_job_id()).collect();
                let (p_node, d_node) = if let (Some(a), Some(b)) = (ids[0], ids[1]) {
                    (inst.cust(a).unwrap(), inst.cust(b).unwrap())
                } else {
                    if raw.iter().any(|r| r.is_none()) {
                        push(
                            &mut mis,
                            "task-id-missing",
                            format!("pair job #{pos}: task ids {:?} - the pickup/delivery tasks carry no customer number", raw),
                        );
                    } else {
                        push(&mut mis, "task-id", format!("pair job #{pos}: task ids {:?} name no customer of the file", raw));
                    }
                    // fall back to the file order of the pickup lines to keep comparing the other fields
                    let idx = multi.dimens.get_job_id().and_then(|id| digits_of(id)).unwrap_or(pos);
                    let Some(p) = pickups.get(idx) else { continue };
                    let Some(d) = inst.cust(p.partner) else { continue };
                    (*p, d)
                };
                if !(p_node.demand > 0 && p_node.partner == d_node.id) {
                    push(
                        &mut mis,
                        "pairing",
                        format!(
                            "pair job #{pos} = tasks (customer {}, customer {}); the file pairs pickup {} with delivery {}",
                            p_node.id,
                            d_node.id,
                            if p_node.demand > 0 { p_node.id } else { p_node.partner },
                            if p_node.demand > 0 { p_node.partner } else { p_node.id }
                        ),
                    );
                }
                *covered.entry(p_node.id).or_default() += 1;
                *covered.entry(d_node.id).or_default() += 1;
                check_task(inst, p_node, &multi.jobs[0], coords, &mut static_slots, horizon, &mut mis, &mut handles);
                check_task(inst, d_node, &multi.jobs[1], coords, &mut static_slots, horizon, &mut mis, &mut handles);
            }
            let missing: Vec<usize> = inst.customers.iter().filter(|c| !covered.contains_key(&c.id)).map(|c| c.id).collect();
            let dups: Vec<usize> = covered.iter().filter(|(_, n)| **n > 1).map(|(k, _)| *k).collect();
            if !missing.is_empty() || !dups.is_empty() {
                push(&mut mis, "job-ids", format!("customers without task {:?}, customers with several tasks {:?}", missing, dups));
            }
        }
    }

    // ---- fleet
    let fleet = &problem.fleet;
    let fleet_ok = match inst.fmt {
        Fmt::Tsplib => fleet.vehicles.len() >= inst.customers.len() && fleet.actors.len() >= inst.customers.len(),
        _ => fleet.vehicles.len() == inst.vehicles && fleet.actors.len() == inst.vehicles,
    };
    if !fleet_ok {
        let exp = if inst.fmt == Fmt::Tsplib { format!("unlimited (>= {} customers)", inst.customers.len()) } else { inst.vehicles.to_string() };
        push(&mut mis, "fleet-size", format!("file {exp}, problem {} vehicles / {} actors", fleet.vehicles.len(), fleet.actors.len()));
    }
    for v in fleet.vehicles.iter() {
        match v.dimens.get_vehicle_capacity::<SingleDimLoad>() {
            None => push(&mut mis, "capacity-missing", "vehicle without capacity dimension".to_string()),
            Some(c) if c.value != inst.capacity => push(&mut mis, "capacity", format!("file {}, problem {}", inst.capacity, c.value)),
            _ => {}
        }
        if v.details.len() != 1 {
            push(&mut mis, "vehicle-shape", format!("{} shifts per vehicle", v.details.len()));
            continue;
        }
        let (Some(start), Some(end)) = (v.details[0].start.as_ref(), v.details[0].end.as_ref()) else {
            push(&mut mis, "vehicle-shape", "vehicle without start or end place (routes start and end at the depot)".to_string());
            continue;
        };
        if let Some(coords) = coords {
            let dep = (inst.depot.x, inst.depot.y);
            let s = coords.get(start.location).copied();
            let e = coords.get(end.location).copied();
            if s != Some(dep) || e != Some(dep) {
                push(&mut mis, "depot-location", format!("file depot (node {}) at {:?}, vehicle starts at {:?} and ends at {:?}", inst.depot.id, dep, s, e));
            } else {
                handles.loc_of.insert(inst.depot.id, start.location);
            }
        }
        let earliest = start.time.earliest.unwrap_or(0.);
        let latest = end.time.latest;
        let ok = if inst.fmt.timed() {
            earliest == inst.depot.ready as f64 && latest == Some(inst.depot.due as f64)
        } else {
            earliest <= 0. && latest.is_none_or(|l| l >= horizon)
        };
        if !ok {
            let exp = if inst.fmt.timed() { format!("[{}, {}]", inst.depot.ready, inst.depot.due) } else { "unbounded".to_string() };
            push(&mut mis, "shift-window", format!("file depot window {exp}, vehicle start.earliest {:?} end.latest {:?}", start.time.earliest, latest));
        }
    }

    // ---- transport: all pairs of file nodes whose location was verified
    if let Some(vehicle) = fleet.vehicles.first() {
        let profile = vehicle.profile.clone();
        let nodes: Vec<&Node> = inst.nodes().filter(|n| handles.loc_of.contains_key(&n.id)).collect();
        let size = problem.transport.size();
        'outer: for a in nodes.iter() {
            for b in nodes.iter() {
                let (la, lb) = (handles.loc_of[&a.id], handles.loc_of[&b.id]);
                if la >= size || lb >= size {
                    push(&mut mis, "transport-size", format!("transport.size() = {size}, location {} in use", la.max(lb)));
                    break 'outer;
                }
                let n = sq_dist(a, b);
                let exp = if rounded { euclid_rounded(n) } else { euclid(n) };
                let other = if rounded { euclid(n) } else { euclid_rounded(n) };
                let close = |x: f64, y: f64| (x - y).abs() <= 1e-9 * y.abs().max(1.);
                for (what, got) in [
                    ("distance", problem.transport.distance_approx(&profile, la, lb)),
                    ("duration", problem.transport.duration_approx(&profile, la, lb)),
                ] {
                    if !close(got, exp) {
                        let req = if rounded { "rounded" } else { "exact" };
                        let obs = if close(got, other) { if rounded { "exact" } else { "rounded" } } else { "other" };
                        push(
                            &mut mis,
                            &format!("{what}|requested={req}|observed={obs}"),
                            format!("node {} ({}, {}) -> node {} ({}, {}): expected {exp}, transport gives {got}", a.id, a.x, a.y, b.id, b.x, b.y),
                        );
                    }
                }
            }
        }
    }

    for m in mis.iter() {
        handles.flagged.insert(m.field.split('|').next().unwrap_or("").to_string());
    }
    (mis, handles)
}

// ---------------------------------------------------------------------------------------------
// clause 2: a constructive solve replayed against the FILE's numbers

const WATCHDOG_S: u64 = 120;

const METHODS: [&str; 12] = [
    "recreate-cheapest",
    "recreate-regret",
    "recreate-gaps",
    "recreate-nearest-neighbor",
    "recreate-farthest",
    "recreate-skip-best",
    "recreate-blinks",
    "recreate-perturbation",
    "recreate-slice",
    "recreate-skip-random",
    "solver-ruin-recreate",
    "solver-default",
];

fn statik_local_search(random: Arc<dyn Random>) -> TargetSearchOperator {
    Arc::new(LocalSearch::new(Arc::new(CompositeLocalOperator::new(
        vec![
            (Arc::new(ExchangeInterRouteBest::default()), 100),
            (Arc::new(ExchangeSwapStar::new(random, 200)), 100),
            (Arc::new(ExchangeIntraRouteRandom::default()), 30),
            (Arc::new(ExchangeSequence::default()), 30),
        ],
        1,
        2,
    ))))
}

fn quiet_env() -> Arc<Environment> {
    Arc::new(Environment::new(quiet_random(), None, Parallelism::default(), Arc::new(|_: &str| ()), false))
}

fn constructive(problem: Arc<Problem>, method: usize, generations: usize) -> Result<Solution, String> {
    let env = quiet_env();
    if METHODS[method] == "solver-ruin-recreate" {
        // the evolution loop of the real Solver with the default ruin-and-recreate operator and local search only
        let group: TargetHeuristicGroup = vec![
            (create_default_heuristic_operator(problem.clone(), env.clone()), create_scalar_operator_probability(1., env.random.clone())),
            (statik_local_search(env.random.clone()), create_scalar_operator_probability(0.2, env.random.clone())),
        ];
        let heuristic = get_static_heuristic_from_heuristic_group(problem.clone(), env.clone(), group);
        let config = VrpConfigBuilder::new(problem.clone())
            .set_environment(env)
            .set_heuristic(Box::new(heuristic))
            .set_telemetry_mode(TelemetryMode::None)
            .prebuild()
            .map_err(|e| e.to_string())?
            .with_max_generations(Some(generations))
            .build()
            .map_err(|e| e.to_string())?;
        return Solver::new(problem, config).solve().map_err(|e| e.to_string());
    }
    if METHODS[method] == "solver-default" {
        // what `vrp-cli solve` runs: default (dynamic) hyper-heuristic with all its operators
        let config = VrpConfigBuilder::new(problem.clone())
            .set_environment(env)
            .set_telemetry_mode(TelemetryMode::None)
            .prebuild()
            .map_err(|e| e.to_string())?
            .with_max_generations(Some(generations))
            .build()
            .map_err(|e| e.to_string())?;
        return Solver::new(problem, config).solve().map_err(|e| e.to_string());
    }
    let random = env.random.clone();
    let recreate: Box<dyn Recreate> = match method {
        0 => Box::new(RecreateWithCheapest::new(random)),
        1 => Box::new(RecreateWithRegret::new(2, 4, random)),
        2 => Box::new(RecreateWithGaps::new(2, 20, random)),
        3 => Box::new(RecreateWithNearestNeighbor::new(random)),
        4 => Box::new(RecreateWithFarthest::new(random)),
        5 => Box::new(RecreateWithSkipBest::new(1, 2, random)),
        6 => Box::new(RecreateWithBlinks::new_with_defaults(random)),
        7 => Box::new(RecreateWithPerturbation::new_with_defaults(random)),
        8 => Box::new(RecreateWithSlice::new(random)),
        _ => Box::new(RecreateWithSkipRandom::new(random)),
    };
    let population = Box::new(ElitismPopulation::new(problem.goal.clone(), env.random.clone(), 1, 1));
    let rctx = RefinementContext::new(problem.clone(), population, TelemetryMode::None, env.clone());
    Ok(recreate.run(&rctx, InsertionContext::new(problem, env)).into())
}

/// Customer numbers per route, through the task handles established by clause 1 (ids are not trusted here).
fn routes_of(solution: &Solution, handles: &Handles) -> Result<Vec<Vec<usize>>, String> {
    solution
        .routes
        .iter()
        .map(|r| {
            r.tour
                .all_activities()
                .filter_map(|a| a.job.as_ref())
                .map(|s| handles.task_to_customer.get(&(Arc::as_ptr(s) as usize)).copied().ok_or_else(|| "route visits a task that is not one of the problem's jobs".to_string()))
                .collect::<Result<Vec<_>, _>>()
        })
        .collect()
}

#[derive(Default)]
struct SimStats {
    cap_tight_routes: usize, // some other customer's amount would not fit on top of the route's peak load
    tw_binding_routes: usize, // waiting occurs, or the reversed visiting order breaks a window
    routes: usize,
    visited: usize,
}

/// Earliest-start schedule of a visiting order under the file's numbers.
/// Returns (first violation as (field, detail, stop index), waited, smallest slack seen).
fn time_walk(inst: &Inst, route: &[usize], rounded: bool) -> (Option<(&'static str, String, usize)>, bool, f64) {
    let eps = 1e-6;
    let mut t = inst.depot.ready as f64;
    let mut prev = &inst.depot;
    let mut waited = false;
    let mut slack = f64::MAX;
    for (k, &id) in route.iter().enumerate() {
        let Some(c) = inst.cust(id) else { return (Some(("unknown-customer", format!("customer {id}"), k)), waited, slack) };
        let arr = t + dist(prev, c, rounded);
        slack = slack.min(c.due as f64 - arr);
        if arr > c.due as f64 + eps {
            return (Some(("time-window", format!("customer {id}: earliest possible arrival {arr:.4} is after its due time {}", c.due), k)), waited, slack);
        }
        if arr + eps < c.ready as f64 {
            waited = true;
        }
        t = arr.max(c.ready as f64) + c.service as f64;
        prev = c;
    }
    let back = t + dist(prev, &inst.depot, rounded);
    slack = slack.min(inst.depot.due as f64 - back);
    if back > inst.depot.due as f64 + eps {
        let k = route.len().saturating_sub(1);
        return (Some(("depot-return", format!("earliest possible return {back:.4} is after the depot's due time {}", inst.depot.due), k)), waited, slack);
    }
    (None, waited, slack)
}

/// Peak load of a visiting order under the file's numbers and the first stop at which it exceeds the capacity.
fn load_walk(inst: &Inst, route: &[usize]) -> (i64, Option<usize>, Option<usize>) {
    let (mut load, mut peak, mut over, mut negative) = (0i64, 0i64, None, None);
    for (k, id) in route.iter().enumerate() {
        load += inst.cust(*id).map(|c| c.demand as i64).unwrap_or(0);
        peak = peak.max(load);
        if load > inst.capacity as i64 && over.is_none() {
            over = Some(k);
        }
        if load < 0 && negative.is_none() {
            negative = Some(k);
        }
    }
    (peak, over, negative)
}

fn simulate(inst: &Inst, rounded: bool, routes: &[Vec<usize>]) -> (Vec<Mis>, SimStats) {
    let mut mis = vec![];
    let mut stats = SimStats::default();
    let mut seen: BTreeMap<usize, usize> = BTreeMap::new();
    let max_amount = inst.customers.iter().map(|c| c.demand.abs()).max().unwrap_or(0);
    let used = routes.iter().filter(|r| !r.is_empty()).count();
    if inst.fmt != Fmt::Tsplib && used > inst.vehicles {
        push(&mut mis, "semantic|fleet-exceeded", format!("{used} routes, the file has {} vehicles", inst.vehicles));
    }
    for (ri, route) in routes.iter().enumerate() {
        if route.is_empty() {
            continue;
        }
        stats.routes += 1;
        stats.visited += route.len();
        for id in route {
            *seen.entry(*id).or_default() += 1;
        }
        // load (Solomon/TSPLIB: everything is on board when leaving the depot = the sum; Li&Lim: running load)
        {
            let (peak, over, negative) = load_walk(inst, route);
            if inst.fmt == Fmt::Lilim {
                if let Some(k) = negative {
                    push(&mut mis, "semantic|load-negative", format!("route {ri} {:?}: running load below zero after customer {}", route, route[k]));
                }
            }
            if let Some(k) = over {
                push_at(&mut mis, "semantic|load-exceeds-capacity", format!("route {ri} {:?}: load {peak} > capacity {} of the file", route, inst.capacity), (ri, k));
            }
            if (inst.capacity as i64 - peak) < max_amount as i64 {
                stats.cap_tight_routes += 1;
            }
        }
        // pickup before delivery, same route
        if inst.fmt == Fmt::Lilim {
            for (pos, id) in route.iter().enumerate() {
                let Some(c) = inst.cust(*id) else { continue };
                match route.iter().position(|v| *v == c.partner) {
                    None => push(&mut mis, "semantic|pd-split", format!("route {ri} {:?}: customer {id} without its partner {}", route, c.partner)),
                    Some(pp) if c.demand > 0 && pp < pos => {
                        push(&mut mis, "semantic|pd-order", format!("route {ri} {:?}: delivery {} before its pickup {id}", route, c.partner))
                    }
                    _ => {}
                }
            }
        }
        // time
        if inst.fmt.timed() {
            let (violation, waited, _) = time_walk(inst, route, rounded);
            if let Some((f, d, k)) = violation {
                push_at(&mut mis, &format!("semantic|{f}"), format!("route {ri} {:?}: {d}", route), (ri, k));
            } else {
                let mut rev = route.clone();
                rev.reverse();
                if waited || (route.len() > 1 && time_walk(inst, &rev, rounded).0.is_some()) {
                    stats.tw_binding_routes += 1;
                }
            }
        }
    }
    let dups: Vec<usize> = seen.iter().filter(|(_, n)| **n > 1).map(|(k, _)| *k).collect();
    if !dups.is_empty() {
        push(&mut mis, "semantic|customer-served-twice", format!("customers {:?}", dups));
    }
    let unknown: Vec<usize> = seen.keys().filter(|id| inst.cust(**id).is_none()).copied().collect();
    if !unknown.is_empty() {
        push(&mut mis, "semantic|unknown-customer", format!("customers {:?}", unknown));
    }
    (mis, stats)
}

/// Asks the parsed problem's own goal (its hard constraints, exactly as the insertion heuristics do: route level
/// for single-stop jobs, then activity level) whether `target` may be appended to a tour that visits `prefix`.
struct Prober {
    problem: Arc<Problem>,
    ictx: InsertionContext,
    task_of: HashMap<usize, Arc<Single>>, // customer number -> task
}

fn make_activity(single: &Arc<Single>) -> Option<Activity> {
    let place = single.places.first()?;
    let time = match place.times.first() {
        Some(TimeSpan::Window(tw)) => tw.clone(),
        None => TimeWindow::max(),
        _ => return None,
    };
    Some(Activity {
        place: TourPlace { idx: 0, location: place.location?, duration: place.duration, time },
        schedule: Schedule::new(0., 0.),
        job: Some(single.clone()),
        commute: None,
    })
}

impl Prober {
    fn new(problem: &Arc<Problem>, handles: &Handles) -> Self {
        let mut task_of = HashMap::new();
        for job in problem.jobs.all() {
            let singles: Vec<&Arc<Single>> = match job {
                Job::Single(s) => vec![s],
                Job::Multi(m) => m.jobs.iter().collect(),
            };
            for s in singles {
                if let Some(c) = handles.task_to_customer.get(&(Arc::as_ptr(s) as usize)) {
                    task_of.insert(*c, s.clone());
                }
            }
        }
        Self { problem: problem.clone(), ictx: InsertionContext::new(problem.clone(), quiet_env()), task_of }
    }

    /// Ok(true) = the goal accepts the stop, Ok(false) = a hard constraint rejects it.
    fn accepts(&self, prefix: &[usize], target: usize) -> Result<bool, String> {
        let actor = self.problem.fleet.actors.first().ok_or("harness: no actor")?.clone();
        let mut rc = RouteContext::new(actor);
        for c in prefix {
            let task = self.task_of.get(c).ok_or("harness: prefix customer without task")?;
            rc.route_mut().tour.insert_last(make_activity(task).ok_or("harness: cannot build activity")?);
        }
        self.problem.goal.accept_route_state(&mut rc);
        let task = self.task_of.get(&target).ok_or("harness: target customer without task")?;
        if let Some(job) = self.problem.jobs.all().iter().find(|j| j.as_single().is_some_and(|s| Arc::ptr_eq(s, task))) {
            if self.problem.goal.evaluate(&MoveContext::route(&self.ictx.solution, &rc, job)).is_some() {
                return Ok(false);
            }
        }
        let target_act = make_activity(task).ok_or("harness: cannot build activity")?;
        let tour = &rc.route().tour;
        let n = tour.total();
        if n < 2 {
            return Err("harness: tour without start/end".to_string());
        }
        let actx = ActivityContext { index: n - 2, prev: tour.get(n - 2).unwrap(), target: &target_act, next: tour.get(n - 1) };
        Ok(self.problem.goal.evaluate(&MoveContext::activity(&self.ictx.solution, &rc, &actx)).is_none())
    }
}

/// Leg distances/durations through the route-aware `TransportCost::distance/duration` (what the solver uses).
fn check_route_api(inst: &Inst, problem: &Problem, solution: &Solution, handles: &Handles, rounded: bool, mis: &mut Vec<Mis>) {
    let node_of = |a: &Activity| -> Option<&Node> {
        match a.job.as_ref() {
            Some(s) => handles.task_to_customer.get(&(Arc::as_ptr(s) as usize)).and_then(|id| inst.cust(*id)),
            None => Some(&inst.depot),
        }
    };
    for route in solution.routes.iter() {
        let acts: Vec<&Activity> = route.tour.all_activities().collect();
        for w in acts.windows(2) {
            let (Some(a), Some(b)) = (node_of(w[0]), node_of(w[1])) else { continue };
            let exp = dist(a, b, rounded);
            let tt = TravelTime::Departure(w[0].schedule.departure);
            for (what, got) in [
                ("distance", problem.transport.distance(route, w[0].place.location, w[1].place.location, tt.clone())),
                ("duration", problem.transport.duration(route, w[0].place.location, w[1].place.location, tt.clone())),
            ] {
                if (got - exp).abs() > 1e-9 * exp.abs().max(1.) {
                    let req = if rounded { "rounded" } else { "exact" };
                    push(
                        mis,
                        &format!("{what}|requested={req}|route-api"),
                        format!("leg node {} -> node {}: expected {exp}, TransportCost::{what}(route, ..) gives {got}", a.id, b.id),
                    );
                }
            }
        }
    }
}

// ---------------------------------------------------------------------------------------------
// clause 3: write a complete solution, read it back as initial solution

fn build_solution(problem: &Arc<Problem>, routes: &[Vec<String>]) -> Result<Solution, String> {
    let mut by_id: HashMap<String, Arc<Single>> = HashMap::new();
    for job in problem.jobs.all() {
        if let Job::Single(s) = job {
            if let Some(id) = s.dimens.get_job_id() {
                by_id.insert(id.clone(), s.clone());
            }
        }
    }
    let mut registry = Registry::new(&problem.fleet, quiet_random());
    let mut out = vec![];
    for ids in routes {
        let actor = registry.next().next().ok_or("harness: more routes than vehicles")?;
        let mut tour = Tour::new(&actor);
        for id in ids {
            let single = by_id.get(id).ok_or_else(|| format!("harness: unknown job id {id}"))?;
            let place = single.places.first().ok_or("harness: job without place")?;
            let time = match place.times.first() {
                Some(TimeSpan::Window(tw)) => tw.clone(),
                _ => TimeWindow::max(),
            };
            tour.insert_last(Activity {
                place: TourPlace { idx: 0, location: place.location.ok_or("harness: job without location")?, duration: place.duration, time },
                schedule: Schedule::new(0., 0.),
                job: Some(single.clone()),
                commute: None,
            });
        }
        registry.use_actor(&actor);
        out.push(Route { actor, tour });
    }
    Ok(Solution { cost: 0., registry, routes: out, unassigned: vec![], telemetry: None })
}

fn id_routes(solution: &Solution) -> Vec<Vec<String>> {
    solution
        .routes
        .iter()
        .map(|r| {
            r.tour
                .all_activities()
                .filter_map(|a| a.job.as_ref())
                .map(|s| s.dimens.get_job_id().cloned().unwrap_or_else(|| "<no id>".to_string()))
                .collect::<Vec<_>>()
        })
        .filter(|r: &Vec<String>| !r.is_empty())
        .collect()
}

struct SharedBuf(Arc<Mutex<Vec<u8>>>);
impl Write for SharedBuf {
    fn write(&mut self, buf: &[u8]) -> std::io::Result<usize> {
        self.0.lock().unwrap().extend_from_slice(buf);
        Ok(buf.len())
    }
    fn flush(&mut self) -> std::io::Result<()> {
        Ok(())
    }
}

fn write_solution(fmt: Fmt, problem: &Problem, solution: Solution, api: Api) -> Result<String, String> {
    match api {
        Api::Cli => {
            let buf = Arc::new(Mutex::new(Vec::new()));
            let formats = vrp_cli::extensions::solve::formats::get_formats(false, quiet_random());
            let (_, _, writer, _) = formats.get(fmt.name()).ok_or("harness: format not registered")?;
            let out: Box<dyn Write> = Box::new(SharedBuf(buf.clone()));
            (writer.0)(problem, solution, BufWriter::new(out), None).map_err(|e| e.to_string())?;
            let bytes = buf.lock().unwrap().clone();
            String::from_utf8(bytes).map_err(|e| e.to_string())
        }
        _ => {
            let mut writer = BufWriter::new(Vec::new());
            match fmt {
                Fmt::Solomon => solution.write_solomon(&mut writer),
                _ => solution.write_tsplib(&mut writer),
            }
            .map_err(|e| e.to_string())?;
            String::from_utf8(writer.into_inner().map_err(|e| e.to_string())?).map_err(|e| e.to_string())
        }
    }
}

fn read_back(fmt: Fmt, problem: &Arc<Problem>, text: &str, api: Api, tag: u64) -> Result<Solution, String> {
    match api {
        Api::Cli => {
            let path = tmp_dir().join(format!("s-{tag:016x}-{}.txt", fmt.name()));
            std::fs::write(&path, text).map_err(|e| format!("harness: cannot write temp file: {e}"))?;
            let file = std::fs::File::open(&path).map_err(|e| format!("harness: cannot open temp file: {e}"))?;
            let formats = vrp_cli::extensions::solve::formats::get_formats(false, quiet_random());
            let res = match formats.get(fmt.name()) {
                Some((_, reader, _, _)) => (reader.0)(file, problem.clone()).map_err(|e| e.to_string()),
                None => Err("harness: format not registered".to_string()),
            };
            let _ = std::fs::remove_file(&path);
            res
        }
        _ => read_init_solution(BufReader::new(text.as_bytes()), problem.clone(), quiet_random()).map_err(|e| e.to_string()),
    }
}

/// Own reading of the text solution grammar ("Route <n>: id id ..." lines, anything else ignored).
fn own_parse_routes(text: &str) -> Vec<Vec<String>> {
    text.lines()
        .filter_map(|l| l.split_once(':'))
        .filter(|(head, _)| head.trim_start().starts_with("Route"))
        .map(|(_, ids)| ids.split_whitespace().map(|s| s.to_string()).collect::<Vec<_>>())
        .filter(|r: &Vec<String>| !r.is_empty())
        .collect()
}

fn sorted(mut routes: Vec<Vec<String>>) -> Vec<Vec<String>> {
    routes.sort();
    routes
}

/// The bundled example grammar (`Route  1 : 81 78 ...` + `Cost 828`), printed by the harness itself.
fn print_routes_bundled(routes: &[Vec<String>]) -> String {
    let mut s = String::new();
    for (i, r) in routes.iter().enumerate() {
        s.push_str(&format!("Route  {} : {}\n", i + 1, r.join(" ")));
    }
    s.push_str("Cost 0\n");
    s
}

// ---------------------------------------------------------------------------------------------
// case driver

struct Sem {
    n: Mutex<usize>,
    cv: Condvar,
}

impl Sem {
    fn new(n: usize) -> Self {
        Self { n: Mutex::new(n), cv: Condvar::new() }
    }
    fn acquire(&self) {
        let mut g = self.n.lock().unwrap();
        while *g == 0 {
            g = self.cv.wait(g).unwrap();
        }
        *g -= 1;
    }
    fn release(&self) {
        *self.n.lock().unwrap() += 1;
        self.cv.notify_one();
    }
}

struct Case<'a> {
    run: &'a Run,
    sem: &'a Sem,
    case_seed: u64,
    recorded: Option<&'a Value>, // replay: the artefact of the violation
}

const LOAD_FIELDS: [&str; 8] =
    ["demand-missing", "demand-sign", "demand-kind", "demand-value", "capacity", "capacity-missing", "job-ids", "pairing"];
const ROUTE_API_FIELDS: [&str; 6] = ["distance", "duration", "location", "depot-location", "job-ids", "pairing"];
const PAIR_FIELDS: [&str; 5] = ["pairing", "job-ids", "job-count", "job-kind", "task-id"];
const JOBSET_FIELDS: [&str; 4] = ["job-ids", "job-count", "job-kind", "job-id-missing"];
const LOAD_AND_TIME_FIELDS: [&str; 16] = [
    "demand-missing", "demand-sign", "demand-kind", "demand-value", "capacity", "capacity-missing", "job-ids", "pairing", "time-window", "service-time",
    "location", "distance", "duration", "depot-location", "shift-window", "place-shape",
];
const TIME_FIELDS: [&str; 8] =
    ["time-window", "service-time", "location", "distance", "duration", "depot-location", "shift-window", "place-shape"];

impl Case<'_> {
    fn artefact(&self, inst: &Inst, text: &str, rounded: bool, api: Api, clause: &str, extra: Value) -> Value {
        json!({
            "case_seed": self.case_seed,
            "format": inst.fmt.name(),
            "rounded": rounded,
            "api": api.name(),
            "clause": clause,
            "instance": inst.to_json(),
            "text": text,
            "extra": extra,
        })
    }

    fn report(&self, inst: &Inst, text: &str, rounded: bool, api: Api, clause: &str, field: &str, detail: &str, extra: Value) {
        let sig = format!("C13|{}|{}", inst.fmt.name(), field);
        let what = format!(
            "{} instance ({} customers, read with is_rounded={} via {}): {}",
            inst.fmt.name(),
            inst.customers.len(),
            rounded,
            api.name(),
            clip(detail, 420)
        );
        let mut extra = extra;
        if let Some(o) = extra.as_object_mut() {
            o.insert("field".into(), json!(field));
            o.insert("detail".into(), json!(detail));
        }
        self.run.violation(&sig, &what, self.artefact(inst, text, rounded, api, clause, extra));
    }

    fn check(&self) {
        let mut rng = Rng::new(self.case_seed);
        let base = gen_base(&mut rng);
        let insts = [gen_solomon(&mut rng.fork(), &base), gen_lilim(&mut rng.fork(), &base), gen_tsplib(&mut rng.fork(), &base)];
        self.run.observe("coordinate-grid", base.grid);
        if base.dup {
            self.run.observe("instance-features", "duplicate-coordinates");
        }
        for inst in insts.iter() {
            let mut r = rng.fork();
            self.check_instance(inst, &mut r);
        }
    }

    fn check_instance(&self, inst: &Inst, r: &mut Rng) {
        let run = self.run;
        let fmt = inst.fmt;
        let text = print_inst(inst);
        let st = &inst.style;
        run.observe("text-style", ["sep=aligned", "sep=single-space", "sep=tab", "sep=mixed"][st.sep as usize]);
        if st.crlf {
            run.observe("text-style", "crlf");
        }
        run.observe("text-style", if st.final_nl { "final-newline" } else { "no-final-newline" });
        if fmt == Fmt::Tsplib {
            run.observe("instance-features", if inst.depot.id == 1 { "tsplib-depot-is-node-1" } else { "tsplib-depot-not-node-1" });
            run.observe("text-style", ["coords=int", "coords=x.0", "coords=x.00000", "coords=x.xxxxxe+NN", "coords=mixed"][st.float_fmt as usize]);
        }
        if inst.depot.ready > 0 {
            run.observe("instance-features", "depot-ready>0");
        }
        if inst.customers.iter().any(|c| c.x == inst.depot.x && c.y == inst.depot.y) {
            run.observe("instance-features", "customer-at-depot");
        }
        if inst.customers.iter().any(|c| c.demand == 0) {
            run.observe("instance-features", "zero-demand-customer");
        }
        if inst.nodes().any(|n| n.x < 0 || n.y < 0) {
            run.observe("instance-features", "negative-coordinate");
        }
        let fractional = inst.nodes().any(|a| inst.nodes().any(|b| euclid(sq_dist(a, b)).fract() != 0.));
        if run.wants_sample() && inst.customers.len() <= 6 {
            run.sample(json!({"case_seed": self.case_seed, "format": fmt.name(), "model": inst.to_json(), "text": text}));
        }

        let sem_rounded = r.chance(0.5);
        let do_sem = r.chance(0.4);
        let method = match r.weighted(&[0.7, 0.15, 0.15]) {
            0 => r.usize_below(METHODS.len() - 2),
            1 => METHODS.len() - 2,
            _ => METHODS.len() - 1,
        };
        let generations = r.range_usize(5, 10);

        for rounded in [false, true] {
            let api = [Api::Str, Api::Buf, Api::Cli][r.weighted(&[0.45, 0.45, 0.1])];
            let tag = mix(self.case_seed, rounded as u64 + 2 * fmt as u64);
            let parsed = run.guard(|| parse(fmt, &text, rounded, api, tag));
            run.eval();
            run.observe("reader", &format!("{}|is_rounded={}|{}", fmt.name(), rounded, api.name()));
            let problem = match parsed {
                Err(p) => {
                    self.report(inst, &text, rounded, api, "parse", &format!("parse|panic|{}", p.file()), &format!("reader panicked: {} at {}", p.message, p.location), json!({"panic": p.to_json()}));
                    continue;
                }
                Ok(Err(e)) if e.starts_with("harness:") => {
                    run.inconclusive(&e);
                    continue;
                }
                Ok(Err(e)) => {
                    self.report(inst, &text, rounded, api, "parse", "parse-error", &format!("reader rejected an instance inside the grammar: {e}"), json!({}));
                    continue;
                }
                Ok(Ok(p)) => Arc::new(p),
            };
            let (mis, handles) = match run.guard(|| compare(inst, &problem, rounded)) {
                Ok(v) => v,
                Err(p) => {
                    self.report(inst, &text, rounded, api, "fields", &format!("fields|panic|{}", p.file()), &format!("querying the parsed problem panicked: {} at {}", p.message, p.location), json!({"panic": p.to_json()}));
                    continue;
                }
            };
            if fractional || rounded {
                run.nontrivial(&format!("{}|{}|{}", fmt.name(), rounded, text));
            }
            run.observe("clause-1-fields", &format!("{}:compared", fmt.name()));
            for m in mis.iter() {
                self.report(inst, &text, rounded, api, "fields", &m.field, &m.detail, json!({}));
            }
            if let Some(slot) = (fmt != Fmt::Lilim).then(|| static_slot(&problem)).flatten() {
                run.observe("demand-encoding", &format!("{}:static-{}", fmt.name(), slot));
            }

            // replay of recorded routes (clause 2 artefacts)
            if let Some(rec) = self.recorded {
                let same = rec["format"] == json!(fmt.name()) && rec["rounded"] == json!(rounded);
                if let (true, Some(routes)) = (same, rec["extra"]["routes"].as_array()) {
                    let routes: Vec<Vec<usize>> =
                        routes.iter().map(|r| r.as_array().map(|v| v.iter().filter_map(|x| x.as_u64().map(|x| x as usize)).collect()).unwrap_or_default()).collect();
                    self.judge_routes(inst, &text, rounded, api, &handles, &routes, "recorded", &problem, None);
                }
            }

            if rounded != sem_rounded {
                continue;
            }
            let jobset_off = JOBSET_FIELDS.iter().any(|f| handles.flagged.contains(*f));
            if fmt != Fmt::Lilim && jobset_off {
                run.inconclusive("clause 3 not judged: clause 1 already reported a job set mismatch for this problem");
            } else if fmt != Fmt::Lilim {
                self.roundtrip_generated(inst, &text, &problem, rounded, api, r);
            }
            if !jobset_off {
                self.probe_planted(inst, &text, &problem, &handles, rounded, api, r);
            }
            if do_sem {
                self.semantic(inst, &text, &problem, &handles, rounded, api, method, generations);
            }
        }
    }

    // ---- clause 2
    fn semantic(&self, inst: &Inst, text: &str, problem: &Arc<Problem>, handles: &Handles, rounded: bool, api: Api, method: usize, generations: usize) {
        let run = self.run;
        let fmt = inst.fmt;
        // the solve runs on its own thread under a wall-clock watchdog: a search operator that does not return
        // (seen once with the LKH operator) must not hang the check; such a case is inconclusive, never a verdict
        self.sem.acquire();
        let (tx, rx) = std::sync::mpsc::channel();
        let p = problem.clone();
        std::thread::spawn(move || {
            let _ = tx.send(vverif::guard(|| constructive(p, method, generations)));
        });
        let solved = rx.recv_timeout(std::time::Duration::from_secs(WATCHDOG_S));
        self.sem.release();
        let solved = match solved {
            Ok(s) => s,
            Err(_) => {
                run.inconclusive(&format!("clause 2: {} did not return within the {WATCHDOG_S} s watchdog", METHODS[method]));
                run.note(&format!("watchdog example, {}", METHODS[method]), json!({"case_seed": self.case_seed, "format": fmt.name(), "is_rounded": rounded}));
                return;
            }
        };
        let solution = match solved {
            Err(p) => {
                self.report(inst, text, rounded, api, "semantic", &format!("semantic|panic|{}", p.file()), &format!("{} panicked on the parsed problem: {} at {}", METHODS[method], p.message, p.location), json!({"method": METHODS[method], "panic": p.to_json()}));
                return;
            }
            Ok(Err(e)) => {
                run.inconclusive(&format!("clause 2: {} returned an error: {}", METHODS[method], clip(&e, 80)));
                return;
            }
            Ok(Ok(s)) => s,
        };
        run.eval();
        run.observe("clause-2-method", METHODS[method]);
        run.observe("clause-2-solves", &format!("{}:is_rounded={}", fmt.name(), rounded));
        let routes = match routes_of(&solution, handles) {
            Ok(r) => r,
            Err(_) if JOBSET_FIELDS.iter().any(|f| handles.flagged.contains(*f)) => {
                run.inconclusive("clause 2 not judged: clause 1 already reported a job set mismatch for this problem");
                return;
            }
            Err(e) => {
                self.report(inst, text, rounded, api, "semantic", "semantic|unknown-activity", &e, json!({"method": METHODS[method]}));
                return;
            }
        };
        if !solution.unassigned.is_empty() {
            run.observe("clause-2-outcome", &format!("{}:some-jobs-unassigned", fmt.name()));
        } else {
            run.observe("clause-2-outcome", &format!("{}:all-jobs-routed", fmt.name()));
        }
        self.judge_routes(inst, text, rounded, api, handles, &routes, METHODS[method], problem, Some(&solution));

        // clause 3 on the solver's own complete solution
        let jobset_off = JOBSET_FIELDS.iter().any(|f| handles.flagged.contains(*f));
        if fmt != Fmt::Lilim && !jobset_off && solution.unassigned.is_empty() && !solution.routes.is_empty() {
            let expected = id_routes(&solution);
            self.roundtrip(inst, text, problem, rounded, api, expected, Some(solution), "solver-solution");
        }
    }

    fn judge_routes(
        &self,
        inst: &Inst,
        text: &str,
        rounded: bool,
        api: Api,
        handles: &Handles,
        routes: &[Vec<usize>],
        method: &str,
        problem: &Arc<Problem>,
        solution: Option<&Solution>,
    ) {
        let run = self.run;
        let fmt = inst.fmt;
        let (mut mis, stats) = simulate(inst, rounded, routes);
        if let Some(solution) = solution.filter(|_| !ROUTE_API_FIELDS.iter().any(|f| handles.flagged.contains(*f))) {
            if let Err(p) = run.guard(|| check_route_api(inst, problem, solution, handles, rounded, &mut mis)) {
                mis.push(Mis { field: format!("fields|panic|{}", p.file()), detail: format!("TransportCost::distance/duration panicked: {} at {}", p.message, p.location), at: None });
            }
        }
        if stats.cap_tight_routes > 0 {
            run.observe("clause-2-binding", &format!("{}:capacity-tight-route", fmt.name()));
        }
        if stats.tw_binding_routes > 0 {
            run.observe("clause-2-binding", &format!("{}:window-binding-route", fmt.name()));
        }
        if stats.cap_tight_routes > 0 || stats.tw_binding_routes > 0 {
            run.nontrivial(&format!("sem|{}|{}|{:?}", fmt.name(), rounded, routes));
        }
        let extra = json!({"method": method, "routes": routes});
        for m in mis.iter() {
            if depends_on(&m.field).iter().any(|f| handles.flagged.contains(*f)) {
                // a consequence of a field mismatch clause 1 has already reported for this very problem:
                // recorded as an observation (with one literal example), not as a second violation
                let key = format!("{}:{}", fmt.name(), m.field);
                if run.observed("clause-2-consequences-of-clause-1-mismatch", &key) == 0 {
                    run.note(&format!("example of a clause-2 consequence, {key}"), json!({"case_seed": self.case_seed, "detail": m.detail, "method": method, "clause_1_reported": handles.flagged}));
                }
                run.observe("clause-2-consequences-of-clause-1-mismatch", &key);
                run.inconclusive(&format!("clause 2 {} verdict not judged on its own: clause 1 already reported the field it depends on", m.field));
                continue;
            }
            // Triage: do the parsed problem's own hard constraints accept the offending stop? If they reject it,
            // the problem binds there exactly as the file says and the route is the search's doing (e.g. a removal
            // under rounded, non-metric distances) - not a reader fault and not this property's verdict.
            let mut detail = m.detail.clone();
            if let Some((ri, k)) = m.at {
                let prober = Prober::new(problem, handles);
                match run.guard(|| prober.accepts(&routes[ri][..k], routes[ri][k])) {
                    Ok(Ok(false)) => {
                        let key = format!("{}:{}:is_rounded={}", fmt.name(), m.field, rounded);
                        if run.observed("clause-2-routes-rejected-by-the-problems-own-constraints", &key) == 0 {
                            run.note(
                                &format!("example of a returned route that the parsed problem's own constraints reject, {key}"),
                                json!({"case_seed": self.case_seed, "method": method, "detail": m.detail, "routes": routes, "text": text}),
                            );
                        }
                        run.observe("clause-2-routes-rejected-by-the-problems-own-constraints", &key);
                        run.inconclusive(&format!("clause 2 {}: the returned route breaks the file's numbers, but the parsed problem's own constraints reject that stop too (search-side, not a reader fault)", m.field));
                        continue;
                    }
                    Ok(Ok(true)) => detail.push_str(" - and the parsed problem's own constraints accept this stop"),
                    Ok(Err(e)) => {
                        run.inconclusive(&format!("clause 2 triage impossible: {}", clip(&e, 60)));
                        continue;
                    }
                    Err(p) => {
                        self.report(inst, text, rounded, api, "semantic", &format!("semantic|probe|panic|{}", p.file()), &format!("goal.evaluate panicked: {} at {}", p.message, p.location), extra.clone());
                        continue;
                    }
                }
            }
            self.report(inst, text, rounded, api, "semantic", &m.field, &detail, extra.clone());
        }
    }

    // ---- clause 2, deterministic part: the problem's own constraints along the planted routes
    fn probe_planted(&self, inst: &Inst, text: &str, problem: &Arc<Problem>, handles: &Handles, rounded: bool, api: Api, r: &mut Rng) {
        let run = self.run;
        let fmt = inst.fmt;
        let eps = 1e-6;
        let prober = Prober::new(problem, handles);
        let mut mis: Vec<Mis> = vec![];
        let ask = |prefix: &[usize], target: usize| -> Option<bool> {
            match run.guard(|| prober.accepts(prefix, target)) {
                Ok(Ok(v)) => Some(v),
                Ok(Err(e)) => {
                    run.inconclusive(&format!("clause 2 probe impossible: {}", clip(&e, 60)));
                    None
                }
                Err(p) => {
                    self.report(inst, text, rounded, api, "semantic", &format!("semantic|probe|panic|{}", p.file()), &format!("goal.evaluate panicked: {} at {}", p.message, p.location), json!({"prefix": prefix, "target": target}));
                    None
                }
            }
        };
        for route in inst.planted.iter() {
            // accept direction: every stop of a planted route that is feasible with a margin must be accepted
            let mut feasible_len = 0;
            for k in 0..route.len() {
                let seq = &route[..=k];
                let (viol, _, slack) = if fmt.timed() { time_walk(inst, seq, rounded) } else { (None, false, f64::MAX) };
                let (_, over, _) = load_walk(inst, seq);
                if viol.is_some() || over.is_some() {
                    break; // under rounded distances a planted route need not stay feasible
                }
                feasible_len = k + 1;
                if slack <= eps {
                    run.observe("clause-2-probe", &format!("{}:boundary-stop-not-judged", fmt.name()));
                    continue;
                }
                let Some(accepted) = ask(&route[..k], route[k]) else { return };
                run.eval();
                run.observe("clause-2-probe", &format!("{}:feasible-stop", fmt.name()));
                if !accepted {
                    push(
                        &mut mis,
                        "semantic|probe|feasible-stop-rejected",
                        format!(
                            "tour {:?} + customer {}: feasible by the file's numbers (time slack {:.4}, load within capacity {}), rejected by the parsed problem's constraints",
                            &route[..k],
                            route[k],
                            if slack == f64::MAX { 0. } else { slack },
                            inst.capacity
                        ),
                    );
                }
            }
            // reject direction: a stop that breaks exactly one of the file's limits (with a margin) must be rejected
            let cut = r.range_usize(0, feasible_len);
            let prefix = &route[..cut];
            let mut candidates: Vec<&Node> = inst.customers.iter().filter(|c| !prefix.contains(&c.id) && (fmt != Fmt::Lilim || c.demand > 0)).collect();
            r.shuffle(&mut candidates);
            let mut asked = 0;
            for c in candidates.iter().take(12) {
                if asked >= 3 {
                    break;
                }
                let mut seq = prefix.to_vec();
                seq.push(c.id);
                let late = fmt.timed() && time_walk(inst, &seq, rounded).0.is_some();
                let heavy = load_walk(inst, &seq).1.is_some();
                if late == heavy {
                    continue; // feasible, or infeasible for both reasons (then one binding constraint could hide the other)
                }
                let kind = if late { "time" } else { "load" };
                let Some(accepted) = ask(prefix, c.id) else { return };
                asked += 1;
                run.eval();
                run.observe("clause-2-probe", &format!("{}:infeasible-stop({kind})", fmt.name()));
                run.nontrivial(&format!("probe|{}|{}|{:?}|{}", fmt.name(), rounded, prefix, c.id));
                if accepted {
                    push(
                        &mut mis,
                        &format!("semantic|probe|infeasible-stop-accepted|{kind}"),
                        format!("tour {:?} + customer {}: breaks the file's {} limit, accepted by the parsed problem's constraints", prefix, c.id, if late { "time window / depot due time" } else { "capacity" }),
                    );
                }
            }
        }
        for m in mis.iter() {
            if depends_on(&m.field).iter().any(|f| handles.flagged.contains(*f)) {
                let key = format!("{}:{}", fmt.name(), m.field);
                if run.observed("clause-2-consequences-of-clause-1-mismatch", &key) == 0 {
                    run.note(&format!("example of a clause-2 consequence, {key}"), json!({"case_seed": self.case_seed, "detail": m.detail, "clause_1_reported": handles.flagged}));
                }
                run.observe("clause-2-consequences-of-clause-1-mismatch", &key);
                run.inconclusive(&format!("clause 2 {} verdict not judged on its own: clause 1 already reported the field it depends on", m.field));
                continue;
            }
            self.report(inst, text, rounded, api, "semantic", &m.field, &m.detail, json!({}));
        }
    }

    // ---- clause 3
    fn roundtrip_generated(&self, inst: &Inst, text: &str, problem: &Arc<Problem>, rounded: bool, api: Api, r: &mut Rng) {
        let mut ids: Vec<String> = inst.customers.iter().map(|c| inst.job_id(c)).collect();
        r.shuffle(&mut ids);
        let max_routes = inst.vehicles.min(problem.fleet.actors.len()).min(ids.len()).max(1);
        let k = if r.chance(0.15) { 1 } else { r.range_usize(1, max_routes) };
        let mut routes: Vec<Vec<String>> = vec![vec![]; k];
        for id in ids {
            let i = r.usize_below(k);
            routes[i].push(id);
        }
        routes.retain(|x| !x.is_empty());
        self.roundtrip(inst, text, problem, rounded, api, routes.clone(), None, "generated-solution");
        // the same solution printed in the grammar of the bundled C101.100.best.txt
        let printed = print_routes_bundled(&routes);
        self.read_and_compare(inst, text, problem, rounded, api, &routes, &printed, "bundled-grammar");
    }

    fn roundtrip(&self, inst: &Inst, text: &str, problem: &Arc<Problem>, rounded: bool, api: Api, expected: Vec<Vec<String>>, solution: Option<Solution>, source: &str) {
        let run = self.run;
        let solution = match solution {
            Some(s) => s,
            None => match build_solution(problem, &expected) {
                Ok(s) => s,
                Err(e) => {
                    run.inconclusive(&format!("clause 3: cannot build the solution ({})", clip(&e, 60)));
                    return;
                }
            },
        };
        let extra = json!({"source": source, "routes_written": expected});
        let written = match run.guard(|| write_solution(inst.fmt, problem, solution, api)) {
            Err(p) => {
                self.report(inst, text, rounded, api, "init-roundtrip", &format!("init-roundtrip|write|panic|{}", p.file()), &format!("writer panicked: {} at {}", p.message, p.location), extra);
                return;
            }
            Ok(Err(e)) => {
                self.report(inst, text, rounded, api, "init-roundtrip", "init-roundtrip|write-error", &format!("writer refused a complete solution: {e}"), extra);
                return;
            }
            Ok(Ok(t)) => t,
        };
        self.read_and_compare(inst, text, problem, rounded, api, &expected, &written, source);
    }

    fn read_and_compare(&self, inst: &Inst, text: &str, problem: &Arc<Problem>, rounded: bool, api: Api, expected: &[Vec<String>], written: &str, source: &str) {
        let run = self.run;
        let tag = mix(self.case_seed, 77 + inst.fmt as u64 + if source == "bundled-grammar" { 10 } else { 0 });
        let extra = json!({"source": source, "routes_written": expected, "solution_text": written});
        let back = match run.guard(|| read_back(inst.fmt, problem, written, api, tag)) {
            Err(p) => {
                self.report(inst, text, rounded, api, "init-roundtrip", &format!("init-roundtrip|read|panic|{}", p.file()), &format!("read_init_solution panicked: {} at {}", p.message, p.location), extra);
                return;
            }
            Ok(Err(e)) if e.starts_with("harness:") => {
                run.inconclusive(&e);
                return;
            }
            Ok(Err(e)) => {
                self.report(inst, text, rounded, api, "init-roundtrip", "init-roundtrip|read-error", &format!("read_init_solution refused the written text: {e}"), extra);
                return;
            }
            Ok(Ok(s)) => s,
        };
        run.eval();
        run.observe("clause-3-roundtrips", &format!("{}:{}:{}", inst.fmt.name(), source, if api == Api::Cli { "vrp-cli get_formats" } else { "vrp-scientific api" }));
        if expected.len() > 1 || expected.iter().any(|r| r.len() > 1) {
            run.nontrivial(&format!("rt|{}|{:?}", inst.fmt.name(), expected));
        }
        let got = id_routes(&back);
        if sorted(got.clone()) != sorted(expected.to_vec()) {
            let side = if sorted(own_parse_routes(written)) != sorted(expected.to_vec()) { "writer" } else { "reader" };
            self.report(
                inst,
                text,
                rounded,
                api,
                "init-roundtrip",
                &format!("init-roundtrip|routes-differ|{side}"),
                &format!("routes written {:?}, text {:?}, routes read back {:?}", expected, written, got),
                extra.clone(),
            );
        } else if !back.unassigned.is_empty() {
            self.report(
                inst,
                text,
                rounded,
                api,
                "init-roundtrip",
                "init-roundtrip|unassigned-nonempty",
                &format!("complete solution {:?} read back with {} unassigned jobs", expected, back.unassigned.len()),
                extra,
            );
        }
    }
}

/// Clause-1 fields a clause-2 verdict is computed from: if one of them was already reported for the same parsed
/// problem, the clause-2 finding is its consequence and is recorded as an observation instead of a second violation.
fn depends_on(field: &str) -> &'static [&'static str] {
    match field {
        f if f.starts_with("semantic|load") => &LOAD_FIELDS,
        "semantic|time-window" | "semantic|depot-return" => &TIME_FIELDS,
        "semantic|pd-split" | "semantic|pd-order" | "semantic|customer-served-twice" | "semantic|unknown-customer" => &PAIR_FIELDS,
        "semantic|fleet-exceeded" => &["fleet-size"],
        "semantic|probe|infeasible-stop-accepted|load" => &LOAD_FIELDS,
        "semantic|probe|infeasible-stop-accepted|time" => &TIME_FIELDS,
        "semantic|probe|feasible-stop-rejected" => &LOAD_AND_TIME_FIELDS,
        _ => &[],
    }
}

/// Which static slot the reader uses for plain demands (observation only).
fn static_slot(problem: &Problem) -> Option<&'static str> {
    problem.jobs.all().iter().find_map(|j| {
        let d = j.as_single()?.dimens.get_job_demand::<SingleDimLoad>()?;
        if d.delivery.0.value != 0 {
            Some("delivery")
        } else if d.pickup.0.value != 0 {
            Some("pickup")
        } else {
            None
        }
    })
}

// ---------------------------------------------------------------------------------------------
// main

const RULE: &str = "case = (seed, i) -> one base geometry (3-40 customers, grids small/classic/large/signed/huge, duplicate \
coordinates, customer on the depot) -> three instance models (Solomon; Li&Lim with signed pairs and partner numbers; TSPLIB \
CVRP EUC_2D with float formatted coordinates and a depot that need not be node 1), each with planted feasible routes that make \
capacity and windows tight, printed with varying blanks/tabs/CRLF/final newline and parsed rounded and not rounded. DISTINCT = \
distinct (format, is_rounded, file text); NON-TRIVIAL for clause 1 = at least one pair of nodes with a non-integral distance (or \
rounding requested) so that a rounding/column slip is visible; for clause 2 = a returned route on which the file's capacity or \
windows bind (another customer's amount would not fit on the peak load / waiting occurs or the reversed order breaks a window); \
for clause 3 = a solution with more than one route or a route with more than one customer.";

fn replay(run: &Run, sem: &Sem, path: &std::path::Path) {
    let doc: Value = match std::fs::read_to_string(path).ok().and_then(|t| serde_json::from_str(&t).ok()) {
        Some(d) => d,
        None => {
            println!("INCONCLUSIVE property=C13 cannot read replay artefact {}", path.display());
            std::process::exit(2);
        }
    };
    let art = &doc["artefact"];
    let Some(case_seed) = art["case_seed"].as_u64() else {
        println!("INCONCLUSIVE property=C13 artefact without case_seed");
        std::process::exit(2);
    };
    println!("replaying case_seed={case_seed} (recorded signature {})", doc["signature"].as_str().unwrap_or("?"));
    if art["clause"] == json!("semantic") {
        println!("  clause 2 artefact: the recorded routes are re-simulated against the regenerated file; the solver is also run again (best effort, not deterministic)");
    }
    Case { run, sem, case_seed, recorded: Some(art) }.check();
}

fn is_noise(line: &str) -> bool {
    // the two hard-wired println! loggers of the scientific readers (TextReader::get_logger)
    let l = line.trim_end();
    let timed = |p: &str| l.strip_prefix(p).and_then(|r| r.strip_suffix("ms")).is_some_and(|n| n.chars().all(|c| c.is_ascii_digit()));
    timed("fleet index created in ") || timed("job index created in ")
}

/// Runs the check itself as a child process and forwards its output without the readers' log lines.
fn filter_child() -> i32 {
    let exe = match std::env::current_exe() {
        Ok(e) => e,
        Err(e) => {
            println!("INCONCLUSIVE property=C13 cannot locate own executable: {e}");
            return 2;
        }
    };
    let child = std::process::Command::new(exe).args(std::env::args().skip(1)).env("C13_INNER", "1").stdout(std::process::Stdio::piped()).spawn();
    let mut child = match child {
        Ok(c) => c,
        Err(e) => {
            println!("INCONCLUSIVE property=C13 cannot start the filtered child process: {e}");
            return 2;
        }
    };
    if let Some(out) = child.stdout.take() {
        let mut reader = BufReader::new(out);
        let mut buf = Vec::new();
        loop {
            buf.clear();
            match reader.read_until(b'\n', &mut buf) {
                Ok(0) | Err(_) => break,
                Ok(_) => {
                    let line = String::from_utf8_lossy(&buf);
                    if !is_noise(&line) {
                        print!("{line}");
                    }
                }
            }
        }
    }
    let _ = std::io::stdout().flush();
    match child.wait() {
        Ok(status) => status.code().unwrap_or_else(|| {
            println!("INCONCLUSIVE property=C13 check process was killed by a signal");
            2
        }),
        Err(e) => {
            println!("INCONCLUSIVE property=C13 cannot wait for the check process: {e}");
            2
        }
    }
}

fn main() {
    if std::env::var_os("C13_INNER").is_none() {
        std::process::exit(filter_child());
    }
    let run = Run::from_args("C13", "exploration", RULE, 40, 480);
    let sem = Sem::new(4);
    if let Some(path) = run.replay.clone() {
        replay(&run, &sem, &path);
        let _ = std::fs::remove_dir_all(tmp_dir());
        run.finish();
    }
    run.assume("instances stay inside the grammar of the bundled files: fixed header layout, contiguous ascending customer numbers, one depot, integer data (TSPLIB coordinates integral but possibly float formatted), no blank line after the last customer; what the readers do outside of it is not judged");
    run.assume("identity of customers: Solomon job id = CUST NO.; TSPLIB job id = node number - 1 (CVRPLIB solution numbering), also when the depot is not node 1; Li&Lim task id = customer number with an optional non-digit prefix, pair job = (pickup task, delivery task) in that order; the pair job's own id is not judged");
    run.assume("plain demands (Solomon, TSPLIB) may be encoded as static deliveries or as static pickups as long as all customers use the same slot; Li&Lim amounts must be dynamic (pickup slot for +q, delivery slot with positive amount q for -q) so that Demand::change() equals the signed file demand");
    run.assume("TSPLIB CVRP names no fleet size, no windows and no service times: asserted is fleet >= number of customers, unconstraining windows/shift, zero durations; travel time = distance (unit speed) in all three formats");
    run.assume("clause 2 judges feasibility of the returned visiting orders under the file's numbers with an earliest-start simulation (tolerance 1e-6); unassigned jobs are not judged (heuristic); the solver's own random choices are not replayable, the artefact therefore records the routes");
    run.assume("clause 3: routes compared as multisets of id sequences; routes <= fleet size; the reader must also report no unassigned job for a complete solution");

    let cases = run.by_tier(6_000u64, 100_000);
    par_for(16, cases, &|| !run.has_time(), &|i| {
        Case { run: &run, sem: &sem, case_seed: mix(run.seed, i), recorded: None }.check();
    });
    let _ = std::fs::remove_dir_all(tmp_dir());

    let q = run.is_quick();
    run.floor("evaluations", run.evaluations(), if q { 2_000 } else { 20_000 });
    for f in ["solomon", "lilim", "tsplib"] {
        run.floor(&format!("clause 1 comparisons {f}"), run.observed("clause-1-fields", &format!("{f}:compared")), if q { 300 } else { 3_000 });
        let solves = run.observed("clause-2-solves", &format!("{f}:is_rounded=true")) + run.observed("clause-2-solves", &format!("{f}:is_rounded=false"));
        run.floor(&format!("clause 2 solves {f}"), solves, if q { 40 } else { 400 });
        run.floor(&format!("clause 2 capacity-tight routes {f}"), run.observed("clause-2-binding", &format!("{f}:capacity-tight-route")), 5);
        for rounded in [true, false] {
            for api in [Api::Str, Api::Buf, Api::Cli] {
                run.floor(&format!("reader {f} is_rounded={rounded} via {}", api.name()), run.observed("reader", &format!("{f}|is_rounded={rounded}|{}", api.name())), 5);
            }
        }
    }
    for f in ["solomon", "lilim"] {
        run.floor(&format!("clause 2 window-binding routes {f}"), run.observed("clause-2-binding", &format!("{f}:window-binding-route")), 5);
    }
    for f in ["solomon", "tsplib"] {
        for src in ["generated-solution", "bundled-grammar", "solver-solution"] {
            let n = run.observed("clause-3-roundtrips", &format!("{f}:{src}:vrp-scientific api")) + run.observed("clause-3-roundtrips", &format!("{f}:{src}:vrp-cli get_formats"));
            run.floor(&format!("clause 3 round trips {f} {src}"), n, if src == "solver-solution" { 5 } else if q { 100 } else { 1_000 });
        }
        run.floor(&format!("clause 3 round trips {f} via vrp-cli"), run.observed("clause-3-roundtrips", &format!("{f}:generated-solution:vrp-cli get_formats")), 3);
    }
    for m in METHODS.iter() {
        run.floor(&format!("clause 2 method {m}"), run.observed("clause-2-method", m), 1);
    }
    for k in ["duplicate-coordinates", "tsplib-depot-not-node-1", "tsplib-depot-is-node-1", "customer-at-depot", "depot-ready>0", "negative-coordinate"] {
        run.floor(&format!("instance feature {k}"), run.observed("instance-features", k), 3);
    }
    for k in ["coords=int", "coords=x.0", "coords=x.00000", "coords=x.xxxxxe+NN", "coords=mixed", "crlf", "sep=tab", "sep=mixed", "no-final-newline"] {
        run.floor(&format!("text style {k}"), run.observed("text-style", k), 3);
    }
    run.floor("distinct non-trivial cases", run.distinct_nontrivial(), if q { 1_000 } else { 10_000 });
    run.finish();
}
