//! C08 – a population never loses its best-known solution.
//!
//! Part A (reference-model monitor): generated operation histories are applied to the three
//! `HeuristicPopulation` implementations (`Greedy`, `Elitism`, `Rosomaxa`) with the public example
//! types of `rosomaxa::example`. The model is the list of every individual ever offered (each one
//! carries a unique id in `data[1]`, its fitness in `data[0]`; the fitness closure supplied here reads
//! `data[0]` only, the weight closure reads `data[2..]`). After EVERY operation the observable state
//! (`ranked`, `all`, `size`, `select`) is compared with the model.
//!
//! Part B (end-to-end clause): small pragmatic problems with integer matrices/costs (so that all cost
//! sums are exact) are solved, the result is fed back as the initial solution of a second solve with
//! few generations and different population types; the second result must not be worse than its seed.

use rosomaxa::evolution::TelemetryMode;
use rosomaxa::example::{VectorObjective, VectorRosomaxaContext, VectorSolution};
use rosomaxa::population::{Elitism, Greedy, HeuristicPopulation, Rosomaxa, RosomaxaConfig, SelectionPhase};
use rosomaxa::prelude::{
    DefaultRandom, Environment, HeuristicObjective, HeuristicSolution, HeuristicSpeed, HeuristicStatistics, Random,
    RandomGen,
};
use rosomaxa::utils::{Parallelism, Timer};
use serde_json::{Value, json};
use std::cmp::Ordering;
use std::io::{BufReader, BufWriter};
use std::sync::{Arc, Mutex};
use vrp_core::construction::heuristics::InsertionContext;
use vrp_core::models::common::Footprint;
use vrp_core::models::{Problem, Solution};
use vrp_core::solver::{
    ElitismPopulation, GreedyPopulation, RefinementContext, RosomaxaPopulation, Solver, TargetPopulation,
    VrpConfigBuilder,
};
use vrp_pragmatic::format::problem::PragmaticProblem;
use vrp_pragmatic::format::solution::{PragmaticOutputType, read_init_solution, write_pragmatic};
use vverif::{PanicInfo, Rng, Run, mix, par_for};

type Obj = VectorObjective;
type Sol = VectorSolution;
type DynPop = dyn HeuristicPopulation<Objective = Obj, Individual = Sol>;

static HISTORIES: std::sync::atomic::AtomicU64 = std::sync::atomic::AtomicU64::new(0);
static E2E_SAMPLES: std::sync::atomic::AtomicUsize = std::sync::atomic::AtomicUsize::new(0);
const ITER_CAP: usize = 100_000; // cap for iterators returned by the population
const HIST_STREAM: u64 = 0x0C08_0000_0000_0000;
const E2E_STREAM: u64 = 0x0C08_E2E0_0000_0000;

// ---------------------------------------------------------------------------------------------
// harness-side deterministic Random (uniform_* / is_hit / weighted are reproducible from the case seed;
// `get_rng` has to return the repo's thread-local `RandomGen`, which is not seedable from outside)

struct SeededRandom {
    rng: Mutex<Rng>,
}

impl SeededRandom {
    fn new(seed: u64) -> Self {
        Self { rng: Mutex::new(Rng::new(seed)) }
    }
}

impl Random for SeededRandom {
    fn uniform_int(&self, min: i32, max: i32) -> i32 {
        if min == max {
            return min;
        }
        assert!(min < max, "uniform_int: min {min} > max {max}"); // same contract as DefaultRandom
        let span = (max as i64 - min as i64 + 1) as u64;
        (min as i64 + self.rng.lock().unwrap().below(span) as i64) as i32
    }

    fn uniform_real(&self, min: f64, max: f64) -> f64 {
        if (min - max).abs() < f64::EPSILON {
            return min;
        }
        assert!(min < max, "uniform_real: min {min} > max {max}");
        let v = self.rng.lock().unwrap().range_f64(min, max);
        if v >= max { min } else { v }
    }

    fn is_head_not_tails(&self) -> bool {
        self.rng.lock().unwrap().chance(0.5)
    }

    fn is_hit(&self, probability: f64) -> bool {
        let p = if probability.is_nan() { 0. } else { probability.clamp(0., 1.) };
        self.rng.lock().unwrap().f64() < p
    }

    fn weighted(&self, weights: &[usize]) -> usize {
        let w: Vec<f64> = weights.iter().map(|w| *w as f64).collect();
        self.rng.lock().unwrap().weighted(&w)
    }

    fn get_rng(&self) -> RandomGen {
        RandomGen::new_randomized()
    }
}

fn quiet_environment(random: Arc<dyn Random>, cpus: Option<usize>) -> Arc<Environment> {
    let parallelism = cpus.map(Parallelism::new_with_cpus).unwrap_or_default();
    Arc::new(Environment::new(random, None, parallelism, Arc::new(|_: &str| {}), false))
}

// ---------------------------------------------------------------------------------------------
// configurations

#[derive(Clone, Copy, Debug, PartialEq)]
enum Dedup {
    Default,
    Never,
    Always,
    ExactFitness,
    IdParity,
    WeightsClose,
    FitnessWithinOne,
}

const DEDUPS: [Dedup; 7] = [
    Dedup::Default,
    Dedup::Never,
    Dedup::Always,
    Dedup::ExactFitness,
    Dedup::IdParity,
    Dedup::WeightsClose,
    Dedup::FitnessWithinOne,
];

#[derive(Clone, Debug)]
enum Cfg {
    Greedy { selection_size: usize, with_initial: bool },
    Elitism { max_size: usize, selection_size: usize, dedup: Dedup },
    Rosomaxa {
        initial_size: usize,
        selection_size: usize,
        elite_size: usize,
        node_size: usize,
        spread_factor: f64,
        distribution_factor: f64,
        rebalance_memory: usize,
        exploration_ratio: f64,
    },
}

impl Cfg {
    fn kind(&self) -> &'static str {
        match self {
            Cfg::Greedy { .. } => "greedy",
            Cfg::Elitism { .. } => "elitism",
            Cfg::Rosomaxa { .. } => "rosomaxa",
        }
    }

    fn to_json(&self) -> Value {
        match self {
            Cfg::Greedy { selection_size, with_initial } => {
                json!({"type": "greedy", "selection_size": selection_size, "with_initial_best_known": with_initial})
            }
            Cfg::Elitism { max_size, selection_size, dedup } => {
                json!({"type": "elitism", "max_size": max_size, "selection_size": selection_size, "dedup": format!("{dedup:?}")})
            }
            Cfg::Rosomaxa {
                initial_size,
                selection_size,
                elite_size,
                node_size,
                spread_factor,
                distribution_factor,
                rebalance_memory,
                exploration_ratio,
            } => json!({"type": "rosomaxa", "initial_size": initial_size, "selection_size": selection_size,
                "elite_size": elite_size, "node_size": node_size, "spread_factor": spread_factor,
                "distribution_factor": distribution_factor, "rebalance_memory": rebalance_memory,
                "exploration_ratio": exploration_ratio}),
        }
    }

    /// Workload class that goes into panic signatures (stable, derived from the configuration only).
    fn class(&self) -> String {
        match self {
            Cfg::Greedy { .. } => "any".to_string(),
            Cfg::Elitism { dedup, .. } => format!("dedup={dedup:?}"),
            Cfg::Rosomaxa { initial_size, .. } => {
                if *initial_size < 4 { "initial_size<4".to_string() } else { "initial_size>=4".to_string() }
            }
        }
    }
}

fn gen_cfg(rng: &mut Rng) -> Cfg {
    match rng.weighted(&[0.2, 0.4, 0.4]) {
        0 => Cfg::Greedy { selection_size: *rng.pick(&[1, 1, 2, 3, 4, 8]), with_initial: rng.chance(0.25) },
        1 => Cfg::Elitism {
            max_size: *rng.pick(&[1, 1, 2, 2, 3, 4, 5, 8, 16, 64]),
            selection_size: *rng.pick(&[1, 1, 2, 3, 4, 8]),
            dedup: if rng.chance(0.4) { Dedup::Default } else { *rng.pick(&DEDUPS) },
        },
        _ => Cfg::Rosomaxa {
            initial_size: if rng.chance(0.04) { rng.range_usize(1, 3) } else { *rng.pick(&[4, 4, 5, 6, 8, 12, 16, 32]) },
            selection_size: *rng.pick(&[2, 2, 3, 4, 6, 7, 8, 12]),
            elite_size: rng.range_usize(1, 5),
            node_size: rng.range_usize(1, 4),
            spread_factor: *rng.pick(&[0.05, 0.25, 0.5, 0.75, 0.9, 0.99]),
            distribution_factor: *rng.pick(&[0.05, 0.25, 0.5, 0.75, 0.9, 0.99]),
            rebalance_memory: *rng.pick(&[1, 2, 3, 5, 10, 50, 100, 200, 500]),
            exploration_ratio: *rng.pick(&[0., 0.05, 0.3, 0.5, 0.9, 0.9, 1., 2.]),
        },
    }
}

fn weights_distance(a: &Sol, b: &Sol) -> f64 {
    // data[2..] are the weights
    a.data.iter().skip(2).zip(b.data.iter().skip(2)).map(|(x, y)| (x - y).abs()).fold(0., f64::max)
}

fn fitness_of(s: &Sol) -> f64 {
    s.fitness().next().expect("fitness")
}

fn make_dedup(dedup: Dedup) -> Box<dyn Fn(&Obj, &Sol, &Sol) -> bool + Send + Sync> {
    match dedup {
        Dedup::Default => unreachable!(),
        Dedup::Never => Box::new(|_, _, _| false),
        Dedup::Always => Box::new(|_, _, _| true),
        Dedup::ExactFitness => Box::new(|_, a, b| fitness_of(a) == fitness_of(b)),
        Dedup::IdParity => Box::new(|_, a, b| (a.data[1] as u64) % 2 == (b.data[1] as u64) % 2),
        Dedup::WeightsClose => Box::new(|_, a, b| weights_distance(a, b) < 0.5),
        Dedup::FitnessWithinOne => Box::new(|_, a, b| (fitness_of(a) - fitness_of(b)).abs() < 1.),
    }
}

enum Pop {
    Greedy(Greedy<Obj, Sol>),
    Elitism(Elitism<Obj, Sol>),
    Rosomaxa(Box<Rosomaxa<VectorRosomaxaContext, Obj, Sol>>),
}

impl Pop {
    fn get(&self) -> &DynPop {
        match self {
            Pop::Greedy(p) => p,
            Pop::Elitism(p) => p,
            Pop::Rosomaxa(p) => p.as_ref(),
        }
    }

    fn get_mut(&mut self) -> &mut DynPop {
        match self {
            Pop::Greedy(p) => p,
            Pop::Elitism(p) => p,
            Pop::Rosomaxa(p) => p.as_mut(),
        }
    }
}

fn make_objective() -> Arc<Obj> {
    Arc::new(VectorObjective::new(Arc::new(|data: &[f64]| data[0]), Arc::new(|data: &[f64]| data[2..].to_vec())))
}

// ---------------------------------------------------------------------------------------------
// individuals, value streams, operations

#[derive(Clone, Debug)]
struct Ind {
    id: u64,
    fitness: f64,
    weights: Vec<f64>,
}

impl Ind {
    fn data(&self) -> Vec<f64> {
        let mut d = Vec::with_capacity(2 + self.weights.len());
        d.push(self.fitness);
        d.push(self.id as f64);
        d.extend_from_slice(&self.weights);
        d
    }

    fn to_solution(&self, objective: &Obj) -> Sol {
        VectorSolution::new_with_objective(self.data(), objective)
    }
}

#[derive(Clone, Copy, Debug, PartialEq)]
enum Stream {
    Uniform,
    SmallInts,
    Zeros,
    Huge,
    Improving,
    Worsening,
    BestFirst,
    NearDup,
    Mixed,
}

const STREAMS: [Stream; 9] = [
    Stream::Uniform,
    Stream::SmallInts,
    Stream::Zeros,
    Stream::Huge,
    Stream::Improving,
    Stream::Worsening,
    Stream::BestFirst,
    Stream::NearDup,
    Stream::Mixed,
];

#[derive(Clone, Copy, Debug, PartialEq)]
enum WeightMode {
    Random,
    Identical,
    Grid,
    FromFitness,
    NearDup,
}

const WEIGHT_MODES: [WeightMode; 5] =
    [WeightMode::Random, WeightMode::Identical, WeightMode::Grid, WeightMode::FromFitness, WeightMode::NearDup];

fn next_down(x: f64) -> f64 {
    // largest float strictly below x (finite x)
    if x == 0. {
        return -f64::from_bits(1);
    }
    let bits = x.to_bits();
    if x > 0. { f64::from_bits(bits - 1) } else { f64::from_bits(bits + 1) }
}

fn next_up(x: f64) -> f64 {
    -next_down(-x)
}

struct ValueGen {
    stream: Stream,
    cur: f64,
    base: f64,
    count: u64,
    /// IEEE minimum of everything generated so far (generator-side knowledge, not the oracle)
    min: Option<f64>,
    weight_mode: WeightMode,
    dim: usize,
    base_weights: Vec<f64>,
    next_id: u64,
}

impl ValueGen {
    fn new(rng: &mut Rng) -> Self {
        let stream = *rng.pick(&STREAMS);
        let dim = rng.range_usize(1, 4);
        let base = match rng.below(4) {
            0 => rng.range_f64(-1000., 1000.),
            1 => rng.range_f64(0.001, 1.),
            2 => -rng.range_f64(1., 1e6),
            _ => rng.range_f64(1., 1e6),
        };
        Self {
            stream,
            cur: base,
            base,
            count: 0,
            min: None,
            weight_mode: *rng.pick(&WEIGHT_MODES),
            dim,
            base_weights: (0..dim).map(|_| rng.range_f64(-10., 10.)).collect(),
            next_id: 0,
        }
    }

    fn value_of(&mut self, stream: Stream, rng: &mut Rng) -> f64 {
        match stream {
            Stream::Uniform => rng.range_f64(-100., 100.),
            Stream::SmallInts => rng.range_i64(-2, 3) as f64,
            Stream::Zeros => *rng.pick(&[
                0.,
                -0.,
                0.,
                -0.,
                5e-324,
                -5e-324,
                1e-310,
                -1e-310,
                f64::MIN_POSITIVE,
                -f64::MIN_POSITIVE,
                1.,
                -1.,
            ]),
            Stream::Huge => match rng.below(10) {
                0 => 1e300,
                1 => -1e300,
                2 => 1e308,
                3 => -1e308,
                4 => f64::MAX,
                5 => f64::MIN,
                6 => rng.range_f64(-1., 1.) * 1e300,
                7 => next_up(1e300),
                8 => 0.,
                _ => rng.range_f64(-1., 1.),
            },
            Stream::Improving => {
                let step = if rng.chance(0.3) { 0. } else { rng.range_f64(0., 10.) };
                let mut v = self.cur - step;
                if v >= self.cur {
                    v = next_down(self.cur);
                }
                self.cur = v;
                v
            }
            Stream::Worsening => {
                let step = if rng.chance(0.3) { 0. } else { rng.range_f64(0., 10.) };
                let mut v = self.cur + step;
                if v <= self.cur {
                    v = next_up(self.cur);
                }
                self.cur = v;
                v
            }
            Stream::BestFirst => {
                if self.count == 0 {
                    -1e6
                } else {
                    rng.range_f64(0., 100.)
                }
            }
            Stream::NearDup => match rng.below(5) {
                0 => self.base,
                1 => self.base * (1. + rng.range_f64(-0.04, 0.04)),
                2 => self.base * (1. + rng.range_f64(-1e-9, 1e-9)),
                3 => {
                    if rng.chance(0.5) {
                        next_up(self.base)
                    } else {
                        next_down(self.base)
                    }
                }
                _ => self.base * (1. + rng.range_f64(-0.2, 0.2)),
            },
            Stream::Mixed => {
                let s = *rng.pick(&STREAMS[..8]);
                self.value_of(s, rng)
            }
        }
    }

    fn weights_for(&mut self, fitness: f64, rng: &mut Rng) -> Vec<f64> {
        match self.weight_mode {
            WeightMode::Random => (0..self.dim).map(|_| rng.range_f64(-10., 10.)).collect(),
            WeightMode::Identical => self.base_weights.clone(),
            WeightMode::Grid => (0..self.dim).map(|_| rng.range_i64(0, 2) as f64).collect(),
            WeightMode::FromFitness => {
                let squashed = if fitness.is_finite() { fitness.clamp(-1e6, 1e6) } else { 0. };
                (0..self.dim).map(|i| if i == 0 { squashed } else { rng.range_f64(-10., 10.) }).collect()
            }
            WeightMode::NearDup => self.base_weights.iter().map(|w| w * (1. + rng.range_f64(-1e-3, 1e-3))).collect(),
        }
    }

    fn ind_with(&mut self, fitness: f64, rng: &mut Rng) -> Ind {
        let id = self.next_id;
        self.next_id += 1;
        self.count += 1;
        self.min = Some(match self.min {
            Some(m) if m <= fitness => m,
            _ => fitness,
        });
        let weights = self.weights_for(fitness, rng);
        Ind { id, fitness, weights }
    }

    fn ind(&mut self, rng: &mut Rng) -> Ind {
        let f = self.value_of(self.stream, rng);
        self.ind_with(f, rng)
    }

    /// A value strictly better (IEEE `<`) than everything generated so far.
    fn new_best_value(&mut self, rng: &mut Rng) -> f64 {
        match self.min {
            None => self.value_of(self.stream, rng),
            Some(m) => {
                let step = match rng.below(3) {
                    0 => 0.,
                    1 => m.abs() * rng.range_f64(1e-12, 1e-3),
                    _ => rng.range_f64(0.001, 50.),
                };
                let v = m - step;
                if v < m && v.is_finite() {
                    v
                } else if m > f64::MIN {
                    next_down(m)
                } else {
                    m // nothing is below f64::MIN: an exact tie with the best instead
                }
            }
        }
    }

    fn batch(&mut self, rng: &mut Rng, run: &Run) -> Vec<Ind> {
        let shape = rng.weighted(&[0.12, 0.38, 0.2, 0.1, 0.1, 0.1]);
        let out = match shape {
            0 => {
                run.observe("batch_shape", "empty");
                vec![]
            }
            1 => {
                run.observe("batch_shape", "stream");
                let n = rng.range_usize(1, 20);
                (0..n).map(|_| self.ind(rng)).collect()
            }
            2 => {
                // the new best together with many near-duplicates of it (slightly worse), best first/inside/last
                let n = rng.range_usize(2, 20);
                let best = self.new_best_value(rng);
                let mut values: Vec<f64> = (0..n - 1)
                    .map(|_| {
                        let rel = *rng.pick(&[0., 1e-15, 1e-9, 1e-4, 0.01, 0.04]);
                        let v = best + best.abs() * rel;
                        if v.is_finite() && v >= best { v } else { best }
                    })
                    .collect();
                let pos = match rng.below(3) {
                    0 => {
                        run.observe("batch_shape", "best+neardups|best-first");
                        0
                    }
                    1 => {
                        run.observe("batch_shape", "best+neardups|best-last");
                        values.len()
                    }
                    _ => {
                        run.observe("batch_shape", "best+neardups|best-inside");
                        rng.usize_below(values.len() + 1)
                    }
                };
                values.insert(pos, best);
                // near-duplicate weights too, so that weight-based dedup functions interact
                let w = self.weights_for(best, rng);
                values
                    .into_iter()
                    .map(|v| {
                        let mut ind = self.ind_with(v, rng);
                        if rng.chance(0.7) {
                            ind.weights = w.iter().map(|x| x * (1. + rng.range_f64(-1e-4, 1e-4))).collect();
                        }
                        ind
                    })
                    .collect()
            }
            3 => {
                run.observe("batch_shape", "all-equal");
                let n = rng.range_usize(2, 20);
                let v = match self.min {
                    Some(m) if rng.chance(0.5) => m, // exact ties with the best known
                    _ => self.value_of(self.stream, rng),
                };
                (0..n).map(|_| self.ind_with(v, rng)).collect()
            }
            4 => {
                // the best somewhere inside an otherwise worsening batch
                run.observe("batch_shape", "best-inside-stream");
                let n = rng.range_usize(2, 20);
                let pos = rng.usize_below(n);
                (0..n)
                    .map(|i| {
                        if i == pos {
                            let b = self.new_best_value(rng);
                            self.ind_with(b, rng)
                        } else {
                            self.ind(rng)
                        }
                    })
                    .collect()
            }
            _ => {
                // strictly improving inside the batch: every element is a new best, the last one is the best
                run.observe("batch_shape", "improving-batch");
                let n = rng.range_usize(2, 20);
                (0..n)
                    .map(|_| {
                        let b = self.new_best_value(rng);
                        self.ind_with(b, rng)
                    })
                    .collect()
            }
        };
        out
    }
}

#[derive(Clone, Debug)]
enum SpeedSpec {
    Unknown,
    Moderate { average: f64 },
    Slow { ratio: f64, average: f64 },
}

#[derive(Clone, Debug)]
struct StatSpec {
    generation: usize,
    termination_estimate: f64,
    speed: SpeedSpec,
    improvement_all_ratio: f64,
    improvement_1000_ratio: f64,
}

impl StatSpec {
    fn to_statistics(&self) -> HeuristicStatistics {
        HeuristicStatistics {
            generation: self.generation,
            time: Timer::start(),
            speed: match &self.speed {
                SpeedSpec::Unknown => HeuristicSpeed::Unknown,
                SpeedSpec::Moderate { average } => HeuristicSpeed::Moderate { average: *average, median: Some(10) },
                SpeedSpec::Slow { ratio, average } => {
                    HeuristicSpeed::Slow { ratio: *ratio, average: *average, median: Some(500) }
                }
            },
            improvement_all_ratio: self.improvement_all_ratio,
            improvement_1000_ratio: self.improvement_1000_ratio,
            termination_estimate: self.termination_estimate,
        }
    }

    fn to_json(&self) -> Value {
        json!({"generation": self.generation, "termination_estimate": self.termination_estimate,
            "speed": format!("{:?}", self.speed), "improvement_all_ratio": self.improvement_all_ratio,
            "improvement_1000_ratio": self.improvement_1000_ratio})
    }
}

#[derive(Clone, Copy, Debug, PartialEq)]
enum TeMode {
    Never,
    Slow,
    Medium,
    Fast,
    Jump,
    Random,
    StartHigh,
}

const TE_MODES: [TeMode; 7] =
    [TeMode::Never, TeMode::Slow, TeMode::Medium, TeMode::Fast, TeMode::Jump, TeMode::Random, TeMode::StartHigh];

struct StatGen {
    mode: TeMode,
    te: f64,
    generation: usize,
    ticks: u64,
    jump_at: u64,
    speed_mode: u64,
}

impl StatGen {
    fn new(rng: &mut Rng) -> Self {
        let mode = *rng.pick(&TE_MODES);
        Self {
            mode,
            te: if mode == TeMode::StartHigh { rng.range_f64(0.5, 1.) } else { 0. },
            generation: if rng.chance(0.15) { rng.range_usize(1, 5000) } else { 0 },
            ticks: 0,
            jump_at: rng.range_i64(0, 30) as u64,
            speed_mode: rng.below(4),
        }
    }

    fn next(&mut self, rng: &mut Rng) -> StatSpec {
        // termination estimate is a progress value in [0, 1] (the code asserts that range)
        let te = match self.mode {
            TeMode::Never => 0.,
            TeMode::Slow => self.te + rng.range_f64(0., 0.01),
            TeMode::Medium => self.te + rng.range_f64(0., 0.06),
            TeMode::Fast => self.te + rng.range_f64(0., 0.35),
            TeMode::Jump => {
                if self.ticks >= self.jump_at {
                    1.
                } else {
                    self.te + rng.range_f64(0., 0.005)
                }
            }
            TeMode::Random => rng.f64(),
            TeMode::StartHigh => self.te + rng.range_f64(0., 0.05),
        };
        self.te = te.clamp(0., 1.);
        let spec = StatSpec {
            generation: self.generation,
            termination_estimate: self.te,
            speed: {
                let m = if rng.chance(0.7) { self.speed_mode } else { rng.below(4) };
                match m {
                    0 => SpeedSpec::Unknown,
                    1 => SpeedSpec::Moderate { average: rng.range_f64(8., 500.) },
                    2 => SpeedSpec::Slow { ratio: *rng.pick(&[0.25, 0.5, 1.]), average: rng.range_f64(0.1, 8.) },
                    _ => SpeedSpec::Slow { ratio: *rng.pick(&[0.01, 0.1, 0.25, 0.5]), average: rng.range_f64(0.1, 8.) },
                }
            },
            improvement_all_ratio: *rng.pick(&[0., 0.001, 0.05, 0.166, 0.5, 1.]),
            improvement_1000_ratio: if rng.chance(0.5) { rng.f64() } else { *rng.pick(&[0., 0.166, 1.]) },
        };
        self.ticks += 1;
        self.generation += if rng.chance(0.9) { 1 } else { rng.range_usize(0, 300) };
        spec
    }
}

#[derive(Clone, Debug)]
enum Op {
    Add(Ind),
    AddAll(Vec<Ind>),
    OnGeneration(StatSpec),
    Select(usize),
    Ranked,
    All,
    Size,
    Phase,
    Resize(usize),
}

impl Op {
    fn name(&self) -> &'static str {
        match self {
            Op::Add(_) => "add",
            Op::AddAll(_) => "add_all",
            Op::OnGeneration(_) => "on_generation",
            Op::Select(_) => "select",
            Op::Ranked => "ranked",
            Op::All => "all",
            Op::Size => "size",
            Op::Phase => "selection_phase",
            Op::Resize(_) => "set_max_population_size",
        }
    }

    fn to_json(&self) -> Value {
        let ind = |i: &Ind| json!({"id": i.id, "fitness": i.fitness, "fitness_bits": format!("{:016x}", i.fitness.to_bits()), "weights": i.weights});
        match self {
            Op::Add(i) => json!({"op": "add", "individual": ind(i)}),
            Op::AddAll(b) => json!({"op": "add_all", "individuals": b.iter().map(ind).collect::<Vec<_>>()}),
            Op::OnGeneration(s) => json!({"op": "on_generation", "statistics": s.to_json()}),
            Op::Select(k) => json!({"op": "select", "take": k}),
            Op::Ranked => json!({"op": "ranked"}),
            Op::All => json!({"op": "all"}),
            Op::Size => json!({"op": "size"}),
            Op::Phase => json!({"op": "selection_phase"}),
            Op::Resize(n) => json!({"op": "set_max_population_size", "size": n}),
        }
    }
}

fn gen_history(rng: &mut Rng, cfg: &Cfg, run: &Run) -> (Vec<Op>, Option<Ind>, Stream, WeightMode, TeMode) {
    let mut values = ValueGen::new(rng);
    let mut stats = StatGen::new(rng);
    // id 0 is the initial best known given to Greedy's constructor (it counts as offered)
    let initial = if matches!(cfg, Cfg::Greedy { with_initial: true, .. }) { Some(values.ind(rng)) } else { None };
    let len = match rng.below(4) {
        0 => rng.range_usize(1, 12),
        1 => rng.range_usize(12, 60),
        _ => rng.range_usize(60, 200),
    };
    // per-history operation mix (some histories have no batches, some no singles, some are tick-heavy)
    let mut w = [3.0, 2.5, 1.5, 1.0, 0.4, 0.4, 0.4, 0.4, 0.0];
    match rng.below(6) {
        0 => w[1] = 0.,
        1 => w[0] = 0.,
        2 => w[2] = 5.,
        3 => w[2] = 0.,
        _ => {}
    }
    if matches!(cfg, Cfg::Elitism { .. }) && rng.chance(0.3) {
        w[8] = 0.3;
    }
    let mut ops = Vec::with_capacity(len + 1);
    for _ in 0..len {
        let op = match rng.weighted(&w) {
            0 => Op::Add(values.ind(rng)),
            1 => Op::AddAll(values.batch(rng, run)),
            2 => Op::OnGeneration(stats.next(rng)),
            3 => Op::Select(*rng.pick(&[1, 2, 3, 5, 8, 16, 64])),
            4 => Op::Ranked,
            5 => Op::All,
            6 => Op::Size,
            7 => Op::Phase,
            _ => Op::Resize(rng.range_usize(1, 8)),
        };
        ops.push(op);
    }
    // the best arriving last (singly or inside a final batch)
    match rng.below(5) {
        0 => {
            let b = values.new_best_value(rng);
            ops.push(Op::Add(values.ind_with(b, rng)));
            run.observe("history_shape", "best-arrives-last|add");
        }
        1 => {
            let n = rng.range_usize(1, 20);
            let pos = rng.usize_below(n);
            let mut batch = Vec::new();
            let b = values.new_best_value(rng);
            for i in 0..n {
                if i == pos {
                    batch.push(values.ind_with(b, rng));
                } else {
                    let v = b + rng.range_f64(0., 5.);
                    batch.push(values.ind_with(if v.is_finite() && v >= b { v } else { b }, rng));
                }
            }
            ops.push(Op::AddAll(batch));
            run.observe("history_shape", "best-arrives-last|add_all");
        }
        _ => {}
    }
    (ops, initial, values.stream, values.weight_mode, stats.mode)
}

// ---------------------------------------------------------------------------------------------
// the monitor

struct Offered {
    sol: Sol,
    fitness: f64,
    op_idx: usize,
}

struct Case<'a> {
    run: &'a Run,
    case_seed: u64,
    cfg: Cfg,
    kind: &'static str,
    objective: Arc<Obj>,
    offered: Vec<Offered>,
    bound: usize,
    history: Vec<Value>,
    /// running IEEE minimum of all offered fitness values
    model_min: Option<f64>,
    hash: u64,
}

struct Stop;

fn phase_name(p: &SelectionPhase) -> &'static str {
    match p {
        SelectionPhase::Initial => "initial",
        SelectionPhase::Exploration => "exploration",
        SelectionPhase::Exploitation => "exploitation",
    }
}

impl<'a> Case<'a> {
    fn artefact(&self, extra: Value) -> Value {
        json!({
            "part": "history",
            "case_seed": self.case_seed,
            "population": self.cfg.to_json(),
            "encoding": "data = [fitness, id, weights...]; fitness_fn = data[0]; weight_fn = data[2..]",
            "failing_op_index": self.history.len().saturating_sub(1),
            "history": self.history,
            "observed": extra,
        })
    }

    fn fail(&self, clause: &str, what: String, extra: Value) -> Stop {
        let sig = format!("C08|{}|{}", self.kind, clause);
        self.run.violation(&sig, &what, self.artefact(extra));
        Stop
    }

    fn panic(&self, op: &str, info: &PanicInfo) -> Stop {
        let mut sig = format!("C08|{}|panic|op={}|{}|{}", self.kind, op, self.cfg.class(), info.file());
        // the plain `initial_size<4` signature is reserved for the one specific case "network cannot be
        // created from fewer than 4 initial individuals"; any other panic of that class gets its own one
        if sig == "C08|rosomaxa|panic|op=on_generation|initial_size<4|rosomaxa/src/population/rosomaxa.rs"
            && !(info.message.contains("cannot create network") && info.message.contains("cannot select initial samples"))
        {
            sig.push_str("|other-message");
        }
        self.run.violation(
            &sig,
            &format!("{} population panicked in {}: {} at {}", self.kind, op, info.message, info.location),
            self.artefact(info.to_json()),
        );
        Stop
    }

    fn register(&mut self, ind: &Ind, op_idx: usize) -> Sol {
        assert_eq!(ind.id as usize, self.offered.len(), "harness: ids are dense");
        let sol = ind.to_solution(&self.objective);
        self.offered.push(Offered { sol: sol.clone(), fitness: ind.fitness, op_idx });
        self.hash = mix(self.hash, ind.fitness.to_bits());
        sol
    }

    /// Identifies an individual returned by the population: it must be bit-identical to an offered one.
    fn identify(&self, s: &Sol, method: &str) -> Result<usize, Stop> {
        let id = s.data.get(1).copied().unwrap_or(f64::NAN);
        let known = id >= 0. && id.fract() == 0. && (id as usize) < self.offered.len();
        if known {
            let o = &self.offered[id as usize];
            let same_data =
                o.sol.data.len() == s.data.len() && o.sol.data.iter().zip(s.data.iter()).all(|(a, b)| a.to_bits() == b.to_bits());
            if same_data && fitness_of(s).to_bits() == o.fitness.to_bits() {
                return Ok(id as usize);
            }
        }
        Err(self.fail(
            &format!("{method}-unknown-individual"),
            format!(
                "{method}() of {} yielded an individual that was never offered (data={:?}, fitness={:?})",
                self.kind,
                s.data,
                fitness_of(s)
            ),
            json!({"data": s.data, "fitness": fitness_of(s)}),
        ))
    }

    /// Compares the observable state with the model; called after EVERY operation.
    fn check(&mut self, pop: &Pop, op: &Op, op_idx: usize, select_take: usize, phase_tag: &str) -> Result<bool, Stop> {
        let run = self.run;
        let kind = self.kind;
        let p = pop.get();
        let observed = run.guard(|| {
            let ranked: Vec<Sol> = p.ranked().take(ITER_CAP).cloned().collect();
            let all: Vec<Sol> = p.all().take(ITER_CAP).cloned().collect();
            let size = p.size();
            let selected: Vec<Sol> = p.select().take(select_take).cloned().collect();
            (ranked, all, size, selected)
        });
        let (ranked, all, size, selected) = match observed {
            Ok(v) => v,
            Err(info) => return Err(self.panic("observe(ranked/all/size/select)", &info)),
        };
        let opn = op.name();
        let best_sig = |clause: &str| {
            if kind == "rosomaxa" { format!("{clause}|op={opn}|phase={phase_tag}") } else { format!("{clause}|op={opn}") }
        };

        // identity: everything handed out must have been offered
        let ranked_ids = ranked.iter().map(|s| self.identify(s, "ranked")).collect::<Result<Vec<_>, _>>()?;
        let all_ids = all.iter().map(|s| self.identify(s, "all")).collect::<Result<Vec<_>, _>>()?;
        let selected_ids = selected.iter().map(|s| self.identify(s, "select")).collect::<Result<Vec<_>, _>>()?; // (iv)
        run.eval_n(3);

        // (i) the first ranked individual is no worse than everything ever offered
        if !self.offered.is_empty() {
            let Some(first) = ranked.first() else {
                return Err(self.fail(
                    &best_sig("best-lost"),
                    format!("{kind}: ranked() is empty after {} individuals were offered", self.offered.len()),
                    json!({"offered": self.offered.len(), "size": size}),
                ));
            };
            let first_f = fitness_of(first);
            for (id, o) in self.offered.iter().enumerate() {
                let ord = self.objective.total_order(first, &o.sol);
                let f64_ok = first_f <= o.fitness; // own comparison (IEEE; +-0 equal, so never stricter than total_order)
                if ord == Ordering::Greater || !f64_ok {
                    let clause = if ord == Ordering::Greater { best_sig("best-lost") } else { best_sig("best-lost|f64-only") };
                    return Err(self.fail(
                        &clause,
                        format!(
                            "{kind}: after op #{op_idx} ({opn}) ranked().next() has fitness {first_f:?} (id {}) but individual id {id} with fitness {:?} was offered in op #{}: total_order(first, offered)={ord:?}",
                            ranked_ids[0], o.fitness, o.op_idx
                        ),
                        json!({"first_ranked": {"id": ranked_ids[0], "fitness": first_f}, "better_offered": {"id": id, "fitness": o.fitness, "op": o.op_idx},
                            "ranked_fitness": ranked.iter().map(fitness_of).collect::<Vec<_>>()}),
                    ));
                }
            }
            if let Some(m) = self.model_min {
                if !(first_f <= m) {
                    return Err(self.fail(
                        &best_sig("best-lost|f64-only"),
                        format!("{kind}: first ranked fitness {first_f:?} is above the running minimum {m:?}"),
                        json!({"first": first_f, "min": m}),
                    ));
                }
            }
            run.eval();

            // Greedy documents: "If solutions are equal, prefers to keep first discovered."
            if kind == "greedy" {
                let first_op = self.offered[ranked_ids[0]].op_idx;
                if let Some((id, o)) = self
                    .offered
                    .iter()
                    .enumerate()
                    .find(|(_, o)| o.op_idx < first_op && self.objective.total_order(first, &o.sol) == Ordering::Equal)
                {
                    return Err(self.fail(
                        "tie-not-first-discovered",
                        format!(
                            "greedy keeps id {} (op #{first_op}) although the equal individual id {id} was discovered earlier (op #{})",
                            ranked_ids[0], o.op_idx
                        ),
                        json!({"kept": ranked_ids[0], "earlier_equal": id}),
                    ));
                }
                run.eval();
            }
        } else if !ranked.is_empty() || size != 0 {
            // unreachable given the identity check above, kept for completeness
            return Err(self.fail("nonempty-before-any-offer", format!("{kind}: size {size} before any offer"), json!({})));
        }

        // (ii) ranked is sorted (under the objective, under the population's own `cmp`, and as plain floats)
        for (i, w) in ranked.windows(2).enumerate() {
            let ord = self.objective.total_order(&w[0], &w[1]);
            let (fa, fb) = (fitness_of(&w[0]), fitness_of(&w[1]));
            if ord == Ordering::Greater || !(fa <= fb) || p.cmp(&w[0], &w[1]) == Ordering::Greater {
                return Err(self.fail(
                    "ranked-unsorted",
                    format!("{kind}: ranked()[{i}]={fa:?} is worse than ranked()[{}]={fb:?} after op #{op_idx} ({opn})", i + 1),
                    json!({"ranked_fitness": ranked.iter().map(fitness_of).collect::<Vec<_>>()}),
                ));
            }
        }
        run.eval();

        // (iii) sizes within the configured bound
        if size > self.bound || (kind != "rosomaxa" && (ranked.len() > self.bound || all.len() > self.bound)) {
            return Err(self.fail(
                "size-above-bound",
                format!("{kind}: size()={size}, ranked={}, all={} above the configured bound {}", ranked.len(), all.len(), self.bound),
                json!({"size": size, "ranked": ranked.len(), "all": all.len(), "bound": self.bound}),
            ));
        }
        if kind == "rosomaxa" {
            // ranked() of rosomaxa is its elite: bounded by elite_size
            if ranked.len() > self.bound {
                return Err(self.fail(
                    "size-above-bound",
                    format!("rosomaxa: ranked() yields {} individuals, elite_size is {}", ranked.len(), self.bound),
                    json!({"ranked": ranked.len(), "bound": self.bound}),
                ));
            }
            if all.len() != size {
                run.observe("unspecified", &format!("rosomaxa|{phase_tag}|all().count()!=size()"));
            }
            if ranked.len() != size {
                run.observe("unspecified", "rosomaxa|ranked().count()!=size()");
            }
        } else if size != ranked.len() || size != all.len() {
            // greedy / elitism: `all` = "all individuals", `size` = "population size", ranked = the same list
            return Err(self.fail(
                "size-mismatch",
                format!("{kind}: size()={size} but ranked() yields {} and all() yields {}", ranked.len(), all.len()),
                json!({"size": size, "ranked": ranked.len(), "all": all.len()}),
            ));
        }
        // "ranked: returns subset of individuals": every ranked individual is among all()
        if let Some(missing) = ranked_ids.iter().find(|id| !all_ids.contains(id)) {
            return Err(self.fail(
                "ranked-not-subset-of-all",
                format!("{kind}: ranked() yields id {missing} which all() does not yield"),
                json!({"ranked": ranked_ids, "all": all_ids}),
            ));
        }
        run.eval();

        // (iv) select yields something whenever the population is non-empty
        if size > 0 && select_take > 0 && selected.is_empty() {
            let clause = if kind == "rosomaxa" {
                format!("select-empty-while-nonempty|phase={phase_tag}")
            } else {
                "select-empty-while-nonempty".to_string()
            };
            return Err(self.fail(
                &clause,
                format!("{kind}: select() yields nothing while size()={size} after op #{op_idx} ({opn})"),
                json!({"size": size}),
            ));
        }
        run.eval();

        // observations
        if size > 0 {
            run.observe("state", &format!("{kind}|nonempty"));
        }
        if size == self.bound {
            run.observe("state", &format!("{kind}|size==bound"));
        }
        if !selected_ids.is_empty() {
            run.observe("state", &format!("{kind}|select-nonempty"));
            if selected_ids.iter().any(|id| *id != selected_ids[0]) {
                run.observe("state", &format!("{kind}|select-distinct-individuals"));
            }
        }
        if kind == "rosomaxa" && all.len() > ranked.len() {
            run.observe("state", "rosomaxa|all-includes-network-nodes");
        }
        Ok(!selected_ids.is_empty())
    }
}

fn build_population(cfg: &Cfg, objective: Arc<Obj>, random: Arc<dyn Random>, initial: Option<Sol>) -> Result<Pop, String> {
    match cfg {
        Cfg::Greedy { selection_size, .. } => Ok(Pop::Greedy(Greedy::new(objective, *selection_size, initial))),
        Cfg::Elitism { max_size, selection_size, dedup } => Ok(Pop::Elitism(match dedup {
            Dedup::Default => Elitism::new(objective, random, *max_size, *selection_size),
            d => Elitism::new_with_dedup(objective, random, *max_size, *selection_size, make_dedup(*d)),
        })),
        Cfg::Rosomaxa {
            initial_size,
            selection_size,
            elite_size,
            node_size,
            spread_factor,
            distribution_factor,
            rebalance_memory,
            exploration_ratio,
        } => {
            let config = RosomaxaConfig {
                initial_size: *initial_size,
                selection_size: *selection_size,
                elite_size: *elite_size,
                node_size: *node_size,
                spread_factor: *spread_factor,
                distribution_factor: *distribution_factor,
                rebalance_memory: *rebalance_memory,
                exploration_ratio: *exploration_ratio,
            };
            let env = quiet_environment(random, None);
            Rosomaxa::new(VectorRosomaxaContext, objective, env, config)
                .map(|r| Pop::Rosomaxa(Box::new(r)))
                .map_err(|e| e.to_string())
        }
    }
}

fn history_case(run: &Run, case_seed: u64) {
    let mut rng = Rng::new(case_seed);
    let cfg = gen_cfg(&mut rng);
    let kind = cfg.kind();
    let random: Arc<dyn Random> =
        if rng.chance(0.7) { Arc::new(SeededRandom::new(rng.next_u64())) } else { Arc::new(DefaultRandom::default()) };
    let (ops, initial_ind, stream, weight_mode, te_mode) = gen_history(&mut rng, &cfg, run);
    let objective = make_objective();

    let mut case = Case {
        run,
        case_seed,
        kind,
        objective: objective.clone(),
        offered: vec![],
        bound: match &cfg {
            Cfg::Greedy { .. } => 1,
            Cfg::Elitism { max_size, .. } => *max_size,
            Cfg::Rosomaxa { elite_size, .. } => *elite_size,
        },
        cfg: cfg.clone(),
        history: vec![],
        model_min: None,
        hash: mix(case_seed, 7),
    };

    // Greedy may be constructed with an initial best known: it counts as offered (op index 0)
    let initial = if let Some(ind) = initial_ind.as_ref() {
        case.history.push(json!({"op": "new(best_known)", "individual": {"id": 0, "fitness": ind.fitness}}));
        let sol = case.register(ind, 0);
        case.model_min = Some(ind.fitness);
        Some(sol)
    } else {
        case.history.push(json!({"op": "new"}));
        None
    };

    let built = run.guard(|| build_population(&cfg, objective.clone(), random.clone(), initial));
    let mut pop = match built {
        Ok(Ok(p)) => p,
        Ok(Err(e)) => {
            run.inconclusive(&format!("constructor refused configuration: {e}"));
            return;
        }
        Err(info) => {
            let _ = case.panic("new", &info);
            return;
        }
    };

    run.observe("value_stream", &format!("{stream:?}"));
    run.observe("weight_mode", &format!("{weight_mode:?}"));
    if kind == "rosomaxa" {
        run.observe("termination_estimate_mode", &format!("{te_mode:?}"));
    }
    match &cfg {
        Cfg::Greedy { selection_size, with_initial } => {
            run.observe("config", &format!("greedy|selection_size={selection_size}|initial={with_initial}"))
        }
        Cfg::Elitism { max_size, selection_size, dedup } => {
            run.observe("config", &format!("elitism|max_size={max_size}"));
            run.observe("config", &format!("elitism|selection_size={selection_size}"));
            run.observe("config", &format!("elitism|dedup={dedup:?}"));
        }
        Cfg::Rosomaxa { initial_size, selection_size, elite_size, node_size, rebalance_memory, exploration_ratio, .. } => {
            run.observe("config", &format!("rosomaxa|initial_size={initial_size}"));
            run.observe("config", &format!("rosomaxa|selection_size={selection_size}"));
            run.observe("config", &format!("rosomaxa|elite_size={elite_size}"));
            run.observe("config", &format!("rosomaxa|node_size={node_size}"));
            run.observe("config", &format!("rosomaxa|rebalance_memory={rebalance_memory}"));
            run.observe("config", &format!("rosomaxa|exploration_ratio={exploration_ratio}"));
        }
    }

    // (greedy and elitism report a constant phase; rosomaxa starts in its initial phase)
    let mut last_phase = match run.guard(|| pop.get().selection_phase()) {
        Ok(p) => phase_name(&p),
        Err(info) => {
            let _ = case.panic("selection_phase", &info);
            return;
        }
    };
    HISTORIES.fetch_add(1, std::sync::atomic::Ordering::Relaxed);
    let mut phases_seen = String::new();
    let mut best_changes = 0u64;
    let mut ties_with_best = 0u64;
    let mut selects_nonempty = 0u64;

    for (op_idx0, op) in ops.iter().enumerate() {
        let op_idx = op_idx0 + 1; // op 0 is the constructor
        case.history.push(op.to_json());
        case.hash = mix(case.hash, op.name().len() as u64 ^ ((op_idx as u64) << 8));
        run.observe("ops", &format!("{kind}|{}", op.name()));
        let mut select_take = 3;
        let mut returned: Option<(bool, Option<f64>, bool)> = None;

        // --- apply the operation to the real population (and to the model)
        let applied: Result<(), Stop> = match op {
            Op::Add(ind) => {
                let prev_min = case.model_min;
                let was_empty = case.offered.is_empty();
                let sol = case.register(ind, op_idx);
                match run.guard(|| pop.get_mut().add(sol)) {
                    Err(info) => Err(case.panic("add", &info)),
                    Ok(ret) => {
                        returned = Some((ret, prev_min, was_empty));
                        Ok(())
                    }
                }
            }
            Op::AddAll(batch) => {
                let prev_min = case.model_min;
                let was_empty = case.offered.is_empty();
                let sols: Vec<Sol> = batch.iter().map(|ind| case.register(ind, op_idx)).collect();
                run.observe(
                    "batch_size",
                    match batch.len() {
                        0 => "0",
                        1 => "1",
                        2..=5 => "2-5",
                        _ => "6-20",
                    },
                );
                match run.guard(|| pop.get_mut().add_all(sols)) {
                    Err(info) => Err(case.panic("add_all", &info)),
                    Ok(ret) => {
                        returned = Some((ret, prev_min, was_empty));
                        Ok(())
                    }
                }
            }
            Op::OnGeneration(spec) => {
                let statistics = spec.to_statistics();
                match run.guard(|| pop.get_mut().on_generation(&statistics)) {
                    Err(info) => Err(case.panic("on_generation", &info)),
                    Ok(()) => Ok(()),
                }
            }
            Op::Select(k) => {
                select_take = *k;
                Ok(())
            }
            Op::Ranked | Op::All | Op::Size | Op::Phase => Ok(()), // observed by the full check below
            Op::Resize(n) => {
                if let Pop::Elitism(e) = &mut pop {
                    match run.guard(|| e.set_max_population_size(*n)) {
                        Err(info) => Err(case.panic("set_max_population_size", &info)),
                        Ok(()) => {
                            case.bound = *n;
                            Ok(())
                        }
                    }
                } else {
                    Ok(())
                }
            }
        };
        if applied.is_err() {
            return;
        }

        // --- model bookkeeping for the events that make a history non-trivial
        let new_inds: &[Ind] = match op {
            Op::Add(i) => std::slice::from_ref(i),
            Op::AddAll(b) => b.as_slice(),
            _ => &[],
        };
        for ind in new_inds {
            match case.model_min {
                Some(m) if ind.fitness < m => {
                    best_changes += 1;
                    case.model_min = Some(ind.fitness);
                    run.observe("events", &format!("{kind}|new-best-via-{}", op.name()));
                }
                Some(m) if ind.fitness == m => {
                    ties_with_best += 1;
                    if ind.fitness.to_bits() != m.to_bits() {
                        run.observe("events", &format!("{kind}|+-0-pair-at-the-top"));
                        // keep the one which is smaller under a total order on bits: -0.0
                        if ind.fitness.is_sign_negative() {
                            case.model_min = Some(ind.fitness);
                        }
                    } else {
                        run.observe("events", &format!("{kind}|exact-tie-with-best"));
                    }
                }
                Some(_) => {}
                None => case.model_min = Some(ind.fitness),
            }
        }

        // --- phase
        let phase = match run.guard(|| pop.get().selection_phase()) {
            Ok(p) => phase_name(&p),
            Err(info) => {
                let _ = case.panic("selection_phase", &info);
                return;
            }
        };
        if phase != last_phase {
            run.observe("phase_transition", &format!("{kind}|{last_phase}->{phase}"));
            // the documented life cycle only moves forward
            let order = |p: &str| match p {
                "initial" => 0,
                "exploration" => 1,
                _ => 2,
            };
            if kind == "rosomaxa" && order(phase) < order(last_phase) {
                run.observe("unspecified", &format!("rosomaxa|phase-went-back|{last_phase}->{phase}"));
            }
            last_phase = phase;
        }
        if !phases_seen.contains(phase) {
            phases_seen.push_str(phase);
            phases_seen.push('|');
        }
        run.observe("phase_at_check", &format!("{kind}|{phase}"));
        if matches!(op, Op::Add(_) | Op::AddAll(_)) {
            run.observe("offer_in_phase", &format!("{kind}|{}|{phase}", op.name()));
        }

        // --- full comparison with the model after EVERY op
        match case.check(&pop, op, op_idx, select_take, phase) {
            Ok(true) => selects_nonempty += 1,
            Ok(false) => {}
            Err(_) => return,
        }
        // (v) the documented part of the return value, judged after the primary clauses
        if let Some((ret, prev_min, was_empty)) = returned {
            if check_return(&mut case, &pop, op.name(), new_inds, ret, prev_min, was_empty, op_idx).is_err() {
                return;
            }
        }
    }

    // non-trivial: several individuals offered, the best known changed (or was tied) after the first offer,
    // and selection was observed on a non-empty population
    if case.offered.len() >= 3 && (best_changes + ties_with_best) >= 1 && selects_nonempty >= 1 {
        run.nontrivial(&format!("{kind}|{}|{:016x}", cfg.to_json(), case.hash));
        run.observe("nontrivial_histories", kind);
        if kind == "rosomaxa" {
            run.observe("rosomaxa_phase_paths", phases_seen.trim_end_matches('|'));
        }
    }
    if run.wants_sample() && case.offered.len() >= 3 && case.history.len() <= 14 {
        run.sample(json!({"case_seed": case_seed, "population": cfg.to_json(), "history": case.history,
            "final": {"size": pop.get().size(), "ranked_fitness": pop.get().ranked().map(fitness_of).collect::<Vec<_>>(),
                      "phase": last_phase}}));
    }
}

/// (v) the documented part of the add/add_all return value ("true if any of newly added individuals is
/// considered as best known"):
///  * `true`  => the first ranked individual afterwards is one of the individuals offered by this call;
///  * an individual strictly better (IEEE `<`) than everything offered before => `true`;
///  * first non-empty offer into an empty population => `true`.
/// Exact ties and +-0 pairs are left undecided.
fn check_return(
    case: &mut Case<'_>,
    pop: &Pop,
    opn: &str,
    batch: &[Ind],
    ret: bool,
    prev_min: Option<f64>,
    was_empty: bool,
    op_idx: usize,
) -> Result<(), Stop> {
    let run = case.run;
    let kind = case.kind;
    run.observe("return_value", &format!("{kind}|{opn}|{ret}"));
    let first = match run.guard(|| pop.get().ranked().next().cloned()) {
        Ok(f) => f,
        Err(info) => return Err(case.panic("ranked", &info)),
    };
    let first_id = first.as_ref().and_then(|s| s.data.get(1).copied()).map(|v| v as i64).unwrap_or(-1);
    let in_batch = batch.iter().any(|i| i.id as i64 == first_id);
    if ret && !in_batch {
        return Err(case.fail(
            &format!("return-true-but-best-not-new|op={opn}"),
            format!("{kind}: {opn} (op #{op_idx}) returned true but ranked().next() (id {first_id}) is not one of the individuals just added"),
            json!({"first_id": first_id, "batch_ids": batch.iter().map(|i| i.id).collect::<Vec<_>>()}),
        ));
    }
    let strictly_better = match prev_min {
        Some(m) => batch.iter().any(|i| i.fitness < m),
        None => false,
    };
    if strictly_better && !ret {
        return Err(case.fail(
            &format!("return-false-on-strict-improvement|op={opn}"),
            format!("{kind}: {opn} (op #{op_idx}) returned false although it offered an individual strictly better than the best known {prev_min:?}"),
            json!({"prev_best": prev_min, "batch_fitness": batch.iter().map(|i| i.fitness).collect::<Vec<_>>()}),
        ));
    }
    if was_empty && !batch.is_empty() && !ret {
        return Err(case.fail(
            &format!("return-false-on-first-offer|op={opn}"),
            format!("{kind}: {opn} (op #{op_idx}) returned false for the first individuals ever offered"),
            json!({"batch_fitness": batch.iter().map(|i| i.fitness).collect::<Vec<_>>()}),
        ));
    }
    if !ret && in_batch && !batch.is_empty() {
        // e.g. -0.0 replacing +0.0 at the top while the "is improved" test compares with `!=`
        run.observe("unspecified", &format!("{kind}|{opn}|returned-false-but-first-ranked-is-new(tie/+-0)"));
    }
    run.eval();
    Ok(())
}

// ---------------------------------------------------------------------------------------------
// Part B: end-to-end

fn fmt_time(secs: i64) -> String {
    let s = secs.clamp(0, 86_399);
    format!("2024-01-01T{:02}:{:02}:{:02}Z", s / 3600, (s % 3600) / 60, s % 60)
}

struct E2eProblem {
    problem: Value,
    matrix: Value,
    shape: String,
}

fn gen_problem(rng: &mut Rng) -> E2eProblem {
    let n_jobs = rng.range_usize(5, 13);
    let with_tw = rng.chance(0.5);
    let with_pd = rng.chance(0.4);
    let scarce = rng.chance(0.3);
    let mut coords: Vec<(i64, i64)> = vec![(rng.range_i64(5, 15), rng.range_i64(5, 15))]; // depot = index 0
    let new_loc = |rng: &mut Rng, coords: &mut Vec<(i64, i64)>| -> usize {
        coords.push((rng.range_i64(0, 20), rng.range_i64(0, 20)));
        coords.len() - 1
    };
    let mut jobs = Vec::new();
    let mut total_demand = 0i64;
    for j in 0..n_jobs {
        let demand = rng.range_i64(1, 3);
        total_demand += demand;
        let place = |rng: &mut Rng, coords: &mut Vec<(i64, i64)>, tag: Option<String>| -> Value {
            let loc = new_loc(rng, coords);
            let mut p = json!({"location": {"index": loc}, "duration": (rng.range_i64(1, 10) * 60) as f64});
            if with_tw && rng.chance(0.5) {
                let a = rng.range_i64(0, 6 * 3600);
                let b = a + rng.range_i64(2 * 3600, 6 * 3600);
                p["times"] = json!([[fmt_time(a), fmt_time(b)]]);
            }
            if let Some(t) = tag {
                p["tag"] = json!(t);
            }
            p
        };
        let id = format!("job{j}");
        let job = if with_pd && rng.chance(0.3) {
            json!({"id": id,
                "pickups": [{"places": [place(rng, &mut coords, Some(format!("p{j}")))], "demand": [demand]}],
                "deliveries": [{"places": [place(rng, &mut coords, Some(format!("d{j}")))], "demand": [demand]}]})
        } else if rng.chance(0.3) {
            json!({"id": id, "pickups": [{"places": [place(rng, &mut coords, None)], "demand": [demand]}]})
        } else {
            json!({"id": id, "deliveries": [{"places": [place(rng, &mut coords, None)], "demand": [demand]}]})
        };
        jobs.push(job);
    }
    let n_types = rng.range_usize(1, 2);
    let mut vehicles = Vec::new();
    let mut total_capacity = 0i64;
    for t in 0..n_types {
        let ids = rng.range_usize(1, 3);
        let capacity = if scarce { rng.range_i64(2, 4) } else { rng.range_i64(5, 12) };
        total_capacity += capacity * ids as i64;
        let mut shift = json!({"start": {"earliest": fmt_time(0), "location": {"index": 0}}});
        if rng.chance(0.7) {
            shift["end"] = json!({"latest": fmt_time(rng.range_i64(10, 20) * 3600), "location": {"index": 0}});
        }
        vehicles.push(json!({
            "typeId": format!("type{t}"),
            "vehicleIds": (0..ids).map(|i| format!("type{t}_{i}")).collect::<Vec<_>>(),
            "profile": {"matrix": "car"},
            // integer / dyadic coefficients: every cost sum is exact in f64, so that comparing a
            // re-read solution with `total_order` is not disturbed by summation order
            "costs": {"fixed": *rng.pick(&[10., 25., 50.]), "distance": *rng.pick(&[1., 2.]), "time": *rng.pick(&[1., 0.5])},
            "shifts": [shift],
            "capacity": [capacity],
        }));
    }
    let n = coords.len();
    let mut times = Vec::with_capacity(n * n);
    let mut dists = Vec::with_capacity(n * n);
    for a in 0..n {
        for b in 0..n {
            let m = (coords[a].0 - coords[b].0).abs() + (coords[a].1 - coords[b].1).abs();
            times.push(m * 40);
            dists.push(m * 100);
        }
    }
    E2eProblem {
        problem: json!({"plan": {"jobs": jobs}, "fleet": {"vehicles": vehicles, "profiles": [{"name": "car"}]}}),
        matrix: json!({"profile": "car", "travelTimes": times, "distances": dists}),
        shape: format!(
            "jobs={n_jobs}|tw={with_tw}|pd={with_pd}|types={n_types}|capacity{}demand",
            if total_capacity < total_demand { "<" } else { ">=" }
        ),
    }
}

#[derive(Clone, Debug)]
enum PopChoice {
    Default,
    Greedy { selection_size: usize },
    Elitism { max_size: usize, selection_size: usize },
    Rosomaxa { initial_size: usize, selection_size: usize, elite_size: usize, node_size: usize, exploration_ratio: f64 },
}

impl PopChoice {
    fn name(&self) -> &'static str {
        match self {
            PopChoice::Default => "default",
            PopChoice::Greedy { .. } => "greedy",
            PopChoice::Elitism { .. } => "elitism",
            PopChoice::Rosomaxa { .. } => "rosomaxa",
        }
    }
}

fn solve(
    problem: Arc<Problem>,
    env: Arc<Environment>,
    generations: usize,
    seeds: Vec<InsertionContext>,
    pop: &PopChoice,
) -> Result<Solution, String> {
    let mut builder = VrpConfigBuilder::new(problem.clone())
        .set_environment(env.clone())
        .set_telemetry_mode(TelemetryMode::None)
        .prebuild()
        .map_err(|e| e.to_string())?
        .with_max_generations(Some(generations));
    if !seeds.is_empty() {
        builder = builder.with_init_solutions(seeds, None);
    }
    let population: Option<TargetPopulation> = match pop {
        PopChoice::Default => None,
        PopChoice::Greedy { selection_size } => {
            Some(Box::new(GreedyPopulation::new(problem.goal.clone(), *selection_size, None)))
        }
        PopChoice::Elitism { max_size, selection_size } => Some(Box::new(ElitismPopulation::new(
            problem.goal.clone(),
            env.random.clone(),
            *max_size,
            *selection_size,
        ))),
        PopChoice::Rosomaxa { initial_size, selection_size, elite_size, node_size, exploration_ratio } => {
            let config = RosomaxaConfig {
                initial_size: *initial_size,
                selection_size: *selection_size,
                elite_size: *elite_size,
                node_size: *node_size,
                exploration_ratio: *exploration_ratio,
                ..RosomaxaConfig::new_with_defaults(*selection_size)
            };
            Some(Box::new(
                RosomaxaPopulation::new(Footprint::new(problem.as_ref()), problem.goal.clone(), env.clone(), config)
                    .map_err(|e| e.to_string())?,
            ))
        }
    };
    if let Some(population) = population {
        builder = builder.with_context(RefinementContext::new(problem.clone(), population, TelemetryMode::None, env.clone()));
    }
    let config = builder.build().map_err(|e| e.to_string())?;
    Solver::new(problem, config).solve().map_err(|e| e.to_string())
}

fn lexicographic(a: &[f64], b: &[f64]) -> Option<Ordering> {
    for (x, y) in a.iter().zip(b.iter()) {
        match x.partial_cmp(y)? {
            Ordering::Equal => continue,
            o => return Some(o),
        }
    }
    Some(a.len().cmp(&b.len()))
}

fn pragmatic_text(problem: &Problem, solution: &Solution) -> Result<String, String> {
    let mut writer = BufWriter::new(Vec::new());
    write_pragmatic(problem, solution, PragmaticOutputType::OnlyPragmatic, &mut writer).map_err(|e| e.to_string())?;
    let bytes = writer.into_inner().map_err(|e| e.to_string())?;
    String::from_utf8(bytes).map_err(|e| e.to_string())
}

/// Returns the number of verdicts. `attempts` > 1 is used by replay only (the solver is not seed-replayable).
fn e2e_case(run: &Run, case_seed: u64, second_solves: usize) {
    let mut rng = Rng::new(case_seed);
    let p = gen_problem(&mut rng);
    let problem_text = p.problem.to_string();
    let matrix_text = p.matrix.to_string();
    let artefact_base = |extra: Value| json!({"part": "e2e", "case_seed": case_seed, "second_solves": second_solves, "problem": p.problem, "matrix": p.matrix, "observed": extra});

    let read = run.guard(|| (problem_text.clone(), vec![matrix_text.clone()]).read_pragmatic());
    let problem = match read {
        Ok(Ok(problem)) => Arc::new(problem),
        Ok(Err(err)) => {
            run.inconclusive(&format!("e2e: generated problem rejected by the reader: {}", vverif::clip(&err.to_string(), 80)));
            return;
        }
        Err(info) => {
            run.inconclusive(&format!("e2e: reader panicked at {}", info.file()));
            return;
        }
    };
    let cpus = rng.range_usize(2, 4);
    let env = quiet_environment(Arc::new(DefaultRandom::default()), Some(cpus));

    // first solve: produces the feasible seed
    let g1 = rng.range_usize(1, 30);
    let first = run.guard(|| solve(problem.clone(), env.clone(), g1, vec![], &PopChoice::Default));
    let first = match first {
        Ok(Ok(s)) => s,
        Ok(Err(e)) => {
            run.inconclusive(&format!("e2e: first solve failed: {}", vverif::clip(&e, 80)));
            return;
        }
        Err(info) => {
            run.violation(
                &format!("C08|e2e|panic|first-solve|{}", info.file()),
                &format!("unseeded solve panicked: {} at {}", info.message, info.location),
                artefact_base(info.to_json()),
            );
            return;
        }
    };
    let seed_text = match pragmatic_text(&problem, &first) {
        Ok(t) => t,
        Err(e) => {
            run.inconclusive(&format!("e2e: cannot serialize the seed: {}", vverif::clip(&e, 80)));
            return;
        }
    };
    run.observe("e2e_problem_shape", &p.shape);
    run.observe("e2e_seed", if first.unassigned.is_empty() { "all-assigned" } else { "with-unassigned" });

    // the solver's own context (vrp-core RefinementContext) in front of each population kind: what it reports as ranking
    // after every offer must start with something no worse than the best solution offered so far, and be sorted
    facade_clause(run, &problem, &env, &first, &mut rng, &artefact_base);
    for _ in 0..12 {
        config_bounds_clause(run, &problem, &env, &first, &mut rng, &artefact_base);
    }

    for k in 0..second_solves {
        let choice = match (k + rng.usize_below(4)) % 4 {
            0 => PopChoice::Default,
            1 => PopChoice::Greedy { selection_size: rng.range_usize(1, 4) },
            2 => PopChoice::Elitism { max_size: rng.range_usize(1, 4), selection_size: rng.range_usize(1, 4) },
            _ => PopChoice::Rosomaxa {
                initial_size: rng.range_usize(4, 6),
                selection_size: rng.range_usize(2, 8),
                elite_size: rng.range_usize(1, 3),
                node_size: rng.range_usize(1, 3),
                exploration_ratio: *rng.pick(&[0.05, 0.5, 0.9]),
            },
        };
        let generations = rng.range_usize(1, 20);
        let via_json = rng.chance(0.5);
        // the seed, either directly from the core solution or through the pragmatic document (CLI path)
        let seed_solution: Result<Solution, String> = if via_json {
            match run.guard(|| read_init_solution(BufReader::new(seed_text.as_bytes()), problem.clone(), env.random.clone())) {
                Ok(r) => r.map_err(|e| e.to_string()),
                Err(info) => Err(format!("panic at {}", info.location)),
            }
        } else {
            // `Solution` is not Clone: rebuild it from a context
            let ctx = InsertionContext::new_from_solution(problem.clone(), (copy_solution(&first), None), env.clone());
            Ok((ctx, None).into())
        };
        let seed_solution = match seed_solution {
            Ok(s) => s,
            Err(e) => {
                run.inconclusive(&format!("e2e: cannot read the seed back: {}", vverif::clip(&e, 80)));
                continue;
            }
        };
        let built = run.guard(|| {
            let seed_ctx = InsertionContext::new_from_solution(problem.clone(), (seed_solution, None), env.clone());
            let reference = seed_ctx.deep_copy();
            (seed_ctx, reference)
        });
        let (seed_ctx, reference) = match built {
            Ok(v) => v,
            Err(info) => {
                run.inconclusive(&format!("e2e: cannot build the seed context: panic at {}", info.file()));
                continue;
            }
        };
        // a third of the seeded solves is configured the way the CLI does it: from a generated JSON config (G2: custom
        // initial methods, population, hyper-heuristic, termination) through create_builder_from_config
        let via_cli_config = rng.chance(0.35);
        let cli_config = vverif::solverun::gen_config(&mut rng, generations.max(1), None).0;
        let label = if via_cli_config {
            format!("cli-config|{}", if via_json { "seed-via-json" } else { "seed-via-core" })
        } else {
            format!("{}|{}", choice.name(), if via_json { "seed-via-json" } else { "seed-via-core" })
        };
        let how = if via_cli_config { "cli-config" } else { choice.name() };
        let second = if via_cli_config {
            run.observe("e2e_cli_config", if cli_config["evolution"].get("initial").is_some() { "with evolution.initial" } else { "without evolution.initial" });
            run.guard(|| -> Result<Solution, String> {
                let config = vrp_cli::extensions::solve::config::read_config(BufReader::new(cli_config.to_string().as_bytes())).map_err(|e| e.to_string())?;
                let builder = vrp_cli::extensions::solve::config::create_builder_from_config(problem.clone(), vec![seed_ctx], &config).map_err(|e| e.to_string())?;
                let config = builder.build().map_err(|e| e.to_string())?;
                Solver::new(problem.clone(), config).solve().map_err(|e| e.to_string())
            })
        } else {
            run.guard(|| solve(problem.clone(), env.clone(), generations, vec![seed_ctx], &choice))
        };
        let second = match second {
            Ok(Ok(s)) => s,
            Ok(Err(e)) => {
                run.violation(
                    &format!("C08|e2e|{how}|seeded-solve-failed"),
                    &format!("a solve seeded with a feasible solution returned an error: {e}"),
                    artefact_base(json!({"population": format!("{choice:?}"), "generations": generations, "seed_solution": seed_text})),
                );
                continue;
            }
            Err(info) => {
                run.violation(
                    &format!("C08|e2e|{how}|panic|{}", info.file()),
                    &format!("seeded solve panicked: {} at {}", info.message, info.location),
                    artefact_base(json!({"population": format!("{choice:?}"), "generations": generations, "seed_solution": seed_text, "panic": info.to_json()})),
                );
                continue;
            }
        };
        let independent_result = (second.unassigned.len() as f64, second.routes.len() as f64, second.cost);
        let result_text = pragmatic_text(&problem, &second).unwrap_or_default();
        let result_ctx = match run.guard(|| InsertionContext::new_from_solution(problem.clone(), (second, None), env.clone())) {
            Ok(c) => c,
            Err(info) => {
                run.inconclusive(&format!("e2e: cannot build the result context: panic at {}", info.file()));
                continue;
            }
        };
        let ord = problem.goal.total_order(&result_ctx, &reference);
        let f_result: Vec<f64> = result_ctx.fitness().collect();
        let f_seed: Vec<f64> = reference.fitness().collect();
        let own = lexicographic(&f_result, &f_seed);
        run.eval();
        run.observe("e2e_outcome", &format!("{label}|{ord:?}"));
        run.observe("e2e_generations", &format!("{}", if generations <= 3 { "1-3" } else if generations <= 10 { "4-10" } else { "11-20" }));
        run.nontrivial(&format!("e2e|{case_seed}|{k}|{label}|{generations}"));
        if ord == Ordering::Greater || own == Some(Ordering::Greater) {
            let clause = if ord == Ordering::Greater { "result-worse-than-seed" } else { "result-worse-than-seed|f64-only" };
            run.violation(
                &format!("C08|e2e|{how}|{clause}"),
                &format!(
                    "solve seeded with a feasible solution returned a worse one after {generations} generations ({label}): fitness(result)={f_result:?} fitness(seed)={f_seed:?} total_order={ord:?}"
                ),
                artefact_base(json!({"population": format!("{choice:?}"), "population_name": choice.name(), "configured_through": how, "cli_config": if via_cli_config { cli_config.clone() } else { Value::Null }, "generations": generations, "via_json": via_json,
                    "fitness_result": f_result, "fitness_seed": f_seed, "seed_solution": seed_text, "result_solution": result_text})),
            );
            continue;
        }
        // independent view (not a verdict): counts and cost taken from the returned `Solution` itself
        let seed_sol: Solution = (reference, None).into();
        let independent_seed = (seed_sol.unassigned.len() as f64, seed_sol.routes.len() as f64, seed_sol.cost);
        let ind = lexicographic(
            &[independent_result.0, independent_result.1, independent_result.2],
            &[independent_seed.0, independent_seed.1, independent_seed.2],
        );
        run.observe("e2e_independent_view(unassigned,tours,cost)", &format!("{ind:?}"));
        if k == 0 && E2E_SAMPLES.fetch_add(1, std::sync::atomic::Ordering::Relaxed) < 2 {
            run.sample(json!({"part": "e2e", "case_seed": case_seed, "shape": p.shape, "population": format!("{choice:?}"),
                "generations": generations, "fitness_seed": f_seed, "fitness_result": f_result, "total_order": format!("{ord:?}")}));
        }
    }
}

/// `Solution` has no `Clone`; a copy is obtained field by field with the public deep copies.
fn facade_clause(run: &Run, problem: &Arc<Problem>, env: &Arc<Environment>, first: &Solution, rng: &mut Rng, artefact_base: &dyn Fn(Value) -> Value) {
    use rosomaxa::prelude::HeuristicContext;
    let choices = [
        PopChoice::Greedy { selection_size: rng.range_usize(1, 4) },
        PopChoice::Elitism { max_size: rng.range_usize(1, 4), selection_size: rng.range_usize(1, 4) },
        // a large initial size keeps the population in its initial phase for all offers, a small one leaves it
        PopChoice::Rosomaxa { initial_size: *rng.pick(&[4usize, 16]), selection_size: rng.range_usize(2, 8), elite_size: rng.range_usize(1, 3), node_size: rng.range_usize(1, 3), exploration_ratio: 0.9 },
    ];
    for choice in choices.iter() {
        let outcome = run.guard(|| -> Result<Option<(String, Value)>, String> {
            let population: TargetPopulation = match choice {
                PopChoice::Greedy { selection_size } => Box::new(GreedyPopulation::new(problem.goal.clone(), *selection_size, None)),
                PopChoice::Elitism { max_size, selection_size } => Box::new(ElitismPopulation::new(problem.goal.clone(), env.random.clone(), *max_size, *selection_size)),
                PopChoice::Rosomaxa { initial_size, selection_size, elite_size, node_size, exploration_ratio } => {
                    let config = RosomaxaConfig {
                        initial_size: *initial_size,
                        selection_size: *selection_size,
                        elite_size: *elite_size,
                        node_size: *node_size,
                        exploration_ratio: *exploration_ratio,
                        ..RosomaxaConfig::new_with_defaults(*selection_size)
                    };
                    Box::new(RosomaxaPopulation::new(Footprint::new(problem.as_ref()), problem.goal.clone(), env.clone(), config).map_err(|e| e.to_string())?)
                }
                PopChoice::Default => return Ok(None),
            };
            let mut ctx = RefinementContext::new(problem.clone(), population, TelemetryMode::None, env.clone());
            // offers from worst to best and back: nothing assigned, the solved tours, nothing assigned again, ...
            let empty = || InsertionContext::new(problem.clone(), env.clone());
            let solved = || InsertionContext::new_from_solution(problem.clone(), (copy_solution(first), None), env.clone());
            let mut best: Option<InsertionContext> = None;
            for step in 0..6 {
                let offer = if step % 3 == 1 { solved() } else { empty() };
                let copy = offer.deep_copy();
                if best.as_ref().is_none_or(|b| problem.goal.total_order(&copy, b) == Ordering::Less) {
                    best = Some(copy);
                }
                if step < 4 {
                    ctx.on_initial(offer, Timer::start());
                } else {
                    ctx.on_generation(vec![offer], 0.1, Timer::start());
                }
                let ranked: Vec<&InsertionContext> = ctx.ranked().collect();
                let best = best.as_ref().unwrap();
                let fit = |c: &InsertionContext| problem.goal.fitness(c).collect::<Vec<_>>();
                if let Some(head) = ranked.first() {
                    if problem.goal.total_order(head, best) == Ordering::Greater {
                        return Ok(Some((format!("first-ranked-worse-than-offered|step={}", if step < 4 { "on_initial" } else { "on_generation" }), json!({"step": step, "first_ranked": fit(head), "best_offered": fit(best), "ranked": ranked.iter().map(|c| fit(c)).collect::<Vec<_>>()}))));
                    }
                } else {
                    return Ok(Some(("ranked-empty-after-offer".to_string(), json!({"step": step}))));
                }
                if ranked.windows(2).any(|w| problem.goal.total_order(w[0], w[1]) == Ordering::Greater) {
                    return Ok(Some(("ranked-not-sorted".to_string(), json!({"step": step, "ranked": ranked.iter().map(|c| fit(c)).collect::<Vec<_>>()}))));
                }
            }
            Ok(None)
        });
        run.eval();
        run.observe("facade", choice.name());
        match outcome {
            Ok(Ok(None)) => {}
            Ok(Ok(Some((what, extra)))) => run.violation(&format!("C08|context-facade|{}|{what}", choice.name()), &format!("RefinementContext::ranked() in front of a {} population: {what}", choice.name()), artefact_base(extra)),
            Ok(Err(e)) => run.inconclusive(&format!("facade: population refused: {}", vverif::clip(&e, 60))),
            Err(info) => run.violation(&format!("C08|context-facade|{}|panic|{}", choice.name(), info.file()), &format!("RefinementContext panicked: {} at {}", info.message, info.location), artefact_base(info.to_json())),
        }
    }
}

/// The first `keep` tours of `s`; the jobs of the other tours are unassigned and their vehicles released.
fn truncated_solution(s: &Solution, keep: usize) -> Solution {
    use vrp_core::construction::heuristics::UnassignmentInfo;
    let mut registry = s.registry.deep_copy();
    let mut unassigned = s.unassigned.clone();
    for route in s.routes.iter().skip(keep) {
        registry.free_actor(&route.actor);
        unassigned.extend(route.tour.jobs().cloned().map(|job| (job, UnassignmentInfo::Unknown)));
    }
    Solution { cost: s.cost, registry, routes: s.routes.iter().take(keep).map(|r| r.deep_copy()).collect(), unassigned, telemetry: None }
}

/// A population configured the way the CLI does it (JSON config -> `create_builder_from_config`) keeps the sizes the config
/// names: never more ranked individuals than `maxSize` (greedy: one), never more selected parents than `selectionSize`;
/// and, as everywhere, its first ranked individual is no worse than anything offered.
fn config_bounds_clause(run: &Run, problem: &Arc<Problem>, env: &Arc<Environment>, first: &Solution, rng: &mut Rng, artefact_base: &dyn Fn(Value) -> Value) {
    use rosomaxa::prelude::HeuristicContext;
    let sizes = [1usize, 1, 2, 2, 3, 4, 6];
    // rosomaxa: in its initial phase it hands out all initial individuals whatever the selection size is, and its elite size is
    // checked by the model part; only the common clauses are judged for it here
    let (kind, population, max_ranked, max_selected): (&str, Value, Option<usize>, Option<usize>) = match rng.below(4) {
        0 => {
            let s = *rng.pick(&sizes);
            ("greedy", json!({"type": "greedy", "selectionSize": s}), Some(1), Some(s))
        }
        1 => {
            let s = *rng.pick(&[2usize, 3, 4, 6, 8]);
            ("rosomaxa", json!({"type": "rosomaxa", "selectionSize": s, "maxEliteSize": *rng.pick(&[1usize, 2, 3]), "maxNodeSize": *rng.pick(&[1usize, 2])}), None, None)
        }
        _ => {
            let (m, s) = (*rng.pick(&sizes), *rng.pick(&sizes));
            ("elitism", json!({"type": "elitism", "maxSize": m, "selectionSize": s}), Some(m), Some(s))
        }
    };
    let config_doc = json!({"evolution": {"population": population}});
    let outcome = run.guard(|| -> Result<Option<(String, Value)>, String> {
        let config = vrp_cli::extensions::solve::config::read_config(BufReader::new(config_doc.to_string().as_bytes())).map_err(|e| e.to_string())?;
        let evolution = vrp_cli::extensions::solve::config::create_builder_from_config(problem.clone(), vec![], &config)
            .and_then(|builder| builder.build())
            .map_err(|e| e.to_string())?;
        let mut ctx = evolution.context;
        // offers with pairwise different fitness: the solved tours cut down to their first k tours, from worst to best and back
        let tours = first.routes.len();
        let mut order: Vec<usize> = (0..=tours).collect();
        order.extend((0..tours).rev());
        let fit = |c: &InsertionContext| problem.goal.fitness(c).collect::<Vec<_>>();
        let mut best: Option<InsertionContext> = None;
        for (step, keep) in order.into_iter().enumerate() {
            let offer = InsertionContext::new_from_solution(problem.clone(), (truncated_solution(first, keep), None), env.clone());
            let copy = offer.deep_copy();
            if best.as_ref().is_none_or(|b| problem.goal.total_order(&copy, b) == Ordering::Less) {
                best = Some(copy);
            }
            let how = if step < 3 { "on_initial" } else { "on_generation" };
            if step < 3 {
                ctx.on_initial(offer, Timer::start());
            } else {
                ctx.on_generation(vec![offer], 0.1, Timer::start());
            }
            let ranked: Vec<&InsertionContext> = ctx.ranked().collect();
            let selected = ctx.selected().count();
            let best = best.as_ref().unwrap();
            if let Some(limit) = max_ranked.filter(|limit| ranked.len() > *limit) {
                return Ok(Some((format!("ranked-exceeds-configured-size|step={how}"), json!({"step": step, "ranked": ranked.len(), "configured": limit}))));
            }
            if let Some(limit) = max_selected.filter(|limit| selected > *limit) {
                return Ok(Some((format!("selection-exceeds-configured-size|step={how}"), json!({"step": step, "selected": selected, "configured": limit}))));
            }
            if selected == 0 {
                return Ok(Some((format!("nothing-selected-from-a-non-empty-population|step={how}"), json!({"step": step}))));
            }
            match ranked.first() {
                Some(head) if problem.goal.total_order(head, best) == Ordering::Greater => {
                    return Ok(Some((format!("first-ranked-worse-than-offered|step={how}"), json!({"step": step, "first_ranked": fit(head), "best_offered": fit(best)}))));
                }
                None => return Ok(Some(("ranked-empty-after-offer".to_string(), json!({"step": step})))),
                _ => {}
            }
        }
        Ok(None)
    });
    run.eval();
    run.observe("config_bounds", &format!("{kind}|tours-offered={}", if first.routes.len() >= 3 { "4+" } else { "1-3" }));
    let base = |extra: Value| artefact_base(json!({"cli_config": config_doc, "extra": extra}));
    match outcome {
        Ok(Ok(None)) => {}
        Ok(Ok(Some((what, extra)))) => run.violation(&format!("C08|config-bounds|{kind}|{what}"), &format!("{kind} population built from the JSON config {config_doc}: {what}"), base(extra)),
        Ok(Err(e)) => run.inconclusive(&format!("config bounds: config refused: {}", vverif::clip(&e, 60))),
        Err(info) => run.violation(&format!("C08|config-bounds|{kind}|panic|{}", info.file()), &format!("population built from a JSON config panicked: {} at {}", info.message, info.location), base(info.to_json())),
    }
}

fn copy_solution(s: &Solution) -> Solution {
    Solution {
        cost: s.cost,
        registry: s.registry.deep_copy(),
        routes: s.routes.iter().map(|r| r.deep_copy()).collect(),
        unassigned: s.unassigned.clone(),
        telemetry: None,
    }
}

// ---------------------------------------------------------------------------------------------

/// Deterministic part of an end-to-end replay: the recorded seed and result documents are read back and
/// compared with the goal of the recorded problem (no solver run involved).
fn replay_recorded_e2e(run: &Run, art: &Value) {
    let obs = art.get("observed").cloned().unwrap_or(Value::Null);
    let (Some(problem), Some(matrix), Some(seed), Some(result)) = (
        art.get("problem"),
        art.get("matrix"),
        obs.get("seed_solution").and_then(|v| v.as_str()),
        obs.get("result_solution").and_then(|v| v.as_str()),
    ) else {
        println!("note: artefact holds no recorded seed/result documents, nothing to compare deterministically");
        return;
    };
    if result.is_empty() {
        return;
    }
    let name = obs.get("population_name").and_then(|v| v.as_str()).unwrap_or("unknown").to_string();
    let compared = run.guard(|| -> Result<(Ordering, Vec<f64>, Vec<f64>), String> {
        let problem = Arc::new((problem.to_string(), vec![matrix.to_string()]).read_pragmatic().map_err(|e| e.to_string())?);
        let env = quiet_environment(Arc::new(DefaultRandom::default()), Some(2));
        let read = |text: &str| -> Result<InsertionContext, String> {
            let solution = read_init_solution(BufReader::new(text.as_bytes()), problem.clone(), env.random.clone())
                .map_err(|e| e.to_string())?;
            Ok(InsertionContext::new_from_solution(problem.clone(), (solution, None), env.clone()))
        };
        let seed_ctx = read(seed)?;
        let result_ctx = read(result)?;
        Ok((problem.goal.total_order(&result_ctx, &seed_ctx), result_ctx.fitness().collect(), seed_ctx.fitness().collect()))
    });
    match compared {
        Ok(Ok((ord, f_result, f_seed))) => {
            run.eval();
            println!("recorded documents: total_order(result, seed)={ord:?} fitness(result)={f_result:?} fitness(seed)={f_seed:?}");
            if ord == Ordering::Greater || lexicographic(&f_result, &f_seed) == Some(Ordering::Greater) {
                let clause = if ord == Ordering::Greater { "result-worse-than-seed" } else { "result-worse-than-seed|f64-only" };
                run.violation(
                    &format!("C08|e2e|{name}|{clause}"),
                    &format!("recorded result is worse than the recorded seed: fitness(result)={f_result:?} fitness(seed)={f_seed:?} total_order={ord:?}"),
                    art.clone(),
                );
            }
        }
        Ok(Err(e)) => run.inconclusive(&format!("replay: cannot read the recorded documents: {}", vverif::clip(&e, 80))),
        Err(info) => run.inconclusive(&format!("replay: reading the recorded documents panicked at {}", info.file())),
    }
}

fn replay(run: &Run, path: &std::path::Path) {
    let text = std::fs::read_to_string(path).unwrap_or_default();
    let doc: Value = serde_json::from_str(&text).unwrap_or(Value::Null);
    let art = doc.get("artefact").cloned().unwrap_or(Value::Null);
    let Some(case_seed) = art.get("case_seed").and_then(|v| v.as_u64()) else {
        run.inconclusive("replay: artefact has no case_seed");
        for kind in ["greedy", "elitism", "rosomaxa"] {
        run.floor("seeded solves configured through the CLI config path with an evolution.initial section", run.observed("e2e_cli_config", "with evolution.initial"), 1);
    run.floor(&format!("solver context facade in front of a {kind} population"), run.observed("facade", kind), 3);
    run.floor(&format!("{kind} population built from a JSON config and driven through the solver context"), run.observed_keys("config_bounds").iter().filter(|k| k.starts_with(kind)).map(|k| run.observed("config_bounds", k)).sum(), 8);
    }
    run.floor("replayed cases", 0, 1);
        return;
    };
    match art.get("part").and_then(|v| v.as_str()) {
        Some("history") => {
            // the history is a pure function of the case seed; repeated because the population's own
            // random choices (thread-local generators) are not replayable
            for _ in 0..5 {
                history_case(run, case_seed);
                if run.violation_count() > 0 {
                    break;
                }
            }
        }
        Some("e2e") => {
            let second = art.get("second_solves").and_then(|v| v.as_u64()).unwrap_or(4) as usize;
            replay_recorded_e2e(run, &art);
            if run.violation_count() > 0 {
                return;
            }
            println!("note: the solver is not seed-replayable; re-running the recorded case up to 5 times (best effort)");
            for _ in 0..5 {
                e2e_case(run, case_seed, second);
                if run.violation_count() > 0 {
                    break;
                }
            }
        }
        _ => run.inconclusive("replay: unknown artefact part"),
    }
    run.floor("replayed evaluations", run.evaluations(), 1);
}

fn main() {
    let run = Run::from_args(
        "C08",
        "exploration",
        "Part A: seeded operation histories (1-201 ops over add / add_all(0-20) / on_generation(generated statistics) / select / ranked / all / size / \
         selection_phase, + set_max_population_size for elitism) on Greedy, Elitism (max_size 1-64, selection 1-8, default + 6 custom dedup functions) and \
         Rosomaxa (initial_size 1-32, elite 1-5, node 1-4, selection 2-12, spread/distribution 0.05-0.99, rebalance memory 1-500, exploration ratio 0-2) with \
         hostile fitness streams (ties, duplicates, +-0, denormal, 1e300/f64::MAX, strictly improving/worsening, best first/last/inside a batch, best among \
         near-duplicates, empty batches); the model is the list of everything offered and is compared after every op. A history is DISTINCT by \
         (population config, hash of op sequence and fitness bits) and NON-TRIVIAL when >= 3 individuals were offered, the best known changed or was tied \
         after the first offer, and select() was observed on a non-empty population. Part B: generated pragmatic problems (integer matrices and costs) \
         solved, re-seeded (directly and through the pragmatic solution document) and solved again for 1-20 generations with default/greedy/elitism/rosomaxa \
         populations; each (problem, population, generations, seed path) is one distinct case.",
        40,
        420,
    );
    if let Some(path) = run.replay.clone() {
        replay(&run, &path);
        run.finish();
    }
    run.assume("fitness values are finite or denormal f64 (no NaN, no infinities); weights are finite and within [-1e6, 1e6]");
    run.assume("selection_size >= 1 for Greedy/Elitism (0 asks for an empty selection) and HeuristicStatistics.termination_estimate within [0, 1]");
    run.assume("size()==all().count() and size()==ranked().count() are asserted for Greedy/Elitism only; for Rosomaxa all() also yields network nodes, which the trait leaves open (observed, not judged)");
    run.assume("return value of add/add_all: only 'true => first ranked is new', 'strict improvement => true', 'first offer => true' are judged; exact ties and +-0 pairs are left open");
    run.assume("Rosomaxa's internal random choices use thread-local generators: a history is replayable up to those choices");
    run.assume("end-to-end: 'worse' is judged with problem.goal.total_order on contexts rebuilt with InsertionContext::new_from_solution from both the seed and the result (cross-checked lexicographically on the fitness vectors); seeds are solver outputs (feasible by construction)");

    // Part B first (small, fixed amount): at most 4 solves at a time
    let e2e_cases = run.by_tier(6u64, 60);
    let second_solves = run.by_tier(4usize, 6);
    par_for(4, e2e_cases, &|| !run.has_time_frac(0.5), &|i| {
        e2e_case(&run, mix(run.seed ^ E2E_STREAM, i), second_solves);
    });
    let e2e_evals = run.evaluations();
    run.note("e2e_evaluations", json!(e2e_evals));

    // Part A
    let cases = run.by_tier(80_000u64, 1_500_000);
    par_for(16, cases, &|| !run.has_time(), &|i| {
        history_case(&run, mix(run.seed ^ HIST_STREAM, i));
    });

    run.note("histories_run", json!(HISTORIES.load(std::sync::atomic::Ordering::Relaxed)));

    // coverage floors: "observed nothing" is never a pass
    run.floor("e2e verdicts", e2e_evals, run.by_tier(12, 150));
    run.floor("evaluations", run.evaluations(), 50_000);
    for kind in ["greedy", "elitism", "rosomaxa"] {
        for op in ["add", "add_all", "on_generation", "select", "ranked", "all", "size", "selection_phase"] {
            run.floor(&format!("ops {kind}|{op}"), run.observed("ops", &format!("{kind}|{op}")), 200);
        }
        run.floor(&format!("nontrivial {kind}"), run.observed("nontrivial_histories", kind), 100);
        run.floor(&format!("{kind} new best via add"), run.observed("events", &format!("{kind}|new-best-via-add")), 50);
        run.floor(&format!("{kind} new best via add_all"), run.observed("events", &format!("{kind}|new-best-via-add_all")), 50);
        run.floor(&format!("{kind} exact tie with best"), run.observed("events", &format!("{kind}|exact-tie-with-best")), 20);
        run.floor(&format!("{kind} select non-empty"), run.observed("state", &format!("{kind}|select-nonempty")), 200);
    }
    run.floor("ops elitism|set_max_population_size", run.observed("ops", "elitism|set_max_population_size"), 20);
    for phase in ["initial", "exploration", "exploitation"] {
        run.floor(&format!("rosomaxa phase {phase}"), run.observed("phase_at_check", &format!("rosomaxa|{phase}")), 200);
        for op in ["add", "add_all"] {
            run.floor(
                &format!("rosomaxa {op} in {phase}"),
                run.observed("offer_in_phase", &format!("rosomaxa|{op}|{phase}")),
                50,
            );
        }
    }
    for tr in ["initial->exploration", "initial->exploitation", "exploration->exploitation"] {
        run.floor(&format!("rosomaxa transition {tr}"), run.observed("phase_transition", &format!("rosomaxa|{tr}")), 10);
    }
    for s in STREAMS.iter() {
        run.floor(&format!("value stream {s:?}"), run.observed("value_stream", &format!("{s:?}")), 20);
    }
    for d in DEDUPS.iter() {
        run.floor(&format!("elitism dedup {d:?}"), run.observed("config", &format!("elitism|dedup={d:?}")), 10);
    }
    for shape in ["empty", "stream", "best+neardups|best-first", "best+neardups|best-last", "best+neardups|best-inside", "all-equal", "best-inside-stream", "improving-batch"] {
        run.floor(&format!("batch shape {shape}"), run.observed("batch_shape", shape), 20);
    }
    run.finish();
}
