//! C05 – cached tour state always equals recomputation from the bare tours.
//!
//! Monitor: `recompute(s)` = deep copy; every route `state_mut().clear()` (marks it stale) + `goal.accept_route_state`;
//! all routes marked stale again; `SolutionState` reset; `goal.accept_solution_state` – the entry points the code itself
//! uses to build state from scratch. The H1a digests (`verif_digest`) and the activity schedules of the original and of
//! the recomputed twin are compared key by key
//!  (a) at HAND-OVER points: the output of every search step of generated operator histories (all route-level keys of all
//!      routes, all solution-level keys the recompute writes, `goal.fitness`, `goal.total_order`), and
//!  (b) after EACH APPLIED INSERTION (H1b observer; inside the histories and inside real solves): the keys of the route
//!      that received the insertion only.
//!
//! Route-level keys come in two kinds and the monitor tells them apart by measurement: a key is *route-local* when the
//! route-level entry point alone (`clear + goal.accept_route_state` of a copy of that single route) already yields the
//! value the full recompute yields; otherwise it is *solution-dependent* (today: shared reload resource availability,
//! which the route-level entry point only sets to a "blocked" sentinel; until fix 7a2d83a also the group tag, which only
//! the solution-level entry point wrote). After an insertion route-local keys are compared with the single-route
//! recompute, solution-dependent keys with the full recompute and only if every other route is fresh in its route-local
//! keys (mid-operator other routes may legitimately be stale, see DESIGN.md) and the recompute did not touch any tour.
//!
//! Signatures: `C05|<handover|insertion>|key=<last segment of the key type>|<cached-but-not-recomputed|
//! recomputed-but-not-cached|value-differs>[|job-accounting-broken]`, `C05|handover|fitness-differs|with=solution:<keys>`,
//! `C05|handover|total-order-not-equal[|fitness-within-tolerance]|with=solution:<keys>` (`<keys>` = the solution-level keys
//! that differ at the same hand-over, `none` if there is none), `C05|panic|<file>` (operator step / real solve),
//! `C05|<point>|panic-in-recompute|<file>`. The suffix `|job-accounting-broken` marks mismatches seen while (or, inside
//! a history, after) a solution had a job listed twice / in two places / missing: that is C02/C04's subject and makes
//! features treat the solution as partial, so its consequences are kept apart from defects of the caches themselves.
//!
//! Triage aids (never needed for a verdict): env `C05_TRIAGE_SPLIT_BY_POINT=1` writes one artefact per (signature,
//! hand-over kind / insertion origin); env `C05_DEBUG=1` prints reader rejections and the first broken accounting of a history.

use serde_json::{Value, json};
use std::cmp::Ordering;
use std::collections::{BTreeMap, BTreeSet, HashMap, HashSet};
use std::sync::atomic::{AtomicU64, Ordering as AO};
use std::sync::{Arc, Mutex, OnceLock};
use vverif::pragen::{GenCfg, PragProblem, generate};
use vverif::solverun::{ReadOutcome, SolveOutcome, gen_config, read_problem, simple_config, solve_with_config};
use vverif::{Rng, Run, clip, mix, par_for};

use rosomaxa::prelude::*;
use vrp_core::construction::features::{JobCompatibilityDimension, JobGroupDimension};
use vrp_core::construction::heuristics::{InsertionContext, RouteContext, SolutionContext, SolutionState, verif_set_insertion_observer};
use vrp_core::models::Problem;
use vrp_core::models::problem::{Job, JobIdDimension, VehicleIdDimension};
use vrp_core::solver::search::*;
use vrp_core::solver::{GreedyPopulation, RefinementContext, create_default_heuristic_operator, get_dynamic_heuristic, get_static_heuristic};

/// Route-level keys known to be solution-dependent (see module doc). Only used when the full recompute is not available
/// or has changed the tour itself; otherwise the classification is measured. Anything else that is measured as
/// solution-dependent is listed in the table `route_keys_measured_solution_dependent`.
const SOL_DEP_KEYS: &[&str] = &["SharedResourceStateKey"];

const SCHEDULE_KEY: &str = "schedule(arrival,departure)";

// ---------------------------------------------------------------------------------------------
// case registry (the insertion observer is process-global; it finds its case through the problem's address)

struct CaseInfo {
    case_seed: u64,
    case_idx: u64,
    kind: &'static str, // "history" | "solve"
    jobs: usize,
    prag: PragProblem,
    config: Option<Value>,
    steps: Mutex<Vec<String>>,
    current: Mutex<String>,
    amount_off: std::sync::atomic::AtomicBool,
}

impl CaseInfo {
    fn origin(&self) -> String {
        if self.kind == "solve" { "solve".to_string() } else { format!("history:{}", self.current.lock().unwrap()) }
    }

    fn artefact(&self, extra: Value) -> Value {
        json!({
            "case_seed": self.case_seed,
            "case_idx": self.case_idx,
            "kind": self.kind,
            "shape": self.prag.shape(),
            "history": self.steps.lock().unwrap().clone(),
            "step_in_progress": self.current.lock().unwrap().clone(),
            "config": self.config,
            "detail": extra,
            "problem": self.prag.problem,
            "matrices": self.prag.matrices,
        })
    }
}

struct Mon {
    run: &'static Run,
    cases: Mutex<HashMap<usize, Arc<CaseInfo>>>,
    tally: Mutex<BTreeMap<(&'static str, String), u64>>,
    reported: Mutex<HashSet<String>>,
    insertions_seen: AtomicU64,
    insertions_checked: AtomicU64,
    insertions_skipped_by_sampling: AtomicU64,
    sample_ctr: AtomicU64,
    handovers: AtomicU64,
}

static MON: OnceLock<Mon> = OnceLock::new();

fn mon() -> &'static Mon {
    MON.get().expect("monitor not initialised")
}

impl Mon {
    fn tally(&self, table: &'static str, key: &str) {
        *self.tally.lock().unwrap().entry((table, key.to_string())).or_default() += 1;
    }

    fn tally_many(&self, items: Vec<(&'static str, String)>) {
        let mut t = self.tally.lock().unwrap();
        for (table, key) in items {
            *t.entry((table, key)).or_default() += 1;
        }
    }

    fn tallied(&self, table: &'static str, key: &str) -> u64 {
        self.tally.lock().unwrap().get(&(table, key.to_string())).copied().unwrap_or(0)
    }

    fn tallied_keys(&self, table: &'static str) -> Vec<String> {
        self.tally.lock().unwrap().keys().filter(|(t, _)| *t == table).map(|(_, k)| k.clone()).collect()
    }

    fn flush(&self) {
        for ((table, key), n) in self.tally.lock().unwrap().iter() {
            self.run.observe_n(table, key, *n);
        }
    }

    fn lookup(&self, problem: &Arc<Problem>) -> Option<Arc<CaseInfo>> {
        self.cases.lock().unwrap().get(&(Arc::as_ptr(problem) as usize)).cloned()
    }

    /// Reports a violation; the (large) artefact is only built for the first hit of a signature.
    fn violation_at(&self, signature: &str, at: &str, what: &str, artefact: impl FnOnce() -> Value) {
        self.tally("mismatch_by_point", &format!("{signature} @ {at}"));
        if std::env::var_os("C05_TRIAGE_SPLIT_BY_POINT").is_some() {
            // triage aid only: one artefact per (signature, hand-over kind / insertion origin)
            return self.violation(&format!("{signature} @ {at}"), what, artefact);
        }
        self.violation(signature, what, artefact)
    }

    fn violation(&self, signature: &str, what: &str, artefact: impl FnOnce() -> Value) {
        let first = self.reported.lock().unwrap().insert(signature.to_string());
        self.run.violation(signature, what, if first { artefact() } else { Value::Null });
    }
}

// ---------------------------------------------------------------------------------------------
// snapshots and comparison

#[derive(Clone)]
struct RouteSnap {
    actor: usize,
    tour_sig: Vec<(usize, usize, usize)>,
    sched: Vec<(f64, f64)>,
    digest: BTreeMap<String, String>,
    stale: bool,
}

fn short_key(full: &str) -> String {
    if full.contains('<') { full.to_string() } else { full.rsplit("::").next().unwrap_or(full).to_string() }
}

fn digest_map(d: Vec<(String, String)>) -> BTreeMap<String, String> {
    d.into_iter().map(|(k, v)| (short_key(&k), v)).collect()
}

fn snap_route(rc: &RouteContext) -> RouteSnap {
    let route = rc.route();
    RouteSnap {
        actor: Arc::as_ptr(&route.actor) as usize,
        tour_sig: route
            .tour
            .all_activities()
            .map(|a| (a.job.as_ref().map_or(0, |s| Arc::as_ptr(s) as usize), a.place.idx, a.place.location))
            .collect(),
        sched: route.tour.all_activities().map(|a| (a.schedule.arrival, a.schedule.departure)).collect(),
        digest: digest_map(rc.state().verif_digest()),
        stale: rc.is_stale(),
    }
}

fn vehicle_of(rc: &RouteContext) -> String {
    rc.route().actor.vehicle.dimens.get_vehicle_id().cloned().unwrap_or_else(|| "?".to_string())
}

fn job_id(job: &Job) -> String {
    let d = job.dimens();
    let id = d.get_job_id().cloned().unwrap_or_else(|| "?".to_string());
    let mut extra = String::new();
    if let Some(c) = d.get_job_compatibility() {
        extra.push_str(&format!("/compat={c}"));
    }
    if let Some(g) = d.get_job_group() {
        extra.push_str(&format!("/group={g}"));
    }
    if let Job::Single(s) = job {
        if let Some(v) = s.dimens.get_vehicle_id() {
            extra.push_str(&format!("@{v}"));
        }
    }
    format!("{id}{extra}")
}

fn tour_text(rc: &RouteContext) -> String {
    let route = rc.route();
    let total = route.tour.total();
    let items: Vec<String> = route
        .tour
        .all_activities()
        .enumerate()
        .map(|(i, a)| match a.retrieve_job() {
            Some(job) => job_id(&job),
            None if i == 0 => "start".to_string(),
            None if i + 1 == total => "end".to_string(),
            None => "-".to_string(),
        })
        .collect();
    format!("{}: [{}]", vehicle_of(rc), items.join(" "))
}

fn approx(a: f64, b: f64) -> bool {
    a == b || (a.is_nan() && b.is_nan()) || (a - b).abs() <= 1e-9 * a.abs().max(b.abs()).max(1.0)
}

fn tokens(s: &str) -> Vec<&str> {
    let mut out = Vec::new();
    let mut start: Option<usize> = None;
    for (i, c) in s.char_indices() {
        let word = c.is_ascii_alphanumeric() || c == '.' || c == '+' || c == '-' || c == '_';
        if word {
            if start.is_none() {
                start = Some(i);
            }
        } else {
            if let Some(st) = start.take() {
                out.push(&s[st..i]);
            }
            out.push(&s[i..i + c.len_utf8()]);
        }
    }
    if let Some(st) = start {
        out.push(&s[st..]);
    }
    out
}

/// Text equality, falling back to 1e-9 relative on every number embedded in the two renderings.
fn text_eq(a: &str, b: &str) -> bool {
    if a == b {
        return true;
    }
    let (ta, tb) = (tokens(a), tokens(b));
    ta.len() == tb.len()
        && ta.iter().zip(tb.iter()).all(|(x, y)| {
            x == y
                || match (x.parse::<f64>(), y.parse::<f64>()) {
                    (Ok(p), Ok(q)) => approx(p, q),
                    _ => false,
                }
        })
}

#[derive(Clone, Copy, PartialEq, Eq, Debug)]
enum Diff {
    CacheOnly,
    RecomputeOnly,
    Differs,
}

impl Diff {
    fn label(&self) -> &'static str {
        match self {
            Diff::CacheOnly => "cached-but-not-recomputed",
            Diff::RecomputeOnly => "recomputed-but-not-cached",
            Diff::Differs => "value-differs",
        }
    }
}

/// `None` = equal. A missing set-valued key equals the empty set.
fn cmp_val(cached: Option<&String>, recomputed: Option<&String>) -> Option<Diff> {
    match (cached, recomputed) {
        (None, None) => None,
        (Some(a), Some(b)) => (!text_eq(a, b)).then_some(Diff::Differs),
        (Some(a), None) => (a != "{}").then_some(Diff::CacheOnly),
        (None, Some(b)) => (b != "{}").then_some(Diff::RecomputeOnly),
    }
}

fn sched_eq(a: &[(f64, f64)], b: &[(f64, f64)]) -> bool {
    a.len() == b.len() && a.iter().zip(b.iter()).all(|(x, y)| approx(x.0, y.0) && approx(x.1, y.1))
}

fn sched_text(s: &[(f64, f64)]) -> String {
    format!("[{}]", s.iter().map(|(a, d)| format!("({a:?},{d:?})")).collect::<Vec<_>>().join(","))
}

fn is_opaque(a: Option<&String>, b: Option<&String>) -> bool {
    a.is_some_and(|v| v == "<opaque>") || b.is_some_and(|v| v == "<opaque>")
}

/// Preconditions under which a key is a function of the tour at all. Today one: the compatibility tag is only defined
/// for tours holding jobs of at most one class (the hard constraint guarantees it; `InfeasibleSearch` works on a derived
/// problem with stochastically relaxed constraints, where such tours exist and the tag is "the class of whichever job the
/// hash set yields first").
fn key_precondition(key: &str, rc: &RouteContext) -> Option<&'static str> {
    if key == "CurrentCompatibilityTourStateKey" {
        let classes: BTreeSet<&String> = rc.route().tour.jobs().filter_map(|j| j.dimens().get_job_compatibility()).collect();
        if classes.len() > 1 {
            return Some("key not judged: tour holds jobs of several compatibility classes (relaxed constraints), tag is not a function of the tour");
        }
    }
    None
}

fn job_ptr(job: &Job) -> usize {
    match job {
        Job::Single(s) => Arc::as_ptr(s) as usize,
        Job::Multi(m) => Arc::as_ptr(m) as usize,
    }
}

fn list_sig(s: &SolutionContext) -> (Vec<usize>, Vec<usize>, Vec<usize>) {
    let sorted = |mut v: Vec<usize>| {
        v.sort_unstable();
        v
    };
    (
        sorted(s.required.iter().map(job_ptr).collect()),
        sorted(s.ignored.iter().map(job_ptr).collect()),
        sorted(s.unassigned.keys().map(job_ptr).collect()),
    )
}

struct Rec {
    /// Per route (same order as the original): state after the route-level entry point only.
    d1: Vec<RouteSnap>,
    /// Per route of the copy after the full recompute.
    df: Vec<RouteSnap>,
    sol: BTreeMap<String, String>,
    copy: InsertionContext,
    lists_changed: bool,
}

/// The from-scratch recomputation (see module doc).
fn recompute(ctx: &InsertionContext) -> Rec {
    let goal = ctx.problem.goal.clone();
    let mut copy = ctx.deep_copy();
    for rc in copy.solution.routes.iter_mut() {
        rc.state_mut().clear();
        goal.accept_route_state(rc);
    }
    let d1: Vec<RouteSnap> = copy.solution.routes.iter().map(snap_route).collect();
    for rc in copy.solution.routes.iter_mut() {
        let _ = rc.state_mut();
    }
    copy.solution.state = SolutionState::default();
    let before = list_sig(&copy.solution);
    goal.accept_solution_state(&mut copy.solution);
    let lists_changed = before != list_sig(&copy.solution);
    let df = copy.solution.routes.iter().map(snap_route).collect();
    let sol = digest_map(copy.solution.state.verif_digest());
    Rec { d1, df, sol, copy, lists_changed }
}

/// Route-level entry point alone on a copy of one route.
fn recompute_route(ctx: &InsertionContext, route_index: usize) -> RouteSnap {
    let mut copy = ctx.solution.routes[route_index].deep_copy();
    copy.state_mut().clear();
    ctx.problem.goal.accept_route_state(&mut copy);
    snap_route(&copy)
}

/// Job accounting is the subject of C02/C04, not of this check; it is only used to tell apart cache mismatches that are
/// a consequence of it (features treat a solution whose job count differs from the problem's as partial; list-length
/// based change detection in `accept_solution_state` misses a job that is listed twice).
/// `strict` = hand-over (every job exactly once); otherwise (mid-operator) only "listed twice".
fn accounting_broken(s: &SolutionContext, problem: &Problem, strict: bool) -> Option<&'static str> {
    if strict && s.get_jobs_amount() != problem.jobs.size() {
        return Some("jobs amount differs from the problem size");
    }
    let mut seen: HashSet<usize> = HashSet::new();
    for rc in s.routes.iter() {
        for j in rc.route().tour.jobs() {
            if !seen.insert(job_ptr(j)) && strict {
                return Some("a job is in two tours");
            }
        }
    }
    let mut listed: HashSet<usize> = HashSet::new();
    for j in s.required.iter().chain(s.ignored.iter()) {
        // mid-operator (not strict) a job may sit in a tour and still be listed (repair removes it from the lists afterwards)
        if strict && seen.contains(&job_ptr(j)) {
            return Some("a job is in a tour and in required/ignored");
        }
        if !listed.insert(job_ptr(j)) {
            return Some("a job is listed twice in required/ignored");
        }
    }
    if strict && s.unassigned.keys().any(|j| seen.contains(&job_ptr(j))) {
        return Some("a job is in a tour and in unassigned");
    }
    None
}

fn acct_suffix(info: Option<&Arc<CaseInfo>>, s: &SolutionContext, problem: &Problem, strict: bool) -> &'static str {
    let now = accounting_broken(s, problem, strict).is_some();
    let earlier = info.is_some_and(|i| i.amount_off.load(AO::Relaxed));
    if now || earlier { "|job-accounting-broken" } else { "" }
}

fn lists_json(s: &SolutionContext, problem: &Problem) -> Value {
    json!({
        "required": s.required.iter().map(job_id).collect::<Vec<_>>(),
        "ignored": s.ignored.iter().map(job_id).collect::<Vec<_>>(),
        "unassigned": s.unassigned.keys().map(job_id).collect::<Vec<_>>(),
        "locked": s.locked.iter().map(job_id).collect::<Vec<_>>(),
        "jobs_amount": s.get_jobs_amount(),
        "problem_jobs": problem.jobs.size(),
    })
}

fn hash_of<T: std::hash::Hash>(v: &T) -> u64 {
    use std::hash::Hasher;
    let mut h = std::collections::hash_map::DefaultHasher::new();
    v.hash(&mut h);
    h.finish()
}

// ---------------------------------------------------------------------------------------------
// (a) hand-over check

fn check_handover(info: &Arc<CaseInfo>, kind: &str, s: &InsertionContext) {
    let m = mon();
    m.run.eval();
    m.handovers.fetch_add(1, AO::Relaxed);
    m.tally("handover_kinds", kind);
    // a solution with pending `required` jobs (ruin output) is complete as well: required jobs are counted
    if let Some(reason) = accounting_broken(&s.solution, &s.problem, true) {
        // not judged here (C02/C04); remembered for the rest of the history, see `acct_suffix`
        let first = !info.amount_off.swap(true, AO::Relaxed);
        m.tally("handover_job_accounting_broken", &format!("{kind}|{reason}{}", if first { "|first hand-over of the history where it is broken" } else { "" }));
        if first && std::env::var_os("C05_DEBUG").is_some() {
            eprintln!("ACCOUNTING seed={} kind={kind} {reason} history={:?} lists={}", info.case_seed, info.steps.lock().unwrap(), lists_json(&s.solution, &s.problem));
        }
    }
    let acct = acct_suffix(Some(info), &s.solution, &s.problem, true);
    let cached: Vec<RouteSnap> = s.solution.routes.iter().map(snap_route).collect();
    let cached_sol = digest_map(s.solution.state.verif_digest());
    let rec = match m.run.guard(|| recompute(s)) {
        Ok(r) => r,
        Err(p) => {
            let sig = format!("C05|handover|panic-in-recompute|{}", p.file());
            m.violation(&sig, &format!("from-scratch recomputation of an operator output panicked: {} at {}", clip(&p.message, 160), p.location), || {
                info.artefact(json!({"point": "handover", "handover_kind": kind, "panic": p.to_json(), "tours": s.solution.routes.iter().map(tour_text).collect::<Vec<_>>(), "lists": lists_json(&s.solution, &s.problem)}))
            });
            return;
        }
    };
    let mut items: Vec<(&'static str, String)> = Vec::new();
    let mut any_tour_changed = false;
    let mut compared_any = false;
    for (ri, c) in cached.iter().enumerate() {
        let Some(f) = rec.df.iter().find(|f| f.actor == c.actor) else {
            any_tour_changed = true;
            m.run.inconclusive("handover: route missing after recompute");
            continue;
        };
        if f.tour_sig != c.tour_sig {
            any_tour_changed = true;
            m.run.inconclusive("handover: recompute itself changed the tour (break removal / reload marker clean-up); route skipped");
            continue;
        }
        if c.stale {
            items.push(("handover_stale_routes", kind.to_string()));
        }
        // schedules
        items.push(("handover_route_keys", SCHEDULE_KEY.to_string()));
        if !sched_eq(&c.sched, &f.sched) {
            let sig = format!("C05|handover|key={SCHEDULE_KEY}|value-differs{acct}");
            let what = format!(
                "after {kind}: activity schedule of {} differs from recomputation: cached {} recomputed {}",
                tour_text(&s.solution.routes[ri]),
                clip(&sched_text(&c.sched), 300),
                clip(&sched_text(&f.sched), 300)
            );
            m.violation_at(&sig, kind, &what, || {
                info.artefact(json!({"point": "handover", "handover_kind": kind, "key": SCHEDULE_KEY, "route": tour_text(&s.solution.routes[ri]),
                    "cached": sched_text(&c.sched), "recomputed": sched_text(&f.sched), "tours": s.solution.routes.iter().map(tour_text).collect::<Vec<_>>(), "lists": lists_json(&s.solution, &s.problem)}))
            });
        }
        let keys: BTreeSet<&String> = c.digest.keys().chain(f.digest.keys()).collect();
        for k in keys {
            let (cv, fv) = (c.digest.get(k), f.digest.get(k));
            items.push(("route_keys_seen", k.clone()));
            if is_opaque(cv, fv) {
                items.push(("opaque_keys", format!("route:{k}")));
                continue;
            }
            if let Some(reason) = key_precondition(k, &s.solution.routes[ri]) {
                m.run.inconclusive(reason);
                continue;
            }
            compared_any = true;
            items.push(("handover_route_keys", k.clone()));
            items.push(("handover_key_by_kind", format!("{kind}|{k}")));
            if let Some(diff) = cmp_val(cv, fv) {
                let sig = format!("C05|handover|key={k}|{}{acct}", diff.label());
                let amount = s.solution.get_jobs_amount().cmp(&s.problem.jobs.size());
                items.push(("handover_route_mismatch_context", format!("{k}|{}|jobs_amount {amount:?} problem size", diff.label())));
                let what = format!(
                    "after {kind}: route-level key {k} of {} is cached as {} but recomputation from the bare tours gives {}",
                    tour_text(&s.solution.routes[ri]),
                    clip(cv.map_or("<missing>", |v| v.as_str()), 200),
                    clip(fv.map_or("<missing>", |v| v.as_str()), 200)
                );
                m.violation_at(&sig, kind, &what, || {
                    info.artefact(json!({"point": "handover", "handover_kind": kind, "key": k, "route": tour_text(&s.solution.routes[ri]),
                        "cached": cv, "recomputed": fv, "route_was_stale": c.stale,
                        "tours": s.solution.routes.iter().map(tour_text).collect::<Vec<_>>(), "lists": lists_json(&s.solution, &s.problem)}))
                });
            }
        }
    }
    // solution level
    if any_tour_changed || rec.lists_changed {
        m.run.inconclusive(if any_tour_changed {
            "handover: solution-level keys / fitness not judged (recompute changed a tour)"
        } else {
            "handover: solution-level keys / fitness not judged (recompute moved jobs between required/ignored/unassigned)"
        });
    } else {
        for k in cached_sol.keys().filter(|k| !rec.sol.contains_key(*k)) {
            items.push(("solution_keys_not_written_by_recompute", k.clone()));
        }
        // objective values are derived from the solution-level caches: a fitness difference is attributed to the
        // solution-level keys that differ at this very hand-over (`|with=none` if no such key differs)
        let mut differing_solution_keys: Vec<String> = Vec::new();
        let mut literally_differing_solution_keys: Vec<String> = Vec::new();
        for (k, fv) in rec.sol.iter() {
            let cv = cached_sol.get(k);
            items.push(("solution_keys_seen", k.clone()));
            if is_opaque(cv, Some(fv)) {
                items.push(("opaque_keys", format!("solution:{k}")));
                continue;
            }
            compared_any = true;
            items.push(("handover_solution_keys", k.clone()));
            items.push(("handover_key_by_kind", format!("{kind}|solution:{k}")));
            if cv != Some(fv) {
                literally_differing_solution_keys.push(k.clone());
            }
            if let Some(diff) = cmp_val(cv, Some(fv)) {
                differing_solution_keys.push(k.clone());
                let sig = format!("C05|handover|key=solution:{k}|{}{acct}", diff.label());
                let what = format!(
                    "after {kind}: solution-level key {k} is cached as {} but recomputation from the bare tours gives {}",
                    clip(cv.map_or("<missing>", |v| v.as_str()), 200),
                    clip(fv, 200)
                );
                m.violation_at(&sig, kind, &what, || {
                    info.artefact(json!({"point": "handover", "handover_kind": kind, "key": format!("solution:{k}"), "cached": cv, "recomputed": fv,
                        "tours": s.solution.routes.iter().map(tour_text).collect::<Vec<_>>(), "lists": lists_json(&s.solution, &s.problem)}))
                });
            }
        }
        // objective values are a function of the tours only
        let goal = &s.problem.goal;
        let verdict = m.run.guard(|| {
            let fa: Vec<f64> = goal.fitness(s).collect();
            let fb: Vec<f64> = goal.fitness(&rec.copy).collect();
            let o1 = goal.total_order(s, &rec.copy);
            let o2 = goal.total_order(&rec.copy, s);
            (fa, fb, o1, o2)
        });
        match verdict {
            Ok((fa, fb, o1, o2)) => {
                let join = |keys: &Vec<String>| if keys.is_empty() { "none".to_string() } else { keys.join("+") };
                let with = join(&differing_solution_keys);
                // for the "equal within tolerance but not bit-equal" case: keys whose rendering differs at all
                let with_literal = join(&literally_differing_solution_keys);
                items.push(("handover_fitness_vectors", format!("len={}", fa.len())));
                if info.prag.has("balance") {
                    items.push(("handover_fitness_vectors", "with a balance objective".to_string()));
                }
                if info.prag.has("multi-objective") {
                    items.push(("handover_fitness_vectors", "with a multi-objective layer".to_string()));
                }
                let fit_ok = fa.len() == fb.len() && fa.iter().zip(fb.iter()).all(|(a, b)| approx(*a, *b));
                if !fit_ok {
                    let what = format!("after {kind}: goal.fitness(s) = {fa:?} but goal.fitness(recompute(s)) = {fb:?} (identical tours)");
                    m.violation_at(&format!("C05|handover|fitness-differs|with=solution:{with}{acct}"), kind, &what, || {
                        info.artefact(json!({"point": "handover", "handover_kind": kind, "fitness_cached": format!("{fa:?}"), "fitness_recomputed": format!("{fb:?}"),
                            "tours": s.solution.routes.iter().map(tour_text).collect::<Vec<_>>(), "lists": lists_json(&s.solution, &s.problem)}))
                    });
                }
                if o1 != Ordering::Equal || o2 != Ordering::Equal {
                    let sig = if fit_ok {
                        format!("C05|handover|total-order-not-equal|fitness-within-tolerance|with=solution:{with_literal}{acct}")
                    } else {
                        format!("C05|handover|total-order-not-equal|with=solution:{with}{acct}")
                    };
                    let what = format!("after {kind}: total_order(s, recompute(s)) = {o1:?}, total_order(recompute(s), s) = {o2:?} for identical tours; fitness {fa:?} vs {fb:?}");
                    m.violation_at(&sig, kind, &what, || {
                        info.artefact(json!({"point": "handover", "handover_kind": kind, "fitness_cached": format!("{fa:?}"), "fitness_recomputed": format!("{fb:?}"),
                            "tours": s.solution.routes.iter().map(tour_text).collect::<Vec<_>>(), "lists": lists_json(&s.solution, &s.problem)}))
                    });
                }
            }
            Err(p) => {
                let sig = format!("C05|handover|panic-in-fitness|{}", p.file());
                m.violation(&sig, &format!("fitness / total_order on an operator output and its recomputed twin panicked: {} at {}", clip(&p.message, 160), p.location), || {
                    info.artefact(json!({"point": "handover", "handover_kind": kind, "panic": p.to_json()}))
                });
            }
        }
    }
    m.tally_many(items);
    if compared_any {
        let sig: Vec<&Vec<(usize, usize, usize)>> = cached.iter().map(|c| &c.tour_sig).collect();
        m.run.nontrivial(&format!("h|{}|{}", info.case_seed, hash_of(&sig)));
    }
    if m.run.wants_sample() && !cached.is_empty() {
        m.run.sample(json!({
            "point": "handover", "handover_kind": kind, "case_seed": info.case_seed, "shape": info.prag.shape(),
            "history": info.steps.lock().unwrap().clone(),
            "tours": s.solution.routes.iter().map(tour_text).collect::<Vec<_>>(),
            "first_route_cached_digest": cached[0].digest,
            "first_route_recomputed_digest": rec.df.first().map(|f| f.digest.clone()),
            "solution_cached_digest": cached_sol,
            "solution_recomputed_digest": rec.sol,
        }));
    }
}

// ---------------------------------------------------------------------------------------------
// (b) per-insertion check

fn on_insertion(ctx: &InsertionContext, route_index: usize, job: &Job) {
    let m = mon();
    let seen = m.insertions_seen.fetch_add(1, AO::Relaxed);
    let info = m.lookup(&ctx.problem);
    let n = info.as_ref().map_or_else(|| ctx.problem.jobs.size(), |i| i.jobs);
    if n > 50 {
        // sample with probability min(1, 50/n): a deterministic low-discrepancy pick on the global insertion counter
        let c = m.sample_ctr.fetch_add(1, AO::Relaxed);
        let x = (mix(0xC05, c) >> 11) as f64 / (1u64 << 53) as f64;
        if x >= 50.0 / n as f64 {
            m.insertions_skipped_by_sampling.fetch_add(1, AO::Relaxed);
            return;
        }
    }
    let _ = seen;
    // the monitor must never disturb the solver: everything below is caught
    let res = vverif::guard(|| check_insertion(ctx, route_index, job, info.as_ref()));
    if let Err(p) = res {
        m.run.inconclusive(&format!("insertion monitor itself failed: {} at {}", clip(&p.message, 80), p.location));
    }
}

fn check_insertion(ctx: &InsertionContext, route_index: usize, job: &Job, info: Option<&Arc<CaseInfo>>) {
    let m = mon();
    m.run.eval();
    m.insertions_checked.fetch_add(1, AO::Relaxed);
    let origin = info.map_or_else(|| "derived-problem".to_string(), |i| i.origin());
    let mut items: Vec<(&'static str, String)> = vec![("insertion_origin", origin.clone())];
    let artefact = |extra: Value| -> Value {
        let mut detail = extra;
        detail["point"] = json!("insertion");
        detail["origin"] = json!(origin.clone());
        detail["inserted_job"] = json!(job_id(job));
        detail["route_after_insertion"] = json!(tour_text(&ctx.solution.routes[route_index]));
        detail["tours"] = json!(ctx.solution.routes.iter().map(tour_text).collect::<Vec<_>>());
        detail["required"] = json!(ctx.solution.required.iter().map(job_id).collect::<Vec<_>>());
        detail["ignored"] = json!(ctx.solution.ignored.iter().map(job_id).collect::<Vec<_>>());
        detail["unassigned"] = json!(ctx.solution.unassigned.keys().map(job_id).collect::<Vec<_>>());
        detail["jobs_amount"] = json!(ctx.solution.get_jobs_amount());
        detail["problem_jobs"] = json!(ctx.problem.jobs.size());
        match info {
            Some(i) => i.artefact(detail),
            None => json!({"detail": detail}),
        }
    };
    let acct = acct_suffix(info, &ctx.solution, &ctx.problem, false);
    let cached = snap_route(&ctx.solution.routes[route_index]);
    // route-level entry point on a copy of the modified route
    let d1m = match vverif::guard(|| recompute_route(ctx, route_index)) {
        Ok(s) => s,
        Err(p) => {
            let sig = format!("C05|insertion|panic-in-recompute|{}", p.file());
            m.violation(&sig, &format!("goal.accept_route_state on a copy of the route that just received an insertion panicked: {} at {}", clip(&p.message, 160), p.location), || {
                artefact(json!({"panic": p.to_json()}))
            });
            m.tally_many(items);
            return;
        }
    };
    // full recompute (needed for solution-dependent keys); mid-operator states may be outside its domain
    let rec = match vverif::guard(|| recompute(ctx)) {
        Ok(r) => Some(r),
        Err(p) => {
            m.run.inconclusive(&format!("insertion: full recompute panicked mid-operator ({}); solution-dependent keys not judged", p.file()));
            None
        }
    };
    let dfm: Option<&RouteSnap> = rec.as_ref().and_then(|r| r.df.iter().find(|f| f.actor == cached.actor)).filter(|f| f.tour_sig == cached.tour_sig);
    if rec.is_some() && dfm.is_none() {
        m.run.inconclusive("insertion: full recompute changed the tour of the modified route; solution-dependent keys not judged");
    }

    // schedule: route-local by definition
    items.push(("insertion_route_keys", SCHEDULE_KEY.to_string()));
    if !sched_eq(&cached.sched, &d1m.sched) {
        let sig = format!("C05|insertion|key={SCHEDULE_KEY}|value-differs{acct}");
        let what = format!(
            "after inserting {} into {} ({origin}): activity schedule cached {} but route-level recomputation gives {}",
            job_id(job),
            tour_text(&ctx.solution.routes[route_index]),
            clip(&sched_text(&cached.sched), 300),
            clip(&sched_text(&d1m.sched), 300)
        );
        m.violation_at(&sig, &origin, &what, || artefact(json!({"key": SCHEDULE_KEY, "cached": sched_text(&cached.sched), "recomputed": sched_text(&d1m.sched)})));
    }

    // lazily evaluated guard for solution-dependent keys
    let mut guard_state: Option<Result<(), &'static str>> = None;
    let mut soldep_guard = |rec: &Rec| -> Result<(), &'static str> {
        if let Some(g) = guard_state {
            return g;
        }
        let g = (|| {
            let routes = &ctx.solution.routes;
            if rec.df.len() != routes.len() {
                return Err("insertion: solution-dependent key not judged (recompute changed the set of routes)");
            }
            for (i, rc) in routes.iter().enumerate() {
                let (o1, of) = (&rec.d1[i], &rec.df[i]);
                let c = snap_route(rc);
                if of.actor != c.actor || of.tour_sig != c.tour_sig {
                    return Err("insertion: solution-dependent key not judged (recompute itself changed a tour)");
                }
                if i == route_index {
                    continue;
                }
                // every other route must be fresh in its route-local keys (inputs of the solution-dependent value)
                if !sched_eq(&c.sched, &o1.sched) {
                    return Err("insertion: solution-dependent key not judged (another route is stale mid-operator)");
                }
                let keys: BTreeSet<&String> = c.digest.keys().chain(o1.digest.keys()).chain(of.digest.keys()).collect();
                for k in keys {
                    let (cv, v1, vf) = (c.digest.get(k), o1.digest.get(k), of.digest.get(k));
                    if is_opaque(cv, v1) || is_opaque(vf, None) {
                        continue;
                    }
                    let local = cmp_val(v1, vf).is_none();
                    if local && cmp_val(cv, v1).is_some() {
                        return Err("insertion: solution-dependent key not judged (another route is stale mid-operator)");
                    }
                }
            }
            Ok(())
        })();
        guard_state = Some(g);
        g
    };

    let mut compared_any = false;
    let empty = BTreeMap::new();
    let df_digest = dfm.map_or(&empty, |f| &f.digest);
    let keys: BTreeSet<&String> = cached.digest.keys().chain(d1m.digest.keys()).chain(df_digest.keys()).collect();
    for k in keys {
        let (cv, v1, vf) = (cached.digest.get(k), d1m.digest.get(k), df_digest.get(k));
        items.push(("route_keys_seen", k.clone()));
        if is_opaque(cv, v1) || is_opaque(vf, None) {
            items.push(("opaque_keys", format!("route:{k}")));
            continue;
        }
        if let Some(reason) = key_precondition(k, &ctx.solution.routes[route_index]) {
            m.run.inconclusive(reason);
            continue;
        }
        let listed = SOL_DEP_KEYS.contains(&k.as_str());
        if listed && info.is_none() {
            // a problem derived by the solver itself (InfeasibleSearch: stochastically relaxed constraints, e.g. an overdrawn
            // shared resource "-1"): whether the solution counts as partial may differ between original and recompute
            m.run.inconclusive("insertion: solution-dependent key not judged on a derived problem (relaxed constraints)");
            continue;
        }
        // classification: measured when the full recompute kept the tour, otherwise from the list
        let local = match dfm {
            Some(_) => cmp_val(v1, vf).is_none(),
            None => !listed,
        };
        if local {
            compared_any = true;
            items.push(("insertion_route_keys", k.clone()));
            items.push(("insertion_key_by_origin", format!("{origin}|{k}")));
            if let Some(diff) = cmp_val(cv, v1) {
                let sig = format!("C05|insertion|key={k}|{}{acct}", diff.label());
                let what = format!(
                    "after inserting {} into {} ({origin}): route-level key {k} is cached as {} but clear + goal.accept_route_state on a copy of that route gives {}",
                    job_id(job),
                    tour_text(&ctx.solution.routes[route_index]),
                    clip(cv.map_or("<missing>", |v| v.as_str()), 200),
                    clip(v1.map_or("<missing>", |v| v.as_str()), 200)
                );
                m.violation_at(&sig, &origin, &what, || artefact(json!({"key": k, "class": "route-local", "cached": cv, "recomputed": v1, "recomputed_full": vf})));
            }
        } else {
            if !listed {
                items.push(("route_keys_measured_solution_dependent", k.clone()));
            }
            let (Some(rec), Some(_)) = (rec.as_ref(), dfm) else {
                m.run.inconclusive("insertion: solution-dependent key not judged (no full recompute with unchanged tour)");
                continue;
            };
            if let Err(reason) = soldep_guard(rec) {
                m.run.inconclusive(reason);
                continue;
            }
            compared_any = true;
            items.push(("insertion_route_keys", k.clone()));
            items.push(("insertion_solution_dependent_keys", k.clone()));
            items.push(("insertion_key_by_origin", format!("{origin}|{k}")));
            if let Some(diff) = cmp_val(cv, vf) {
                let sig = format!("C05|insertion|key={k}|{}{acct}", diff.label());
                {
                    let req: Vec<usize> = ctx.solution.required.iter().map(job_ptr).collect();
                    let dup = req.iter().collect::<HashSet<_>>().len() != req.len();
                    let amount = ctx.solution.get_jobs_amount().cmp(&ctx.problem.jobs.size());
                    m.tally("insertion_solution_dependent_mismatch_context", &format!("{k}|jobs_amount {amount:?} problem size|job twice in required: {dup}"));
                }
                let what = format!(
                    "after inserting {} into {} ({origin}): solution-dependent route key {k} is cached as {} but recomputation from the bare tours gives {} (all other routes fresh, no tour touched by the recompute; jobs_amount {} vs problem jobs {})",
                    job_id(job),
                    tour_text(&ctx.solution.routes[route_index]),
                    clip(cv.map_or("<missing>", |v| v.as_str()), 200),
                    clip(vf.map_or("<missing>", |v| v.as_str()), 200),
                    ctx.solution.get_jobs_amount(),
                    ctx.problem.jobs.size()
                );
                m.violation_at(&sig, &origin, &what, || {
                    artefact(json!({"key": k, "class": "solution-dependent", "cached": cv, "recomputed": vf, "route_level_only": v1,
                        "recompute_moved_jobs_between_lists": rec.lists_changed,
                        "required_after_recompute": rec.copy.solution.required.iter().map(job_id).collect::<Vec<_>>(),
                        "ignored_after_recompute": rec.copy.solution.ignored.iter().map(job_id).collect::<Vec<_>>()}))
                });
            }
        }
    }
    m.tally_many(items);
    if compared_any {
        m.run.nontrivial(&format!("i|{}|{}", info.map_or(0, |i| i.case_seed), hash_of(&cached.tour_sig)));
    }
}

// ---------------------------------------------------------------------------------------------
// workload: problems

fn biased_cfg(rng: &mut Rng, min_jobs: usize, max_jobs: usize) -> GenCfg {
    GenCfg {
        min_jobs,
        max_jobs,
        p_multi_dim: 0.4,
        p_time_windows: 0.7,
        p_multi_places: 0.25,
        p_skills: 0.2,
        p_groups: 0.5,
        p_compat: 0.55,
        p_order: 0.45,
        p_values: 0.2,
        p_limits: 0.65,
        p_breaks: 0.45,
        p_required_breaks: 0.08,
        p_reloads: 0.55,
        p_resources: 0.7,
        p_recharge: if rng.chance(0.5) { 0.15 } else { 0.0 },
        p_clustering: 0.0,
        p_open_end: 0.3,
        p_scale: 0.15,
        p_asymmetric: 0.3,
        p_unreachable: 0.05,
        p_objectives: 0.75,
        p_two_profiles: 0.3,
        p_multi_shift: 0.2,
        p_multi_jobs: 0.6,
        p_time_matrices: 0.0,
        p_break_mixed_places: 0.0,
        p_unreachable_pair: 0.0,
        always_tag: true,
        p_place_tag: 0.2,
        sparse_place_tags: false,
    }
}

fn objective_types(v: &Value, out: &mut Vec<String>) {
    if let Some(a) = v.as_array() {
        for o in a {
            if let Some(t) = o.get("type").and_then(|t| t.as_str()) {
                out.push(t.to_string());
            }
            if let Some(inner) = o.get("objectives") {
                objective_types(inner, out);
            }
        }
    }
}

/// Makes balance / multi-objective layers frequent (documents stay valid: no duplicates, one cost objective).
fn boost_objectives(rng: &mut Rng, p: &mut PragProblem) {
    let balance = ["balance-max-load", "balance-activities", "balance-distance", "balance-duration"];
    let has_value = p.has("value");
    let obj = p.problem.as_object_mut().unwrap();
    if !obj.contains_key("objectives") {
        if has_value || !rng.chance(0.5) {
            return;
        }
        let cost = *rng.pick(&["minimize-cost", "minimize-distance", "minimize-duration"]);
        obj.insert("objectives".into(), json!([{"type": "minimize-unassigned"}, {"type": "minimize-tours"}, {"type": cost}]));
        p.features.insert("custom-objectives".into());
    }
    let list = obj.get_mut("objectives").unwrap();
    let mut types = Vec::new();
    objective_types(list, &mut types);
    let arr = list.as_array_mut().unwrap();
    if !types.iter().any(|t| t.starts_with("balance-")) && rng.chance(0.6) {
        let b = *rng.pick(&balance);
        let pos = rng.range_usize(0, arr.len());
        arr.insert(pos, json!({"type": b}));
        types.push(b.to_string());
        p.features.insert("balance".into());
    }
    if !types.iter().any(|t| t == "compact-tour") && rng.chance(0.15) {
        arr.push(json!({"type": "compact-tour", "job_radius": rng.range_i64(1, 4)}));
    }
    // a layer is only folded from two objectives which the reader accepts inside a layer: no `maximize-value` (E1607 looks
    // at the top level only) and at least one objective whose feature has a state or constraint (a layer of two
    // objective-only features is refused with "empty feature is not allowed")
    let ty = |v: &Value| v.get("type").and_then(|t| t.as_str()).unwrap_or("").to_string();
    let stateful = |t: &str| t.starts_with("balance-") || t == "minimize-cost" || t == "minimize-distance" || t == "minimize-duration";
    let pairs: Vec<usize> = (0..arr.len().saturating_sub(1))
        .filter(|i| {
            let (a, b) = (ty(&arr[*i]), ty(&arr[*i + 1]));
            a != "maximize-value" && b != "maximize-value" && (stateful(&a) || stateful(&b))
        })
        .collect();
    if !types.iter().any(|t| t == "multi-objective") && arr.len() >= 3 && !pairs.is_empty() && rng.chance(0.35) {
        let i = *rng.pick(&pairs);
        let a = arr.remove(i);
        let b = arr.remove(i);
        let strategy = if rng.chance(0.5) { json!({"name": "sum"}) } else { json!({"name": "weighted-sum", "weights": [0.6, 0.4]}) };
        arr.insert(i, json!({"type": "multi-objective", "strategy": strategy, "objectives": [a, b]}));
        p.features.insert("multi-objective".into());
    }
    let mut types = Vec::new();
    objective_types(p.problem.get("objectives").unwrap(), &mut types);
    for t in types {
        p.features.insert(format!("obj:{t}"));
    }
}

fn make_problem(rng: &mut Rng, min_jobs: usize, max_jobs: usize) -> Option<(PragProblem, Arc<Problem>)> {
    let m = mon();
    let cfg = biased_cfg(rng, min_jobs, max_jobs);
    let mut prag = generate(rng, &cfg);
    boost_objectives(rng, &mut prag);
    match read_problem(&prag) {
        ReadOutcome::Ok(problem) => Some((prag, problem)),
        ReadOutcome::Err(codes, text) => {
            if std::env::var_os("C05_DEBUG").is_some() {
                eprintln!("reader rejected: {} :: {} :: objectives={}", codes.join(","), clip(&text, 300), prag.problem.get("objectives").map_or("-".to_string(), |o| o.to_string()));
            }
            m.run.inconclusive(&format!("generated problem rejected by the reader: {}", codes.join(",")));
            None
        }
        ReadOutcome::Panic(p) => {
            m.run.inconclusive(&format!("reader panicked: {}", p.file()));
            None
        }
    }
}

fn new_env() -> Arc<Environment> {
    Arc::new(Environment::new(Arc::new(DefaultRandom::default()), None, Default::default(), Arc::new(|_: &str| {}), false))
}

// ---------------------------------------------------------------------------------------------
// workload: operator histories

fn random_recreate(rng: &mut Rng, env: &Arc<Environment>) -> (String, Arc<dyn Recreate>) {
    let random = env.random.clone();
    match rng.usize_below(10) {
        0 => ("cheapest".into(), Arc::new(RecreateWithCheapest::new(random))),
        1 => ("farthest".into(), Arc::new(RecreateWithFarthest::new(random))),
        2 => {
            let end = rng.range_usize(2, 4);
            (format!("skip-best(1,{end})"), Arc::new(RecreateWithSkipBest::new(1, end, random)))
        }
        3 => ("slice".into(), Arc::new(RecreateWithSlice::new(random))),
        4 => ("blinks".into(), Arc::new(RecreateWithBlinks::new_with_defaults(random))),
        5 => ("skip-random".into(), Arc::new(RecreateWithSkipRandom::new(random))),
        6 => {
            let max = rng.range_usize(3, 20);
            (format!("gaps(2,{max})"), Arc::new(RecreateWithGaps::new(2, max, random)))
        }
        7 => ("nearest".into(), Arc::new(RecreateWithNearestNeighbor::new(random))),
        8 => {
            let end = rng.range_usize(3, 5);
            (format!("regret(2,{end})"), Arc::new(RecreateWithRegret::new(2, end, random)))
        }
        _ => ("perturbation".into(), Arc::new(RecreateWithPerturbation::new(Noise::new_with_addition(0.33, (-0.2, 0.2), random.clone()), random))),
    }
}

fn random_ruin(rng: &mut Rng, problem: &Arc<Problem>) -> (String, Arc<dyn Ruin>) {
    let n = rng.range_usize(1, 3);
    let mut names = Vec::new();
    let mut ruins: Vec<(Arc<dyn Ruin>, Float)> = Vec::new();
    for i in 0..n {
        let min = rng.range_usize(1, 4);
        let max = min + rng.range_usize(1, 12);
        let limits = RemovalLimits { removed_activities_range: min..max, affected_routes_range: 1..rng.range_usize(2, 5) };
        let prob = if i == 0 { 1.0 } else { *rng.pick(&[1.0, 0.5]) };
        let (name, ruin): (String, Arc<dyn Ruin>) = match rng.usize_below(8) {
            0 => {
                let lmax = rng.range_usize(2, 20);
                let cavg = (lmax + 1).div_ceil(4) + rng.range_usize(0, 6);
                (format!("adjusted-string({lmax},{cavg})"), Arc::new(AdjustedStringRemoval::new(lmax, cavg, 0.01, limits)))
            }
            1 => (format!("neighbour({min}..{max})"), Arc::new(NeighbourRemoval::new(limits))),
            2 => (format!("random-job({min}..{max})"), Arc::new(RandomJobRemoval::new(limits))),
            3 => ("random-route".into(), Arc::new(RandomRouteRemoval::new(limits))),
            4 => ("close-route".into(), Arc::new(CloseRouteRemoval::new(limits))),
            5 => ("worst-route".into(), Arc::new(WorstRouteRemoval::new(limits))),
            6 => {
                let skip = rng.range_usize(1, 4);
                (format!("worst-job({skip},{min}..{max})"), Arc::new(WorstJobRemoval::new(skip, limits)))
            }
            _ => match ClusterRemoval::new(problem.clone(), limits) {
                Ok(r) => (format!("cluster({min}..{max})"), Arc::new(r)),
                Err(_) => {
                    let limits = RemovalLimits { removed_activities_range: min..max, affected_routes_range: 1..3 };
                    (format!("random-job({min}..{max})"), Arc::new(RandomJobRemoval::new(limits)))
                }
            },
        };
        names.push(name);
        ruins.push((ruin, prob));
    }
    (format!("composite-ruin[{}]", names.join("+")), Arc::new(CompositeRuin::new(ruins)))
}

fn local_composite(rng: &mut Rng, env: &Arc<Environment>) -> (String, Arc<dyn LocalOperator>) {
    let w = |rng: &mut Rng| rng.range_usize(1, 10);
    let ops: Vec<(Arc<dyn LocalOperator>, usize)> = vec![
        (Arc::new(ExchangeSwapStar::new(env.random.clone(), 200)), w(rng)),
        (Arc::new(ExchangeInterRouteBest::new(0.05, -0.1, 1.1)), w(rng)),
        (Arc::new(ExchangeInterRouteRandom::new(0.5, 0.5, 1.5)), w(rng)),
        (Arc::new(ExchangeIntraRouteRandom::new(0.5, 0.5, 1.5)), w(rng)),
        (Arc::new(ExchangeSequence::default()), w(rng)),
        (Arc::new(RescheduleDeparture::default()), 1),
    ];
    let max = rng.range_usize(1, 4);
    (format!("local-search[composite x1..{max}]"), Arc::new(CompositeLocalOperator::new(ops, 1, max)))
}

fn is_customer_job(job: &Job) -> bool {
    match job {
        Job::Single(s) => s.dimens.get_vehicle_id().is_none(),
        Job::Multi(_) => true,
    }
}

/// A manual ruin exactly as ruins do it (remove from the tour through `route_mut()`, push to `required`) followed by `restore()`.
fn manual_ruin(rng: &mut Rng, c: &mut InsertionContext) -> Option<String> {
    let mut cands: Vec<(usize, Job)> = Vec::new();
    for (ri, rc) in c.solution.routes.iter().enumerate() {
        for job in rc.route().tour.jobs() {
            if is_customer_job(job) && !c.solution.locked.contains(job) {
                cands.push((ri, job.clone()));
            }
        }
    }
    if cands.is_empty() {
        return None;
    }
    // the tour order of `jobs()` is a hash order: sort by id to keep the choice a function of the case seed
    cands.sort_by_key(|(ri, j)| (*ri, job_id(j)));
    let tagged = |j: &Job| j.dimens().get_job_compatibility().is_some() || j.dimens().get_job_group().is_some();
    let picked: Vec<(usize, Job)> = match rng.usize_below(3) {
        0 => {
            let k = rng.range_usize(1, 4).min(cands.len());
            rng.shuffle(&mut cands);
            cands.into_iter().take(k).collect()
        }
        1 => {
            // every compatibility/group job of one route (falls back to one random job)
            let routes: BTreeSet<usize> = cands.iter().filter(|(_, j)| tagged(j)).map(|(ri, _)| *ri).collect();
            if routes.is_empty() {
                let i = rng.usize_below(cands.len());
                vec![cands[i].clone()]
            } else {
                let routes: Vec<usize> = routes.into_iter().collect();
                let r = *rng.pick(&routes);
                cands.into_iter().filter(|(ri, j)| *ri == r && tagged(j)).collect()
            }
        }
        _ => {
            // all but one customer job of one route
            let routes: Vec<usize> = cands.iter().map(|(ri, _)| *ri).collect::<BTreeSet<_>>().into_iter().collect();
            let r = *rng.pick(&routes);
            let mut of_route: Vec<(usize, Job)> = cands.into_iter().filter(|(ri, _)| *ri == r).collect();
            rng.shuffle(&mut of_route);
            let keep = if of_route.len() > 1 { 1 } else { 0 };
            of_route.into_iter().skip(keep).collect()
        }
    };
    let mut desc = Vec::new();
    for (ri, job) in picked {
        let rc = &mut c.solution.routes[ri];
        if rc.route_mut().tour.remove(&job) {
            desc.push(format!("{} from {}", job_id(&job), vehicle_of(rc)));
            c.solution.required.push(job);
        }
    }
    c.restore();
    Some(format!("manual-ruin[remove {}]+restore", desc.join(", ")))
}

/// The manual ruin as a `Ruin`, so that it is used exactly where ruins are used: inside `RuinAndRecreate`, its output
/// (a solution with pending `required` jobs) being handed over to a recreate. The hand-over is checked inside `run`.
struct ManualRuin {
    rng: Mutex<Rng>,
    info: Arc<CaseInfo>,
    label: Mutex<String>,
}

impl Ruin for ManualRuin {
    fn run(&self, _: &RefinementContext, mut insertion_ctx: InsertionContext) -> InsertionContext {
        let label = manual_ruin(&mut self.rng.lock().unwrap(), &mut insertion_ctx);
        if let Some(label) = label {
            *self.label.lock().unwrap() = label.clone();
            self.info.steps.lock().unwrap().push(label);
            check_handover(&self.info, "manual-ruin-restore", &insertion_ctx);
        }
        insertion_ctx
    }
}

fn history_case(case_idx: u64, case_seed: u64) {
    let m = mon();
    let mut rng = Rng::new(case_seed);
    let max_jobs = if rng.chance(0.15) { 40 } else { 24 };
    let Some((prag, problem)) = make_problem(&mut rng, 4, max_jobs) else { return };
    for f in prag.features.iter() {
        m.tally("features_active[history]", f);
    }
    let info = Arc::new(CaseInfo {
        case_seed,
        case_idx,
        kind: "history",
        jobs: prag.jobs,
        prag,
        config: None,
        steps: Mutex::new(Vec::new()),
        current: Mutex::new(String::new()),
        amount_off: std::sync::atomic::AtomicBool::new(false),
    });
    let key = Arc::as_ptr(&problem) as usize;
    m.cases.lock().unwrap().insert(key, info.clone());
    run_history(&mut rng, &info, &problem);
    m.cases.lock().unwrap().remove(&key);
}

fn run_history(rng: &mut Rng, info: &Arc<CaseInfo>, problem: &Arc<Problem>) {
    let m = mon();
    let run = m.run;
    let env = new_env();
    let panic_violation = |kind: &str, label: &str, p: &vverif::PanicInfo| {
        let sig = format!("C05|panic|{}", p.file());
        m.violation(&sig, &format!("operator step '{label}' panicked: {} at {}", clip(&p.message, 200), p.location), || {
            info.artefact(json!({"point": "operator-call", "handover_kind": kind, "step": label, "panic": p.to_json()}))
        });
    };
    let set_current = |kind: &str| *info.current.lock().unwrap() = kind.to_string();

    // s0
    let (rname, recreate) = random_recreate(rng, &env);
    let label = format!("recreate:{rname}");
    set_current("recreate-initial");
    let mut rctx = RefinementContext::new(problem.clone(), Box::new(GreedyPopulation::new(problem.goal.clone(), 1, None)), TelemetryMode::None, env.clone());
    let s0 = match run.guard(|| recreate.run(&rctx, InsertionContext::new(problem.clone(), env.clone()))) {
        Ok(s) => s,
        Err(p) => {
            panic_violation("recreate-initial", &label, &p);
            return;
        }
    };
    info.steps.lock().unwrap().push(label);
    check_handover(info, "recreate-initial", &s0);
    rctx.add_solution(s0.deep_copy());
    let mut s = s0;

    let default_op = create_default_heuristic_operator(problem.clone(), env.clone());
    let mut static_h = None;
    let mut dynamic_h = None;
    let steps = rng.range_usize(5, 40);
    for _ in 0..steps {
        if !run.has_time() {
            break;
        }
        let choice = rng.weighted(&[4.0, 3.0, 2.0, 1.0, 1.0, 3.0]);
        let (kind, label, outputs): (&str, String, Result<Vec<InsertionContext>, vverif::PanicInfo>) = match choice {
            0 => {
                let (un, ruin) = random_ruin(rng, problem);
                let (rn, recreate) = random_recreate(rng, &env);
                let op = RuinAndRecreate::new(ruin, recreate);
                set_current("ruin-recreate");
                ("ruin-recreate", format!("ruin-recreate[{un} -> {rn}]"), run.guard(|| vec![op.search(&rctx, &s)]))
            }
            1 => {
                let (name, local) = local_composite(rng, &env);
                let op = LocalSearch::new(local);
                set_current("local-search");
                ("local-search", name, run.guard(|| vec![op.search(&rctx, &s)]))
            }
            2 => {
                set_current("default-operator");
                ("default-operator", "default-heuristic-operator".to_string(), run.guard(|| vec![default_op.search(&rctx, &s)]))
            }
            3 => {
                let h = static_h.get_or_insert_with(|| get_static_heuristic(problem.clone(), env.clone()));
                set_current("hyper-static");
                ("hyper-static", "static-selective.search_many".to_string(), run.guard(|| h.search_many(&rctx, vec![&s])))
            }
            4 => {
                let h = dynamic_h.get_or_insert_with(|| get_dynamic_heuristic(problem.clone(), env.clone()));
                set_current("hyper-dynamic");
                ("hyper-dynamic", "dynamic-selective.search_many".to_string(), run.guard(|| h.search_many(&rctx, vec![&s])))
            }
            _ => {
                let ruin = Arc::new(ManualRuin { rng: Mutex::new(rng.fork()), info: info.clone(), label: Mutex::new("manual-ruin[nothing]".to_string()) });
                let (rn, recreate) = random_recreate(rng, &env);
                let op = RuinAndRecreate::new(ruin.clone(), recreate);
                set_current("manual-ruin-recreate");
                ("manual-ruin-recreate", format!("recreate after manual ruin[{rn}]"), run.guard(|| vec![op.search(&rctx, &s)]))
            }
        };
        match outputs {
            Ok(outs) => {
                info.steps.lock().unwrap().push(label);
                for out in outs.iter() {
                    check_handover(info, kind, out);
                }
                if let Some(first) = outs.into_iter().next() {
                    s = first;
                }
            }
            Err(p) => {
                panic_violation(kind, &label, &p);
                return;
            }
        }
    }
}

// ---------------------------------------------------------------------------------------------
// workload: real solves with the observer installed

fn solve_case(case_idx: u64, case_seed: u64) {
    let m = mon();
    let run = m.run;
    let mut rng = Rng::new(case_seed);
    let (min_jobs, max_jobs) = match rng.usize_below(10) {
        0 => (60, run.by_tier(100, 160)),
        1 | 2 => (25, 45),
        _ => (4, 24),
    };
    let Some((prag, problem)) = make_problem(&mut rng, min_jobs, max_jobs) else { return };
    for f in prag.features.iter() {
        m.tally("features_active[solve]", f);
    }
    let big = prag.jobs > 50;
    let parallelism = *rng.pick(&[(1usize, 1usize), (1, 2), (2, 2), (2, 1)]);
    let max_gens = if big { 3 } else { run.by_tier(8, 20) };
    let (config, shape) = if rng.chance(0.7) {
        gen_config(&mut rng, max_gens, Some(parallelism))
    } else {
        (simple_config(rng.range_usize(1, max_gens), parallelism.0, parallelism.1), Default::default())
    };
    m.tally("solve_config", &format!("{}|{}", if shape.hyper.is_empty() { "simple" } else { &shape.hyper }, if shape.population.is_empty() { "default" } else { &shape.population }));
    let info = Arc::new(CaseInfo {
        case_seed,
        case_idx,
        kind: "solve",
        jobs: prag.jobs,
        prag,
        config: Some(config.clone()),
        steps: Mutex::new(Vec::new()),
        current: Mutex::new(String::new()),
        amount_off: std::sync::atomic::AtomicBool::new(false),
    });
    let key = Arc::as_ptr(&problem) as usize;
    m.cases.lock().unwrap().insert(key, info.clone());
    let outcome = solve_with_config(problem.clone(), &config);
    m.cases.lock().unwrap().remove(&key);
    match outcome {
        SolveOutcome::Ok(_) => m.tally("solves", "ok"),
        SolveOutcome::Err(e) => {
            m.tally("solves", "error");
            run.inconclusive(&format!("solve returned an error: {}", clip(&e, 80)));
        }
        SolveOutcome::Panic(p) => {
            m.tally("solves", "panic");
            let sig = format!("C05|panic|{}", p.file());
            m.violation(&sig, &format!("real solve panicked: {} at {}", clip(&p.message, 200), p.location), || {
                info.artefact(json!({"point": "solve", "panic": p.to_json()}))
            });
        }
    }
}

// ---------------------------------------------------------------------------------------------

fn replay(path: &std::path::Path) {
    let m = mon();
    let run = m.run;
    let Ok(text) = std::fs::read_to_string(path) else {
        run.inconclusive("replay: cannot read artefact");
        return;
    };
    let Ok(doc) = serde_json::from_str::<Value>(&text) else {
        run.inconclusive("replay: cannot parse artefact");
        return;
    };
    let art = &doc["artefact"];
    let (Some(seed), Some(kind)) = (art["case_seed"].as_u64(), art["kind"].as_str()) else {
        run.inconclusive("replay: artefact has no case_seed/kind");
        return;
    };
    let idx = art["case_idx"].as_u64().unwrap_or(0);
    // The generators are deterministic in the case seed; the solver's own random choices are not replayable
    // (DESIGN.md §0), so the same case is re-run a few times: a best-effort reproduction, reported through the same path.
    println!("replay: re-running {kind} case seed={seed} up to 8 times (best effort: the solver's internal randomness is not seedable)");
    let wanted = doc["signature"].as_str().unwrap_or("").to_string();
    for attempt in 1..=8 {
        if kind == "solve" { solve_case(idx, seed) } else { history_case(idx, seed) }
        if m.reported.lock().unwrap().contains(&wanted) {
            println!("replay: recorded signature reproduced in attempt {attempt}");
            return;
        }
    }
    println!("replay: recorded signature not reproduced in 8 attempts ({} other violations seen)", run.violation_count());
}

fn main() {
    let run: &'static Run = Box::leak(Box::new(Run::from_args(
        "C05",
        "exploration",
        "G1 problems biased to compatibility/groups/reloads(+shared resources)/limits/order/breaks/multi-dim/balance+multi-objective goals; \
         (a) operator histories of 5-40 steps (ruin+recreate with random ruins/recreates, composite local search, default operator, static and dynamic \
         hyper-heuristic, manual ruin + restore) checked at every step output, (b) every applied insertion (H1b observer) inside those histories and \
         inside real solves with G2 configurations. A hand-over is non-trivial when >=1 non-opaque key was compared; distinct by (case seed, all tours). \
         An insertion is non-trivial when >=1 key of the modified route was compared; distinct by (case seed, tour of the modified route).",
        45,
        480,
    )));
    let _ = MON.set(Mon {
        run,
        cases: Mutex::new(HashMap::new()),
        tally: Mutex::new(BTreeMap::new()),
        reported: Mutex::new(HashSet::new()),
        insertions_seen: AtomicU64::new(0),
        insertions_checked: AtomicU64::new(0),
        insertions_skipped_by_sampling: AtomicU64::new(0),
        sample_ctr: AtomicU64::new(0),
        handovers: AtomicU64::new(0),
    });
    let m = mon();
    // process-global, installed once
    verif_set_insertion_observer(Some(Arc::new(on_insertion)));

    if let Some(path) = run.replay.clone() {
        replay(&path);
        m.flush();
        run.finish();
    }

    run.assume("reference = the code's own from-scratch entry points (clear + goal.accept_route_state per route, then goal.accept_solution_state on a reset SolutionState); a defect shared by incremental and from-scratch paths is invisible here (C01/C03/C06 cover values against an independent replayer)");
    run.assume("values are compared as text with 1e-9 relative tolerance on embedded numbers; a missing set-valued key equals the empty set; <opaque> values are listed, not judged");
    run.assume("routes whose tour the recompute itself changes (break removal, reload marker clean-up inside accept_solution_state) are inconclusive; solution-level keys, fitness and total_order are judged only when the recompute changed no tour and moved no job between required/ignored/unassigned");
    run.assume("after an insertion only the route that received it is judged; its solution-dependent keys (shared resource availability, group tag) only when every other route is fresh in its route-local keys");
    run.assume("job accounting (every job exactly once) is C02/C04's subject: a mismatch seen while, or in a history after, a hand-over had a job listed twice / in two places / missing gets the signature suffix |job-accounting-broken (features treat such solutions as partial and list-length based change detection misses a job listed twice), so that consequences of that class can be told apart from defects of the caches themselves");
    run.assume("hand-over points are the outputs of search steps in harness-built histories (incl. CompositeRuin-style ruin + restore); hand-overs inside real solves are not hooked (only insertions are); vicinity clustering is off (it re-creates the Problem); big problems (>50 jobs) are sampled with probability 50/n");
    run.assume("the solver's internal random choices are not seedable: replay re-runs the recorded case (deterministic generators) several times");

    // phase 1: histories
    let hist_cases = run.by_tier(100_000u64, 1_000_000);
    par_for(12, hist_cases, &|| !run.has_time_frac(0.55), &|i| {
        history_case(i, mix(run.seed, i));
    });
    // phase 2: real solves (rayon inside): 4 at a time
    let solve_cases = run.by_tier(100_000u64, 1_000_000);
    par_for(4, solve_cases, &|| !run.has_time(), &|i| {
        solve_case(i, mix(run.seed ^ 0x5017E, i));
    });
    verif_set_insertion_observer(None);

    m.flush();
    let seen = m.insertions_seen.load(AO::Relaxed);
    let checked = m.insertions_checked.load(AO::Relaxed);
    run.note("insertions_observed", json!(seen));
    run.note("insertions_checked", json!(checked));
    run.note("insertions_skipped_by_sampling", json!(m.insertions_skipped_by_sampling.load(AO::Relaxed)));
    run.note("handovers_checked", json!(m.handovers.load(AO::Relaxed)));

    // floors
    run.floor("insertions observed", seen, run.by_tier(1000, 50_000));
    run.floor("insertions checked", checked, run.by_tier(1000, 30_000));
    run.floor("hand-overs checked", m.handovers.load(AO::Relaxed), run.by_tier(200, 5000));
    for kind in ["recreate-initial", "ruin-recreate", "local-search", "default-operator", "hyper-static", "hyper-dynamic", "manual-ruin-restore", "manual-ruin-recreate"] {
        run.floor(&format!("hand-over kind {kind}"), m.tallied("handover_kinds", kind), 1);
    }
    run.floor("insertions from real solves", m.tallied("insertion_origin", "solve"), 1);
    run.floor("insertions from histories", m.tallied_keys("insertion_origin").iter().filter(|k| k.starts_with("history:")).map(|k| m.tallied("insertion_origin", k)).sum(), 1);
    // every key the features of the workload write must have been compared at least once ...
    for k in m.tallied_keys("route_keys_seen") {
        if m.tallied("opaque_keys", &format!("route:{k}")) > 0 {
            continue;
        }
        run.floor(&format!("route key {k} compared at hand-over"), m.tallied("handover_route_keys", &k), 1);
        run.floor(&format!("route key {k} compared after insertion"), m.tallied("insertion_route_keys", &k), 1);
    }
    for k in m.tallied_keys("solution_keys_seen") {
        if m.tallied("opaque_keys", &format!("solution:{k}")) > 0 {
            continue;
        }
        run.floor(&format!("solution key {k} compared at hand-over"), m.tallied("handover_solution_keys", &k), 1);
    }
    // ... and the feature mix must have produced the keys this property names
    for k in [
        "LatestArrivalActivityStateKey",
        "WaitingTimeActivityStateKey",
        "TotalDistanceTourStateKey",
        "TotalDurationTourStateKey",
        "CurrentCapacityActivityStateKey",
        "MaxFutureCapacityActivityStateKey",
        "MaxPastCapacityActivityStateKey",
        "ReloadIntervalsTourStateKey",
        "SharedResourceStateKey",
        "CurrentGroupsTourStateKey",
        "CurrentCompatibilityTourStateKey",
        "LimitDurationTourStateKey",
        SCHEDULE_KEY,
    ] {
        run.floor(&format!("expected route key {k} compared at hand-over"), m.tallied("handover_route_keys", k), 1);
        run.floor(&format!("expected route key {k} compared after insertion"), m.tallied("insertion_route_keys", k), 1);
    }
    run.floor("solution key TourOrderViolationsSolutionStateKey compared", m.tallied("handover_solution_keys", "TourOrderViolationsSolutionStateKey"), 1);
    run.floor("fitness vectors compared with a balance objective in the goal", m.tallied("handover_fitness_vectors", "with a balance objective"), 10);
    run.floor("fitness vectors compared with a multi-objective layer in the goal", m.tallied("handover_fitness_vectors", "with a multi-objective layer"), 10);
    run.floor("fitness vectors compared", m.tallied_keys("handover_fitness_vectors").iter().filter(|k| k.starts_with("len=")).map(|k| m.tallied("handover_fitness_vectors", k)).sum(), 100);
    run.finish();
}
