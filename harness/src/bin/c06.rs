//! C06 – insertion evaluation agrees with brute-force simulation.
//!
//! (a) soundness: every `Success` of `eval_job_insertion_in_route` (single-task and pickup-delivery jobs,
//!     `Concrete(i)` for every leg, `Any`, `Last`) is carried out on the spec exactly as `apply_insertion_success`
//!     does and the resulting tour is simulated by O3 (`vverif::micro::simulate`);
//! (b) completeness, single-task jobs, `Any` + `LegSelection::Exhaustive` + `BestResultSelector`: `Failure` only if O3
//!     finds no feasible (position, place, window); the position of a `Success` is one of O3's feasible positions.
//!
//! Workload: deterministic small-scope enumerations (families `tw`, `pd`, `cap`; tours of 0..3 activities, every
//! position, values placed exactly on / one off the boundaries computed by the oracle) + seeded random cases up to
//! 8 activities (`vverif::micro::gen_case`).
//!
//! History: on the pinned tree clause (b) fired in three classes, all in `TransportConstraint::evaluate_activity`
//! (signatures `C06|complete|false-failure|veh=closed|window-opening-after-shift-end-listed-first|code=time`,
//! `…|veh=open|open-end|service-finishes-after-window-end|code=time`, `…|veh=open|open-end|missed-window-listed-first|code=time`);
//! repaired in /repo by the `fix:` commits 6119f45 and 3561197. `false_failure_class` still names these workload
//! classes so that a regression shows up under the same signatures.

use serde_json::{Value, json};
use std::collections::BTreeMap;
use vrp_core::construction::heuristics::{
    BestResultSelector, EvaluationContext, InsertionContext, InsertionPosition, InsertionResult, LegSelection,
    eval_job_insertion_in_route,
};
use vverif::micro::*;
use vverif::{Rng, Run, mix, par_for};

const RULE: &str = "a case = one micro-problem (1 vehicle, open or closed, optional shift end, capacity) with one tour of 0..8 \
activities built through Tour::insert_last + accept_route_state/accept_solution_state and a set of pending jobs in `required`; \
an evaluation = one call of eval_job_insertion_in_route(tour, job, position) with position in {Concrete(i) for every leg i, Any, Last} \
judged by the forward simulator O3. Families: tw (line metric, every location sequence over 3 customers, per activity free / zero-slack / waiting \
windows, shift end = return + {0,1,3}, candidate windows ending at arrival-1/arrival/arrival+1 for every target leg, waiting candidates, \
two-window and two-place candidates in both orders), cap (every delivery/pickup/pickup-delivery-pair sequence with sizes 1..2, capacity = peak + {0,1,2}, \
candidate sizes 1..3 of every kind incl. pickup-delivery), pd (pickup-delivery candidates with boundary windows), rand (seeded: metric grid, \
mixed static/dynamic demand, decoy windows/places, up to 8 activities; 30 % of the tours on a vehicle with tour limits - distance, duration, \
size, mostly two or three together - set to what the tour uses + {0,0,1,2,3,5,10,30}). A (tour, job) pair is DISTINCT by its literal content and NON-TRIVIAL when \
O3 finds it feasible at some but not all positions, or when the simulated tour after an accepted insertion touches a boundary \
(arrival == window end, return == shift end, load == capacity, distance / duration / size == its limit, waiting).";

#[derive(Clone, Copy, Debug, PartialEq, Eq)]
enum Pos {
    Concrete(usize),
    Any,
    Last,
}

impl Pos {
    fn name(&self) -> &'static str {
        match self {
            Pos::Concrete(_) => "concrete",
            Pos::Any => "any",
            Pos::Last => "last",
        }
    }

    fn to_core(self) -> InsertionPosition {
        match self {
            Pos::Concrete(i) => InsertionPosition::Concrete(i),
            Pos::Any => InsertionPosition::Any,
            Pos::Last => InsertionPosition::Last,
        }
    }
}

/// Per-case accumulator: observation tables are flushed once per case (the run's tables sit behind one mutex).
#[derive(Default)]
struct Acc {
    evals: u64,
    tables: BTreeMap<(&'static str, String), u64>,
}

impl Acc {
    fn see(&mut self, table: &'static str, key: &str) {
        *self.tables.entry((table, key.to_string())).or_default() += 1;
    }

    fn flush(self, run: &Run) {
        run.eval_n(self.evals);
        for ((table, key), n) in self.tables {
            run.observe_n(table, &key, n);
        }
    }
}

fn code_name(code: i32) -> &'static str {
    match code {
        CODE_TIME => "time",
        CODE_CAPACITY => "capacity",
        CODE_MAX_DISTANCE => "max-distance",
        CODE_MAX_DURATION => "max-duration",
        CODE_TOUR_SIZE => "tour-size",
        -1 => "unknown",
        _ => "other",
    }
}

fn alt_class(job: &JobSpec) -> &'static str {
    let places = job.tasks.iter().map(|t| t.places.len()).max().unwrap_or(1);
    let windows = job.tasks.iter().flat_map(|t| t.places.iter().map(|p| p.windows.len())).max().unwrap_or(1);
    match (places > 1, windows > 1) {
        (false, false) => "none",
        (false, true) => "windows",
        (true, false) => "places",
        (true, true) => "places+windows",
    }
}

fn artefact(case: &Case, candidate: usize, origin: &str, case_seed: Option<u64>, pos: Pos, extra: Value) -> Value {
    json!({
        "origin": origin,
        "case_seed": case_seed,
        "position": format!("{pos:?}"),
        "case": case.reduced_to(candidate),
        "details": extra,
    })
}

/// Boundary tags of a tour that O3 found feasible after an insertion at `positions`.
fn boundary_tags(spec: &MicroSpec, route: &RouteSpec, visits: &[Visit], positions: &[usize], rep: &SimReport, acc: &mut Acc) -> bool {
    let veh = &spec.vehicles[route.vehicle];
    let mut hit = false;
    let stops = spec.stops(visits);
    for (i, stop) in stops.iter().enumerate() {
        let inserted = positions.contains(&i);
        if stop.win.1 == Some(rep.arrivals[i]) {
            acc.see("boundaries", if inserted { "arrival==window-end@inserted" } else { "arrival==window-end@other" });
            hit = true;
        }
        if rep.arrivals[i] < stop.win.0 {
            acc.see("boundaries", if inserted { "waiting@inserted" } else { "waiting@other" });
            hit = true;
        }
    }
    if veh.end_time.is_some() && veh.end_time == rep.end_arrival {
        acc.see("boundaries", "return==shift-end");
        hit = true;
    }
    if rep.peak_load == veh.capacity {
        acc.see("boundaries", "peak-load==capacity");
        hit = true;
    }
    if veh.max_distance == Some(rep.distance) {
        acc.see("boundaries", "distance==max-distance");
        hit = true;
    }
    if veh.max_duration == Some(rep.duration) {
        acc.see("boundaries", "duration==max-duration");
        hit = true;
    }
    if veh.tour_size == Some(visits.len()) {
        acc.see("boundaries", "activities==tour-size");
        hit = true;
    }
    if veh.end_loc.is_none() && !route.visits.is_empty() && positions.last() == Some(&(visits.len() - 1)) {
        acc.see("boundaries", "last-leg-of-open-tour");
        hit = true;
    }
    hit
}


/// Workload class of a case in which the exhaustive best insertion failed although O3 finds feasible insertions
/// (derived from the spec and O3 only): which feature of the input makes the feasible insertions special.
fn false_failure_class(spec: &MicroSpec, route: &RouteSpec, cand: usize, feasible: &[(usize, usize, usize)]) -> String {
    let veh = &spec.vehicles[route.vehicle];
    let job = &spec.jobs[cand];
    let n = route.visits.len();
    let options: Vec<(usize, usize)> =
        job.tasks[0].places.iter().enumerate().flat_map(|(p, place)| (0..place.windows.len()).map(move |w| (p, w))).collect();
    let window = |p: usize, w: usize| job.tasks[0].places[p].windows[w];
    // a window that opens after the shift end and is listed before every option feasible at the first leg
    if let Some(end) = veh.end_time {
        if let Some(first_late) = options.iter().find(|(p, w)| window(*p, *w).0 > end) {
            if !feasible.iter().any(|f| f.0 == 0 && (f.1, f.2) < *first_late) {
                return "window-opening-after-shift-end-listed-first".into();
            }
        }
    }
    let only_last = feasible.iter().all(|f| f.0 == n);
    if veh.end_loc.is_none() && only_last {
        // arrival at the candidate when it ends the open tour
        let (from, dep) = match route.visits.last() {
            None => (veh.start_loc, veh.start_time),
            Some(v) => (spec.stop(v).loc, spec.simulate(route).map(|r| *r.departs.last().unwrap()).unwrap_or(veh.start_time)),
        };
        let arrival = |p: usize| dep + spec.geo.duration(from, job.tasks[0].places[p].loc);
        let overhang = |p: usize, w: usize| {
            let (start, end) = window(p, w);
            end.is_some_and(|end| arrival(p).max(start) + job.tasks[0].places[p].dur > end)
        };
        // feasible options whose service also finishes inside the window
        let inside: Vec<_> = feasible.iter().filter(|f| !overhang(f.1, f.2)).collect();
        if inside.is_empty() {
            return "open-end|service-finishes-after-window-end".into();
        }
        if let Some(first_missed) = options.iter().find(|(p, w)| window(*p, *w).1.is_some_and(|end| arrival(*p) > end)) {
            if !inside.iter().any(|f| (f.1, f.2) < *first_missed) {
                return "open-end|missed-window-listed-first".into();
            }
        }
    }
    let where_ = if n == 0 { "empty-tour" } else if only_last { "last-leg-only" } else { "inner-leg" };
    format!("feasible={where_}|alt={}", alt_class(job))
}

fn check_case(run: &Run, case: &Case, origin: &'static str, case_seed: Option<u64>) {
    let spec = &case.spec;
    if case.routes.len() != 1 {
        run.inconclusive("harness: C06 cases have exactly one tour");
        return;
    }
    let route = &case.routes[0];
    let n = route.visits.len();
    // precondition: the tour itself is feasible for O3
    if let Err(fail) = spec.simulate(route) {
        run.inconclusive(&format!("base tour infeasible for O3 ({})", fail.class()));
        return;
    }
    let built = run.guard(|| {
        let micro = Micro::build(spec)?;
        let ctx = micro.state(Micro::environment(), &case.routes, &case.candidates, &[])?;
        Ok::<_, String>((micro, ctx))
    });
    let (micro, ctx): (Micro, InsertionContext) = match built {
        Ok(Ok(v)) => v,
        Ok(Err(e)) => {
            run.inconclusive(&format!("harness: cannot build the case: {}", vverif::clip(&e, 80)));
            return;
        }
        Err(p) => {
            run.violation(
                &format!("C06|panic|state-build|{}", p.file()),
                &format!("panic while building a tour that O3 finds feasible: {} at {}", p.message, p.location),
                json!({"origin": origin, "case_seed": case_seed, "case": case, "panic": p.to_json()}),
            );
            return;
        }
    };
    let veh = &spec.vehicles[route.vehicle];
    let veh_class = if veh.end_loc.is_some() { "closed" } else { "open" };
    let mut acc = Acc::default();
    acc.see("origin", origin);
    acc.see("tour_size", &n.to_string());
    acc.see("vehicle", &format!("{veh_class}{}", if veh.end_time.is_some() { "+shift-end" } else { "" }));
    if veh.has_limits() {
        let which: Vec<&str> = [("distance", veh.max_distance.is_some()), ("duration", veh.max_duration.is_some()), ("size", veh.tour_size.is_some())]
            .iter()
            .filter_map(|(n, on)| on.then_some(*n))
            .collect();
        acc.see("limits", &format!("tour-with-limits:{}", which.join("+")));
    }

    for &cand in case.candidates.iter() {
        let job_spec = &spec.jobs[cand];
        let multi = job_spec.is_multi();
        let job_class = if multi { "multi" } else { "single" };
        let feasible = if multi { vec![] } else { spec.feasible_single_insertions(route, cand) };
        let feasible_pos = |p: usize| feasible.iter().any(|f| f.0 == p);
        let mut nontrivial = false;
        if !multi {
            let count = (0..=n).filter(|p| feasible_pos(*p)).count();
            acc.see("oracle_feasible_positions", if count == 0 { "none" } else if count == n + 1 { "all" } else { "some" });
            nontrivial |= count > 0 && count < n + 1;
            // demand boundaries the property names
            let kind = job_spec.tasks[0].kind;
            let overload_at = |pos: usize| {
                let mut visits = route.visits.clone();
                visits.insert(pos, Visit { job: cand, task: 0, place: 0, window: 0 });
                let mut relaxed = spec.clone();
                // capacity question only: drop all windows and the shift end
                relaxed.vehicles[route.vehicle].end_time = None;
                for j in relaxed.jobs.iter_mut() {
                    for t in j.tasks.iter_mut() {
                        for p in t.places.iter_mut() {
                            p.windows = vec![(0., None); p.windows.len()];
                        }
                    }
                }
                matches!(relaxed.simulate(&RouteSpec { vehicle: route.vehicle, visits }), Err(SimFail::Overload { .. }))
            };
            if n > 0 && kind == Kind::Pickup && overload_at(0) && !overload_at(n) {
                acc.see("boundaries", "pickup-fits-only-after-the-peak-load");
            }
            if n > 0 && kind == Kind::Delivery && overload_at(n) && !overload_at(0) {
                acc.see("boundaries", "delivery-fits-only-before-the-peak-load");
            }
        }
        acc.see("job", &format!("{job_class}/{}/alt={}", job_spec.tasks[0].kind.name(), alt_class(job_spec)));
        if multi {
            acc.see("multi_job_tasks", &format!("{} tasks: {}", job_spec.tasks.len(), job_spec.tasks.iter().map(|t| t.kind.name()).collect::<Vec<_>>().join(" > ")));
        }

        let positions: Vec<Pos> = (0..=n).map(Pos::Concrete).chain([Pos::Any, Pos::Last]).collect();
        for pos in positions {
            let job = &micro.jobs[cand];
            let leg_selection = LegSelection::Exhaustive;
            let result_selector = BestResultSelector::default();
            let eval_ctx = EvaluationContext { goal: &micro.problem.goal, job, leg_selection: &leg_selection, result_selector: &result_selector };
            let route_ctx = &ctx.solution.routes[0];
            let result = run.guard(|| eval_job_insertion_in_route(&ctx, &eval_ctx, route_ctx, pos.to_core(), InsertionResult::make_failure()));
            acc.evals += 1;
            let result = match result {
                Ok(r) => r,
                Err(p) => {
                    run.violation(
                        &format!("C06|panic|{}", p.file()),
                        &format!("eval_job_insertion_in_route panicked: {} at {}", p.message, p.location),
                        artefact(case, cand, origin, case_seed, pos, json!({"panic": p.to_json()})),
                    );
                    continue;
                }
            };
            match result {
                InsertionResult::Success(success) => {
                    acc.see("results", &format!("{job_class}/{}/success", pos.name()));
                    // (a) soundness
                    let (visits, at) = match micro.apply_success(&route.visits, cand, &success) {
                        Ok(v) => v,
                        Err(problem) => {
                            run.violation(
                                &format!("C06|sound|{job_class}|malformed-success"),
                                &format!("Success for {pos:?} cannot be carried out: {problem}"),
                                artefact(case, cand, origin, case_seed, pos, json!({"problem": problem})),
                            );
                            continue;
                        }
                    };
                    if let (Pos::Concrete(i), false) = (pos, multi) {
                        if at[0] != i {
                            run.violation(
                                "C06|sound|single|concrete-position-ignored",
                                &format!("Concrete({i}) answered with insertion index {}", at[0]),
                                artefact(case, cand, origin, case_seed, pos, json!({"returned_index": at[0]})),
                            );
                            continue;
                        }
                    }
                    match spec.simulate(&RouteSpec { vehicle: route.vehicle, visits: visits.clone() }) {
                        Ok(rep) => {
                            nontrivial |= boundary_tags(spec, route, &visits, &at, &rep, &mut acc);
                        }
                        Err(fail) => {
                            run.violation(
                                &format!("C06|sound|{job_class}|{}|pos={}", fail.class(), pos.name()),
                                &format!(
                                    "{veh_class} tour of {n} activities: Success at {at:?} for {pos:?} but O3 finds the resulting tour infeasible: {fail:?}"
                                ),
                                artefact(
                                    case,
                                    cand,
                                    origin,
                                    case_seed,
                                    pos,
                                    json!({"returned_indices": at, "oracle": format!("{fail:?}"), "cost": success.cost.iter().collect::<Vec<_>>()}),
                                ),
                            );
                            continue;
                        }
                    }
                    // (b) position of the exhaustive best insertion is one of the feasible ones
                    if pos == Pos::Any && !multi && !feasible_pos(at[0]) {
                        run.violation(
                            "C06|complete|position-not-feasible",
                            &format!("Any returned position {} which is not in O3's feasible set {:?}", at[0], feasible),
                            artefact(case, cand, origin, case_seed, pos, json!({"returned_index": at[0], "oracle_feasible": feasible})),
                        );
                    }
                }
                InsertionResult::Failure(failure) => {
                    acc.see("results", &format!("{job_class}/{}/failure/{}", pos.name(), code_name(failure.constraint.0)));
                    if multi {
                        continue;
                    }
                    match pos {
                        // the completeness clause is stated for jobs constrained by time windows, shift times and capacity: with tour
                        // limits (whose duration test is a deliberately conservative estimate) a Failure is observed, not judged
                        Pos::Any if veh.has_limits() => {
                            acc.see("limits", if feasible.is_empty() { "any-failure/oracle-none" } else { "any-failure/oracle-some(not judged)" });
                        }
                        Pos::Any => {
                            if !feasible.is_empty() {
                                let class = false_failure_class(spec, route, cand, &feasible);
                                run.violation(
                                    &format!("C06|complete|false-failure|veh={veh_class}|{class}|code={}", code_name(failure.constraint.0)),
                                    &format!(
                                        "{veh_class} tour of {n} activities, {} job: Any+Exhaustive+Best returned Failure(code {}, stopped {}) although O3 finds {} feasible (position, place, window), e.g. {:?}",
                                        job_spec.tasks[0].kind.name(),
                                        failure.constraint.0,
                                        failure.stopped,
                                        feasible.len(),
                                        feasible[0]
                                    ),
                                    artefact(
                                        case,
                                        cand,
                                        origin,
                                        case_seed,
                                        pos,
                                        json!({"oracle_feasible": feasible, "failure_code": failure.constraint.0, "stopped": failure.stopped}),
                                    ),
                                );
                            }
                        }
                        // not asserted by the property (only the exhaustive best-insertion mode is): observed only
                        Pos::Concrete(i) => {
                            acc.see("concrete_failure_vs_oracle", if feasible_pos(i) { "oracle-feasible" } else { "oracle-infeasible" });
                            if !feasible_pos(i) {
                                let mut near = false;
                                for (place, p) in job_spec.tasks[0].places.iter().enumerate() {
                                    for window in 0..p.windows.len() {
                                        let mut visits = route.visits.clone();
                                        visits.insert(i, Visit { job: cand, task: 0, place, window });
                                        match spec.simulate(&RouteSpec { vehicle: route.vehicle, visits }) {
                                            Err(SimFail::Late { by, .. }) | Err(SimFail::ShiftEnd { by }) if by == 1. => near = true,
                                            _ => {}
                                        }
                                    }
                                }
                                if near {
                                    acc.see("boundaries", "rejected-one-time-unit-late");
                                    nontrivial = true;
                                }
                            }
                        }
                        Pos::Last => {}
                    }
                }
            }
        }
        if nontrivial {
            // literal content of the (tour, job) pair
            let key = serde_json::to_string(&(&spec.geo, veh, &spec.stops(&route.visits), job_spec)).unwrap_or_default();
            run.nontrivial(&key);
        }
        if run.wants_sample() && nontrivial && n >= 2 {
            run.sample(json!({"origin": origin, "case": case.reduced_to(cand), "oracle_feasible_single_insertions": feasible}));
        }
    }
    acc.flush(run);
}

// ---------------------------------------------------------------------------------------------
// deterministic small-scope families

fn line_geo() -> Geo {
    Geo { coords: vec![(0, 0), (1, 0), (2, 0), (3, 0)], dist: Metric::Line, dur: Metric::Line, dur_scale: 1, tilt: false }
}

fn grid_geo() -> Geo {
    // 2 x 2 Manhattan grid, durations twice the distance
    Geo { coords: vec![(0, 0), (1, 0), (0, 1), (1, 1)], dist: Metric::Manhattan, dur: Metric::Manhattan, dur_scale: 2, tilt: false }
}

fn vehicle(closed: bool, capacity: i32) -> VehicleSpec {
    VehicleSpec {
        start_loc: 0,
        start_time: 0.,
        end_loc: closed.then_some(0),
        end_time: None,
        capacity,
        fixed: 0.,
        per_distance: 1.,
        per_time: 0.,
        max_distance: None,
        max_duration: None,
        tour_size: None,
    }
}

fn single(loc: usize, dur: f64, windows: Vec<Win>, kind: Kind, size: i32) -> JobSpec {
    JobSpec { tasks: vec![TaskSpec { places: vec![PlaceSpec { loc, dur, windows }], kind, size }], value: 0. }
}

fn product(values: usize, len: usize) -> Vec<Vec<usize>> {
    let mut all = vec![vec![]];
    for _ in 0..len {
        all = all.into_iter().flat_map(|p| (0..values).map(move |v| p.iter().copied().chain([v]).collect())).collect();
    }
    all
}

#[derive(Clone, Debug)]
enum Desc {
    /// time family: location per activity (1..=3), timing per activity (0 free, 1 zero slack, 2 waiting), end slack
    Tw { grid: bool, closed: bool, locs: Vec<usize>, timing: Vec<usize>, end_slack: Option<f64>, pd: bool },
    /// capacity family: slot kinds (0..4 = D1 D2 P1 P2, 4 = none), optional dynamic pair (i, j, size), capacity margin
    Cap { closed: bool, slots: Vec<usize>, pair: Option<(usize, usize, i32)>, margin: i32 },
}

fn family_descs(thorough: bool) -> Vec<Desc> {
    let mut descs = Vec::new();
    // tw + pd
    for grid in [false, true] {
        if grid && !thorough {
            continue;
        }
        for closed in [true, false] {
            for n in 0..=3usize {
                for locs in product(3, n) {
                    for timing in product(3, n) {
                        let special = timing.iter().filter(|t| **t != 0).count();
                        if !thorough && n == 3 && special > 1 {
                            continue;
                        }
                        let slacks: Vec<Option<f64>> = if closed { vec![None, Some(0.), Some(1.), Some(3.)] } else { vec![None] };
                        for end_slack in slacks {
                            let locs: Vec<usize> = locs.iter().map(|l| l + 1).collect();
                            descs.push(Desc::Tw { grid, closed, locs: locs.clone(), timing: timing.clone(), end_slack, pd: false });
                            if n <= 2 || (thorough && special <= 1) {
                                descs.push(Desc::Tw { grid, closed, locs, timing: timing.clone(), end_slack, pd: true });
                            }
                        }
                    }
                }
            }
        }
    }
    // cap
    for closed in [true, false] {
        for n in 0..=3usize {
            for margin in 0..=2 {
                for slots in product(5, n) {
                    descs.push(Desc::Cap { closed, slots, pair: None, margin });
                }
                for i in 0..n {
                    for j in i + 1..n {
                        for size in 1..=2 {
                            // the remaining slots (if any) take every static kind
                            for rest in product(5, n - 2) {
                                let mut slots = vec![usize::MAX; n];
                                let mut it = rest.into_iter();
                                for (k, s) in slots.iter_mut().enumerate() {
                                    if k != i && k != j {
                                        *s = it.next().unwrap();
                                    }
                                }
                                descs.push(Desc::Cap { closed, slots, pair: Some((i, j, size)), margin });
                            }
                        }
                    }
                }
            }
        }
    }
    descs
}

fn build_family_case(desc: &Desc) -> (Case, &'static str) {
    match desc {
        Desc::Tw { grid, closed, locs, timing, end_slack, pd } => {
            let geo = if *grid { grid_geo() } else { line_geo() };
            let mut veh = vehicle(*closed, 100);
            let mut jobs = Vec::new();
            let mut visits = Vec::new();
            let (mut loc, mut time) = (veh.start_loc, veh.start_time);
            let mut departs = vec![];
            for (slot, at) in locs.iter().enumerate() {
                let arrival = time + geo.duration(loc, *at);
                let win: Win = match timing[slot] {
                    0 => (0., None),
                    1 => (0., Some(arrival)),
                    _ => (arrival + 2., Some(arrival + 3.)),
                };
                jobs.push(single(*at, 1., vec![win], Kind::None, 0));
                visits.push(Visit { job: slot, task: 0, place: 0, window: 0 });
                time = arrival.max(win.0) + 1.;
                loc = *at;
                departs.push((loc, time));
            }
            if let (Some(slack), Some(end_loc)) = (end_slack, veh.end_loc) {
                veh.end_time = Some(time + geo.duration(loc, end_loc) + slack);
            }
            let n = locs.len();
            let mut candidates = Vec::new();
            let mut push = |jobs: &mut Vec<JobSpec>, job: JobSpec| {
                jobs.push(job);
                candidates.push(jobs.len() - 1);
            };
            let arrival_at = |q: usize, to: usize| -> f64 {
                let (from, dep) = if q == 0 { (veh.start_loc, veh.start_time) } else { departs[q - 1] };
                dep + geo.duration(from, to)
            };
            if !*pd {
                for at in [0usize, 1, 3] {
                    for dur in [0., 2.] {
                        push(&mut jobs, single(at, dur, vec![(0., None)], Kind::None, 0));
                        for q in 0..=n {
                            let a = arrival_at(q, at);
                            let tight = [(0., Some(a - 1.)), (0., Some(a)), (0., Some(a + 1.)), (a + 1., Some(a + 1.)), (a + 2., Some(a + 3.))];
                            for w in tight {
                                if w.1.unwrap() >= 0. {
                                    push(&mut jobs, single(at, dur, vec![w], Kind::None, 0));
                                }
                            }
                            // two windows: one just missed, one later; both orders
                            if a >= 1. {
                                let (early, late) = ((0., Some(a - 1.)), (a + 1., Some(a + 4.)));
                                push(&mut jobs, single(at, dur, vec![early, late], Kind::None, 0));
                                push(&mut jobs, single(at, dur, vec![late, early], Kind::None, 0));
                                // two places: the first one just missed, another location free; both orders
                                let other = if at == 3 { 2 } else { at + 1 };
                                let missed = PlaceSpec { loc: at, dur, windows: vec![early] };
                                let free = PlaceSpec { loc: other, dur, windows: vec![(0., None)] };
                                for places in [vec![missed.clone(), free.clone()], vec![free, missed]] {
                                    push(&mut jobs, JobSpec { tasks: vec![TaskSpec { places, kind: Kind::None, size: 0 }], value: 0. });
                                }
                            }
                            // a window that opens after the shift end listed before a reachable one
                            if let Some(end) = veh.end_time {
                                push(&mut jobs, single(at, dur, vec![(end + 1., Some(end + 5.)), (0., Some(a))], Kind::None, 0));
                            }
                        }
                    }
                }
            } else {
                for pickup_at in [1usize, 3] {
                    for delivery_at in [2usize, 0] {
                        for q in 0..=n {
                            let a = arrival_at(q, pickup_at);
                            for pw in [(0., Some(a - 1.)), (0., Some(a)), (a + 1., Some(a + 1.)), (0., None)] {
                                if pw.1.is_some_and(|e| e < 0.) {
                                    continue;
                                }
                                let direct = a.max(pw.0) + 1. + geo.duration(pickup_at, delivery_at);
                                for dw in [(0., None), (0., Some(direct - 1.)), (0., Some(direct)), (0., Some(direct + 2.)), (direct + 2., Some(direct + 2.))] {
                                    if dw.1.is_some_and(|e| e < 0.) {
                                        continue;
                                    }
                                    let pickup = TaskSpec { places: vec![PlaceSpec { loc: pickup_at, dur: 1., windows: vec![pw] }], kind: Kind::DynPickup, size: 1 };
                                    let delivery = TaskSpec { places: vec![PlaceSpec { loc: delivery_at, dur: 1., windows: vec![dw] }], kind: Kind::DynDelivery, size: 1 };
                                    push(&mut jobs, JobSpec { tasks: vec![pickup, delivery], value: 0. });
                                }
                            }
                        }
                    }
                }
            }
            let spec = MicroSpec { geo, vehicles: vec![veh], jobs, layers: vec![Layer::Unassigned, Layer::Distance], capacity_first: false };
            (Case { spec, routes: vec![RouteSpec { vehicle: 0, visits }], candidates }, if *pd { "exhaustive:pd" } else { "exhaustive:tw" })
        }
        Desc::Cap { closed, slots, pair, margin } => {
            let geo = line_geo();
            let mut jobs: Vec<JobSpec> = Vec::new();
            let mut visits = Vec::new();
            let mut pair_job = None;
            for (slot, s) in slots.iter().enumerate() {
                let at = 1 + slot % 3;
                match pair {
                    Some((i, _, size)) if *i == slot => {
                        jobs.push(single(at, 0., vec![(0., None)], Kind::DynPickup, *size));
                        pair_job = Some(jobs.len() - 1);
                        visits.push(Visit { job: jobs.len() - 1, task: 0, place: 0, window: 0 });
                    }
                    Some((_, j, size)) if *j == slot => {
                        let job = pair_job.unwrap();
                        jobs[job].tasks.push(TaskSpec { places: vec![PlaceSpec { loc: at, dur: 0., windows: vec![(0., None)] }], kind: Kind::DynDelivery, size: *size });
                        visits.push(Visit { job, task: 1, place: 0, window: 0 });
                    }
                    _ => {
                        let (kind, size) = match s {
                            0 => (Kind::Delivery, 1),
                            1 => (Kind::Delivery, 2),
                            2 => (Kind::Pickup, 1),
                            3 => (Kind::Pickup, 2),
                            _ => (Kind::None, 0),
                        };
                        jobs.push(single(at, 0., vec![(0., None)], kind, size));
                        visits.push(Visit { job: jobs.len() - 1, task: 0, place: 0, window: 0 });
                    }
                }
            }
            let mut veh = vehicle(*closed, i32::MAX / 4);
            let probe = MicroSpec { geo: geo.clone(), vehicles: vec![veh.clone()], jobs: jobs.clone(), layers: vec![], capacity_first: false };
            let peak = probe.simulate(&RouteSpec { vehicle: 0, visits: visits.clone() }).map(|r| r.peak_load).unwrap_or(0);
            veh.capacity = (peak + margin).max(1);
            let mut candidates = Vec::new();
            for size in 1..=3 {
                // static delivery, static pickup, and both at once (equal = a replacement, and unequal amounts)
                for kind in [Kind::Delivery, Kind::Pickup, Kind::Exchange(size), Kind::Exchange(size % 3 + 1)] {
                    jobs.push(single(2, 0., vec![(0., None)], kind, size));
                    candidates.push(jobs.len() - 1);
                }
                let pickup = TaskSpec { places: vec![PlaceSpec { loc: 1, dur: 0., windows: vec![(0., None)] }], kind: Kind::DynPickup, size };
                let delivery = TaskSpec { places: vec![PlaceSpec { loc: 3, dur: 0., windows: vec![(0., None)] }], kind: Kind::DynDelivery, size };
                jobs.push(JobSpec { tasks: vec![pickup, delivery], value: 0. });
                candidates.push(jobs.len() - 1);
            }
            jobs.push(single(2, 0., vec![(0., None)], Kind::None, 0));
            candidates.push(jobs.len() - 1);
            // constraint order alternates with the margin so that both orders see every sequence class
            let spec = MicroSpec { geo, vehicles: vec![veh], jobs, layers: vec![Layer::Unassigned, Layer::Distance], capacity_first: margin % 2 == 0 };
            (Case { spec, routes: vec![RouteSpec { vehicle: 0, visits }], candidates }, "exhaustive:cap")
        }
    }
}

fn random_cfg(rng: &mut Rng) -> GenCfg {
    GenCfg {
        max_activities: 8,
        routes: 1,
        spare_vehicle: false,
        candidates: rng.range_usize(3, 8),
        multi_share: 0.3,
        triple_share: 0.35,
        layers: if rng.chance(0.5) { vec![Layer::Unassigned, Layer::Distance] } else { vec![Layer::Cost, Layer::Unassigned] },
        priced: false,
        p_limits: 0.3,
    }
}

fn random_case(case_seed: u64) -> Case {
    let mut rng = Rng::new(case_seed);
    let cfg = random_cfg(&mut rng);
    gen_case(&mut rng, &cfg)
}

fn replay(run: &Run, path: &std::path::Path) {
    let doc: Value = std::fs::read_to_string(path).ok().and_then(|t| serde_json::from_str(&t).ok()).unwrap_or(Value::Null);
    let art = doc.get("artefact").cloned().unwrap_or(Value::Null);
    match art.get("case").cloned().and_then(|c| serde_json::from_value::<Case>(c).ok()) {
        Some(case) => {
            println!("replaying the literal case of {} (origin {})", path.display(), art.get("origin").and_then(|o| o.as_str()).unwrap_or("?"));
            check_case(run, &case, "replay", art.get("case_seed").and_then(|s| s.as_u64()));
        }
        None => run.inconclusive("replay: artefact holds no literal case"),
    }
}

fn main() {
    let run = Run::from_args("C06", "exploration", RULE, 60, 480);
    if let Some(path) = run.replay.clone() {
        replay(&run, &path);
        run.finish();
    }
    run.assume("O3 semantics: arrival = previous departure + travel; service starts at max(arrival, window start); infeasible iff arrival > window end, return to a closed end after the shift end, load outside [0, capacity] or a dynamic delivery before its pickup");
    run.assume("the vehicle's latest departure equals its earliest one (VehicleDetailBuilder::set_start_time): no departure-time shift is possible, and the evaluator itself never shifts departures");
    run.assume("tour limits (30 % of the random tours): O3 takes distance = sum of the leg distances incl. the return of a closed tour, duration = end of the tour (return, or last departure of an open tour) - departure, size = number of job activities; only soundness is judged on such vehicles (the completeness clause names time windows, shift times and capacity only; the evaluator's duration test is a conservative estimate)");
    run.assume("open vehicles have no shift end (vrp-core derives the actor's time end from the end place only)");
    run.assume("activities already in the tour keep the place and window chosen for them (part of the state); only the inserted job's places/windows are enumerated by the oracle");
    run.assume("jobs under evaluation are in `required`, never in `unassigned` with a concrete code; routing is metric, time independent and integer valued (all sums exact)");
    run.assume("completeness is asserted for single-task jobs with InsertionPosition::Any + LegSelection::Exhaustive + BestResultSelector only; Concrete(i) failures are observed, not judged; multi-task jobs: soundness only");

    // phase 1: deterministic small-scope families (same for every seed), at most 70 % of the budget
    let descs = family_descs(!run.is_quick());
    run.note("exhaustive_family_cases", json!(descs.len()));
    par_for(16, descs.len() as u64, &|| !run.has_time_frac(0.7), &|i| {
        let (case, origin) = build_family_case(&descs[i as usize]);
        check_case(&run, &case, origin, None);
    });
    let exhaustive_done = run.observed("origin", "exhaustive:tw") + run.observed("origin", "exhaustive:pd") + run.observed("origin", "exhaustive:cap");
    run.note("exhaustive_family_cases_done", json!(exhaustive_done));

    // phase 2: seeded random cases
    let cases = run.by_tier(30_000u64, 3_000_000);
    par_for(16, cases, &|| !run.has_time(), &|i| {
        let case_seed = mix(run.seed, i);
        let case = random_case(case_seed);
        check_case(&run, &case, "random", Some(case_seed));
    });

    run.floor("candidates with a static delivery and a static pickup at one activity (exchange / replacement)", run.observed_keys("job").iter().filter(|k| k.contains("/exchange/")).map(|k| run.observed("job", k)).sum(), 1000);
    run.floor("evaluations", run.evaluations(), 100_000);
    run.floor("exhaustive family cases completed", exhaustive_done, descs.len() as u64);
    run.floor("random cases", run.observed("origin", "random"), 1_000);
    for b in [
        "arrival==window-end@inserted",
        "arrival==window-end@other",
        "waiting@inserted",
        "waiting@other",
        "return==shift-end",
        "peak-load==capacity",
        "last-leg-of-open-tour",
        "pickup-fits-only-after-the-peak-load",
        "delivery-fits-only-before-the-peak-load",
        "rejected-one-time-unit-late",
    ] {
        run.floor(&format!("boundary {b}"), run.observed("boundaries", b), 100);
    }
    for b in ["distance==max-distance", "duration==max-duration", "activities==tour-size"] {
        run.floor(&format!("boundary {b}"), run.observed("boundaries", b), 20);
    }
    for l in ["tour-with-limits:distance+duration", "tour-with-limits:distance+duration+size", "tour-with-limits:duration", "tour-with-limits:distance", "tour-with-limits:size"] {
        run.floor(&format!("cases on a {l}"), run.observed("limits", l), 50);
    }
    for code in ["max-distance", "max-duration", "tour-size"] {
        let rejected: u64 = run.observed_keys("results").iter().filter(|k| k.ends_with(&format!("/failure/{code}"))).map(|k| run.observed("results", k)).sum();
        run.floor(&format!("evaluations rejected with the {code} code"), rejected, 20);
    }
    for r in ["single/concrete/success", "single/any/success", "multi/any/success", "multi/concrete/success", "single/last/success"] {
        run.floor(&format!("result {r}"), run.observed("results", r), 100);
    }
    for t in 0..=8 {
        run.floor(&format!("tour size {t}"), run.observed("tour_size", &t.to_string()), 10);
    }
    run.finish();
}
