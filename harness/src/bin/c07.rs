//! C07 – interrupting the solver at any moment still yields a valid solution (fault enumeration over quota poll points).
//!
//! A `CountingQuota{k}` (public `Quota` trait) turns true at its k-th poll and stays true. A first run with k = ∞
//! measures the number of polls N of a solve, then k is enumerated. Every returned solution is judged by O1;
//! generations are counted by a wrapper around the default hyper-heuristic (independent of telemetry).
use serde_json::{Value, json};
use std::fmt::{Display, Formatter};
use std::io::BufWriter;
use std::sync::Arc;
use std::sync::atomic::{AtomicU64, AtomicUsize, Ordering};
use vrp_core::construction::heuristics::InsertionContext;
use vrp_core::models::{GoalContext, Problem};
use vrp_core::prelude::*;
use vrp_core::rosomaxa::prelude::*;
use vrp_core::rosomaxa::utils::Parallelism;
use vrp_core::solver::{RefinementContext, TargetHeuristic, get_default_heuristic};
use vrp_pragmatic::format::solution::{PragmaticOutputType, write_pragmatic};
use vverif::pragen::{GenCfg, PragProblem, generate};
use vverif::replay::{PProblem, replay_parsed};
use vverif::solverun::{ReadOutcome, read_problem};
use vverif::{Rng, Run, clip, mix, par_for};

struct CountingQuota {
    k: u64,
    polls: AtomicU64,
    /// polls observed at the moment of firing and afterwards
    after_fire: AtomicU64,
}

impl Quota for CountingQuota {
    fn is_reached(&self) -> bool {
        let n = self.polls.fetch_add(1, Ordering::SeqCst);
        if n >= self.k {
            self.after_fire.fetch_add(1, Ordering::SeqCst);
            true
        } else {
            false
        }
    }
}

struct CountingHeuristic {
    inner: TargetHeuristic,
    generations: Arc<AtomicUsize>,
    quota: Arc<CountingQuota>,
    polls_at_first_search: Arc<AtomicU64>,
}

impl Display for CountingHeuristic {
    fn fmt(&self, f: &mut Formatter<'_>) -> std::fmt::Result {
        self.inner.fmt(f)
    }
}

impl HyperHeuristic for CountingHeuristic {
    type Context = RefinementContext;
    type Objective = GoalContext;
    type Solution = InsertionContext;

    fn search(&mut self, ctx: &Self::Context, solution: &Self::Solution) -> Vec<Self::Solution> {
        self.inner.search(ctx, solution)
    }

    fn search_many(&mut self, ctx: &Self::Context, solutions: Vec<&Self::Solution>) -> Vec<Self::Solution> {
        if self.generations.fetch_add(1, Ordering::SeqCst) == 0 {
            self.polls_at_first_search.store(self.quota.polls.load(Ordering::SeqCst), Ordering::SeqCst);
        }
        self.inner.search_many(ctx, solutions)
    }

    fn diversify(&self, ctx: &Self::Context, solution: &Self::Solution) -> Vec<Self::Solution> {
        self.inner.diversify(ctx, solution)
    }

    fn diversify_many(&self, ctx: &Self::Context, solutions: Vec<&Self::Solution>) -> Vec<Self::Solution> {
        self.inner.diversify_many(ctx, solutions)
    }
}

struct RunResult {
    outcome: Result<String, String>,
    polls: u64,
    after_fire: u64,
    generations: usize,
    polls_at_first_search: u64,
}

type MinCv = Option<(String, usize, f64, bool)>;

fn solve_with_quota(problem: Arc<Problem>, k: u64, max_generations: Option<usize>, max_time: Option<usize>, threads: (usize, usize), min_cv: MinCv) -> Result<RunResult, vverif::PanicInfo> {
    let quota = Arc::new(CountingQuota { k, polls: AtomicU64::new(0), after_fire: AtomicU64::new(0) });
    let generations = Arc::new(AtomicUsize::new(0));
    let polls_at_first_search = Arc::new(AtomicU64::new(u64::MAX));
    let env = Arc::new(Environment::new(
        Arc::new(DefaultRandom::default()),
        Some(quota.clone() as Arc<dyn Quota>),
        Parallelism::new(threads.0, threads.1),
        Arc::new(|_: &str| {}),
        false,
    ));
    let (q2, g2, p2) = (quota.clone(), generations.clone(), polls_at_first_search.clone());
    let outcome = vverif::guard(move || -> Result<String, String> {
        let heuristic = CountingHeuristic { inner: get_default_heuristic(problem.clone(), env.clone()), generations: g2, quota: q2, polls_at_first_search: p2 };
        let config = VrpConfigBuilder::new(problem.clone())
            .set_environment(env.clone())
            .set_telemetry_mode(TelemetryMode::None)
            .prebuild()
            .map_err(|e| e.to_string())?
            .with_heuristic(Box::new(heuristic))
            .with_max_generations(max_generations)
            .with_max_time(max_time)
            .with_min_cv(min_cv, "min_cv".to_string())
            .build()
            .map_err(|e| e.to_string())?;
        let solution = Solver::new(problem.clone(), config).solve().map_err(|e| e.to_string())?;
        let mut writer = BufWriter::new(Vec::new());
        write_pragmatic(problem.as_ref(), &solution, PragmaticOutputType::default(), &mut writer).map_err(|e| e.to_string())?;
        let bytes = writer.into_inner().map_err(|e| e.to_string())?;
        String::from_utf8(bytes).map_err(|e| e.to_string())
    })?;
    Ok(RunResult {
        outcome,
        polls: quota.polls.load(Ordering::SeqCst),
        after_fire: quota.after_fire.load(Ordering::SeqCst),
        generations: generations.load(Ordering::SeqCst),
        polls_at_first_search: polls_at_first_search.load(Ordering::SeqCst),
    })
}

const BOUND_AFTER_FIRE: u64 = 10_000;

fn judge(run: &Run, gp: &PragProblem, parsed: &PProblem, case_seed: u64, k: u64, max_gens: Option<usize>, phase: &str, res: Result<RunResult, vverif::PanicInfo>) {
    run.eval();
    let art = |extra: Value, solution: Option<&Value>| {
        json!({"case_seed": case_seed, "k": k, "max_generations": max_gens, "phase": phase, "shape": gp.shape(), "problem": gp.problem, "matrices": gp.matrices, "solution": solution, "extra": extra})
    };
    match res {
        Err(p) => run.violation(&format!("C07|panic|{}|phase={phase}", p.file()), &format!("solver panicked when the quota fired at poll {k}: {} at {}", p.message, p.location), art(p.to_json(), None)),
        Ok(r) => {
            run.observe("fired_phase", phase);
            if let Some(limit) = max_gens {
                run.observe("generation_limit", &limit.to_string());
                if r.generations > limit {
                    // exactly one round too many is the recorded off-by-one of the generation counter; anything beyond is a different defect
                    let class = if r.generations == limit + 1 { "rounds=limit+1" } else { "rounds>limit+1" };
                    run.violation(&format!("C07|generations-exceeded|{class}"), &format!("{} search rounds with max_generations {limit}", r.generations), art(json!({"generations": r.generations}), None));
                }
            }
            if k != u64::MAX && r.after_fire > BOUND_AFTER_FIRE {
                run.violation("C07|no-bounded-return-after-quota", &format!("{} further polls after the quota fired at poll {k}", r.after_fire), art(json!({"after_fire": r.after_fire}), None));
            }
            run.observe("polls_after_fire_log2", &format!("{}", 64 - r.after_fire.leading_zeros()));
            match r.outcome {
                Err(e) => {
                    let head: String = e.chars().filter(|c| !c.is_ascii_digit()).collect();
                    run.violation(&format!("C07|solve-error|{}|phase={phase}", clip(&head, 60)), &format!("solve returned Err when the quota fired at poll {k}: {}", clip(&e, 200)), art(json!({"error": e}), None));
                }
                Ok(text) => {
                    let solution: Value = serde_json::from_str(&text).unwrap_or(Value::Null);
                    match replay_parsed(parsed, &solution) {
                        Ok(rep) => {
                            run.observe("unassigned_jobs", &rep.unassigned_jobs.min(99).to_string());
                            run.observe("tours", &rep.tours.min(99).to_string());
                            let mut seen = std::collections::BTreeSet::new();
                            // the tag findings recorded under C03 are not re-reported here
                            for is in rep.issues.iter().filter(|i| !i.rule.starts_with("place-tag")) {
                                let sig = format!("C07|invalid-solution|{}|phase={phase}", is.signature());
                                if let Some(what) = run.known_for(is.prop, &is.signature()) {
                                    run.known_hit(&sig, &format!("(listed under {}) {what}", is.prop));
                                    continue;
                                }
                                if seen.insert(sig.clone()) {
                                    run.violation(&sig, &format!("quota fired at poll {k}: {}", clip(&is.detail, 300)), art(json!({"rule": is.rule}), Some(&solution)));
                                }
                            }
                            run.nontrivial(&format!("{}|k={k}|g={max_gens:?}|u={}|t={}", gp.shape(), rep.unassigned_jobs, rep.tours));
                            if run.wants_sample() && k != u64::MAX && k > 3 {
                                run.sample(json!({"case_seed": case_seed, "problem_shape": gp.shape(), "k": k, "polls_seen": r.polls, "polls_after_fire": r.after_fire, "phase": phase,
                                    "generations": r.generations, "max_generations": max_gens, "tours": rep.tours, "assigned": rep.assigned_jobs, "unassigned": rep.unassigned_jobs}));
                            }
                        }
                        Err(e) => run.violation(&format!("C07|solution-not-in-documented-format|{}", clip(&e, 50)), &format!("quota fired at poll {k}: solution cannot be replayed: {e}"), art(json!({"error": e}), Some(&solution))),
                    }
                }
            }
        }
    }
}

fn main() {
    let run = Run::from_args(
        "C07",
        "fault_enumeration",
        "fault = computation quota (public Quota trait) that turns true at its k-th poll and stays true. Per generated problem (G1, 6-20 jobs, multi jobs, reloads, \
         breaks, limits, groups...) a first solve with k = infinity measures the number of poll points N; then k is enumerated (quick: every k below a cap plus a stride up to N; \
         thorough: every k up to N for N <= 6000) for generation limits in {1,2,7,50}; each run must return Ok with a solution that O1 finds valid (C01-C03 rules), within 10000 \
         further polls after firing, with no more search rounds than max_generations (counted by a wrapper around the default hyper-heuristic). A few positive max_time runs are added. \
         Non-trivial/distinct = (problem shape, k, generation limit, unassigned count, tour count).",
        80,
        600,
    );
    run.assume("O1 (src/replay.rs) judges validity; its recorded place-tag findings (C03) are not re-reported here");
    run.assume("poll counts vary between runs of the multi-threaded solver, so k enumerates logical poll positions, not a fixed code location; wall clock is only a watchdog");
    run.assume("generation limit 0 is outside the property (positive limits); required breaks, recharge, clustering are outside the workload");
    if let Some(path) = run.replay.clone() {
        replay(&run, &path);
        run.finish();
    }
    // watchdog: a hanging solve is inconclusive, never a violation
    let heartbeat = Arc::new(AtomicU64::new(0));
    {
        let hb = heartbeat.clone();
        std::thread::spawn(move || {
            let mut last = 0;
            let mut idle = 0;
            loop {
                std::thread::sleep(std::time::Duration::from_secs(10));
                let cur = hb.load(Ordering::SeqCst);
                if cur == last {
                    idle += 1;
                    if idle >= 30 {
                        println!("INCONCLUSIVE property=C07 watchdog: no solve returned within 300 s");
                        std::process::exit(2);
                    }
                } else {
                    idle = 0;
                    last = cur;
                }
            }
        });
    }
    let problems: u64 = run.by_tier(30, 400);
    let k_cap: u64 = run.by_tier(120, 6000);
    let stride_points: u64 = run.by_tier(40, 200);
    for pi in 0..problems {
        if !run.has_time() {
            break;
        }
        let case_seed = mix(run.seed, pi);
        let mut rng = Rng::new(case_seed);
        let mut cfg = GenCfg::default();
        cfg.min_jobs = 6;
        cfg.max_jobs = run.by_tier(16, 24);
        cfg.p_multi_jobs = 1.0;
        cfg.p_reloads = 0.4;
        cfg.p_breaks = 0.4;
        cfg.p_limits = 0.5;
        let gp = generate(&mut rng, &cfg);
        let ReadOutcome::Ok(problem) = read_problem(&gp) else {
            run.inconclusive("generated problem rejected by reader");
            continue;
        };
        let Ok(parsed) = PProblem::parse(&gp.problem, &gp.matrices) else {
            run.inconclusive("O1 cannot parse generated problem");
            continue;
        };
        for f in gp.features.iter() {
            run.observe("features", f);
        }
        let gens = *rng.pick(&[1usize, 2, 7, 50]);
        let threads = *rng.pick(&[(1usize, 1usize), (1, 1), (1, 2), (2, 2)]);
        // the generation limit has to hold whatever other termination criteria are configured next to it: a variation
        // criterion that can never fire (threshold 0) with a sample / period shorter or longer than the limit, a generous
        // time limit
        let min_cv: MinCv = match rng.below(5) {
            0 | 1 => None,
            2 => Some(("sample".to_string(), *rng.pick(&[2usize, 5, 12, 60]), 0.0, rng.chance(0.5))),
            3 => Some(("sample".to_string(), gens + rng.range_usize(1, 40), 0.0, rng.chance(0.5))),
            _ => Some(("period".to_string(), *rng.pick(&[1usize, 3, 600]), 0.0, rng.chance(0.5))),
        };
        let extra_time: Option<usize> = if rng.chance(0.25) { Some(3600) } else { None };
        run.observe("other_termination_criteria", &format!("{}{}", match &min_cv { None => "none".to_string(), Some((kind, n, ..)) => format!("min-cv {kind} {}", if *n > gens { "> limit" } else { "<= limit" }) }, if extra_time.is_some() { " + max-time" } else { "" }));
        run.observe("thread_layout", &format!("{}x{}", threads.0, threads.1));
        // measuring run
        let base = solve_with_quota(problem.clone(), u64::MAX, Some(gens), extra_time, threads, min_cv.clone());
        heartbeat.fetch_add(1, Ordering::SeqCst);
        let (n_polls, first_search) = match &base {
            Ok(r) => (r.polls, r.polls_at_first_search),
            Err(_) => (0, u64::MAX),
        };
        judge(&run, &gp, &parsed, case_seed, u64::MAX, Some(gens), "never", base);
        if n_polls == 0 {
            continue;
        }
        run.observe("polls_per_solve_log2", &format!("{}", 64 - n_polls.leading_zeros()));
        // enumeration of k
        let mut ks: Vec<u64> = (0..n_polls.min(k_cap)).collect();
        if n_polls > k_cap {
            let step = ((n_polls - k_cap) / stride_points).max(1);
            let mut k = k_cap;
            while k < n_polls + 3 {
                ks.push(k);
                k += step;
            }
        } else {
            ks.extend([n_polls, n_polls + 1, n_polls + 2]);
        }
        run.observe_n("poll_points_enumerated", "total", ks.len() as u64);
        let exhaustive_here = n_polls <= k_cap;
        run.observe("problems_enumerated", if exhaustive_here { "all-k" } else { "all-k-below-cap+stride" });
        par_for(8, ks.len() as u64, &|| !run.has_time(), &|i| {
            let k = ks[i as usize];
            let phase = if k == 0 {
                "before-construction"
            } else if k < first_search {
                "during-construction"
            } else {
                "during-search"
            };
            let res = solve_with_quota(problem.clone(), k, Some(gens), extra_time, threads, min_cv.clone());
            heartbeat.fetch_add(1, Ordering::SeqCst);
            judge(&run, &gp, &parsed, case_seed, k, Some(gens), phase, res);
        });
        // a positive time limit: only "returns, valid"
        if pi % 6 == 0 && run.has_time() {
            let res = solve_with_quota(problem.clone(), u64::MAX, None, Some(1), threads, None);
            heartbeat.fetch_add(1, Ordering::SeqCst);
            judge(&run, &gp, &parsed, case_seed, u64::MAX, None, "max-time", res);
        }
    }
    run.floor("generation limit next to a variation criterion whose sample is longer than the limit", run.observed_keys("other_termination_criteria").iter().filter(|k| k.starts_with("min-cv sample > limit")).map(|k| run.observed("other_termination_criteria", k)).sum(), 2);
    run.floor("generation limit next to a period variation criterion", run.observed_keys("other_termination_criteria").iter().filter(|k| k.starts_with("min-cv period")).map(|k| run.observed("other_termination_criteria", k)).sum(), 1);
    run.floor("interrupted solves judged", run.evaluations(), run.by_tier(500, 5000));
    run.floor("runs interrupted during construction", run.observed("fired_phase", "during-construction"), 50);
    run.floor("runs interrupted during search", run.observed("fired_phase", "during-search"), 50);
    run.floor("runs interrupted before construction", run.observed("fired_phase", "before-construction"), 3);
    run.floor("distinct non-trivial cases", run.distinct_nontrivial(), 100);
    run.finish();
}

fn replay(run: &Run, path: &std::path::Path) {
    let doc: Value = serde_json::from_str(&std::fs::read_to_string(path).unwrap_or_default()).unwrap_or(Value::Null);
    let a = &doc["artefact"];
    let gp = PragProblem { problem: a["problem"].clone(), matrices: a["matrices"].as_array().cloned().unwrap_or_default(), features: Default::default(), jobs: 0, vehicles: 0, locations: 0 };
    let Ok(parsed) = PProblem::parse(&gp.problem, &gp.matrices) else {
        println!("cannot parse recorded problem");
        return;
    };
    if !a["solution"].is_null() {
        run.eval();
        match replay_parsed(&parsed, &a["solution"]) {
            Ok(rep) => {
                println!("replay: O1 on the recorded solution: {} issue(s)", rep.issues.len());
                for is in rep.issues.iter().filter(|i| !i.rule.starts_with("place-tag")) {
                    println!("  {} {}", is.signature(), clip(&is.detail, 300));
                    run.violation(&format!("C07|invalid-solution|{}|phase={}", is.signature(), a["phase"].as_str().unwrap_or("?")), &clip(&is.detail, 300), a.clone());
                }
            }
            Err(e) => println!("replay: O1 cannot replay: {e}"),
        }
        return;
    }
    println!("artefact holds no solution; best-effort reproduction: 30 solves with the recorded k (poll positions are not deterministic)");
    if let ReadOutcome::Ok(problem) = read_problem(&gp) {
        let k = a["k"].as_u64().unwrap_or(u64::MAX);
        let gens = a["max_generations"].as_u64().map(|g| g as usize);
        for d in 0..30u64 {
            let res = solve_with_quota(problem.clone(), k.saturating_add(d % 3), gens, None, (1, 1), None);
            judge(run, &gp, &parsed, a["case_seed"].as_u64().unwrap_or(0), k, gens, a["phase"].as_str().unwrap_or("replay"), res);
        }
    }
}
