//! Developer tool: resolve <artefact.json> <n> [default|art] [gens] - re-solve the recorded problem n times and print O1 issues.
use serde_json::Value;
use vverif::pragen::PragProblem;
use vverif::solvecheck::{CaseOutcome, solve_and_replay};
use vverif::solverun::*;
fn main() {
    let args: Vec<String> = std::env::args().collect();
    let doc: Value = serde_json::from_str(&std::fs::read_to_string(&args[1]).unwrap()).unwrap();
    let n: usize = args.get(2).and_then(|s| s.parse().ok()).unwrap_or(10);
    let mode = args.get(3).cloned().unwrap_or("art".into());
    let gens: usize = args.get(4).and_then(|s| s.parse().ok()).unwrap_or(20);
    let a = &doc["artefact"];
    let gp = PragProblem { problem: a["problem"].clone(), matrices: a["matrices"].as_array().cloned().unwrap_or_default(), features: Default::default(), jobs: 0, vehicles: 0, locations: 0 };
    let ReadOutcome::Ok(problem) = read_problem(&gp) else { panic!("cannot read") };
    let cfg = if mode == "default" { simple_config(gens, 1, 4) } else { a["config"].clone() };
    let mut stats = std::collections::BTreeMap::<String, u64>::new();
    for k in 0..n {
        match solve_and_replay(problem.clone(), &gp, &cfg) {
            CaseOutcome::Done(res) => {
                *stats.entry("ok".into()).or_default() += 1;
                for is in res.report.issues.iter() {
                    *stats.entry(is.signature()).or_default() += 1;
                    if args.get(5).is_some() { println!("{k}: {} {}", is.signature(), vverif::clip(&is.detail, 200)); }
                }
                if !res.report.issues.is_empty() && args.get(5).is_some_and(|d| d != "-") {
                    let d = args.get(5).unwrap();
                    std::fs::create_dir_all(d).unwrap();
                    std::fs::write(format!("{d}/p{k}.json"), serde_json::to_string_pretty(&gp.problem).unwrap()).unwrap();
                    std::fs::write(format!("{d}/s{k}.json"), serde_json::to_string_pretty(&res.solution).unwrap()).unwrap();
                }
            }
            CaseOutcome::SolvePanic(p) => { *stats.entry(format!("panic {} {}", p.location, vverif::clip(&p.message, 60))).or_default() += 1; }
            CaseOutcome::SolveErr(e) => { *stats.entry(format!("err {}", vverif::clip(&e, 80))).or_default() += 1; }
            _ => { *stats.entry("other".into()).or_default() += 1; }
        }
    }
    println!("{stats:#?}");
}
